// Minimal JSON value + writer (the driver has no crate dependencies).
#[derive(Clone)]
pub enum J {
    Null,
    Bool(bool),
    Num(i128),
    Str(String),
    Arr(Vec<J>),
    Obj(Vec<(&'static str, J)>),
}

impl J {
    pub fn str<S: Into<String>>(s: S) -> J {
        J::Str(s.into())
    }
    pub fn obj(v: Vec<(&'static str, J)>) -> J {
        J::Obj(v)
    }
    pub fn write(&self, out: &mut String) {
        match self {
            J::Null => out.push_str("null"),
            J::Bool(b) => out.push_str(if *b { "true" } else { "false" }),
            J::Num(n) => out.push_str(&n.to_string()),
            J::Str(s) => write_str(s, out),
            J::Arr(v) => {
                out.push('[');
                for (i, x) in v.iter().enumerate() {
                    if i > 0 {
                        out.push(',');
                    }
                    x.write(out);
                }
                out.push(']');
            }
            J::Obj(v) => {
                out.push('{');
                for (i, (k, x)) in v.iter().enumerate() {
                    if i > 0 {
                        out.push(',');
                    }
                    write_str(k, out);
                    out.push(':');
                    x.write(out);
                }
                out.push('}');
            }
        }
    }
}

fn write_str(s: &str, out: &mut String) {
    out.push('"');
    for c in s.chars() {
        match c {
            '"' => out.push_str("\\\""),
            '\\' => out.push_str("\\\\"),
            '\n' => out.push_str("\\n"),
            '\r' => out.push_str("\\r"),
            '\t' => out.push_str("\\t"),
            c if (c as u32) < 0x20 || (c as u32) == 0x7f || ((c as u32) >= 0x80 && (c as u32) < 0xa0) => {
                out.push_str(&format!("\\u{:04x}", c as u32));
            }
            c => out.push(c),
        }
    }
    out.push('"');
}
