// mtfacts: fact extractor for the memterm static checks (engine E0 of DESIGN.md).
//
// Runs as RUSTC_WORKSPACE_WRAPPER under `cargo +nightly check`. For the crate
// named `memterm` it dumps, after analysis, every MIR body (resolved callees,
// evaluated constants), every evaluated `const` item and the ADT / trait
// inventory as one JSON file into $MTFACTS_OUT. Nothing is decided here.
#![feature(rustc_private)]
#![allow(clippy::all)]

extern crate rustc_abi;
extern crate rustc_driver;
extern crate rustc_hir;
extern crate rustc_interface;
extern crate rustc_middle;
extern crate rustc_session;
extern crate rustc_span;

mod json;

use json::J;
use rustc_abi::Size;
use rustc_driver::Compilation;
use rustc_hir::def::DefKind;
use rustc_hir::def_id::{DefId, LOCAL_CRATE};
use rustc_middle::mir::interpret::{AllocId, GlobalAlloc, Scalar};
use rustc_middle::mir::{
    AggregateKind, AssertKind, BasicBlock, Body, BorrowKind, CastKind, Const, ConstValue, Operand,
    Place, ProjectionElem, Rvalue, StatementKind, TerminatorKind, UnwindAction,
    VarDebugInfoContents,
};
use rustc_middle::ty::print::with_no_trimmed_paths;
use rustc_middle::ty::{self, Instance, Ty, TyCtxt, TypingEnv};
use rustc_span::Span;

struct Cb;

impl rustc_driver::Callbacks for Cb {
    fn after_analysis<'tcx>(
        &mut self,
        _compiler: &rustc_interface::interface::Compiler,
        tcx: TyCtxt<'tcx>,
    ) -> Compilation {
        let name = tcx.crate_name(LOCAL_CRATE).to_string();
        let want = std::env::var("MTFACTS_CRATE").unwrap_or_else(|_| "memterm".to_string());
        if name != want {
            return Compilation::Continue;
        }
        let out_dir = match std::env::var("MTFACTS_OUT") {
            Ok(d) => d,
            Err(_) => return Compilation::Continue,
        };
        let is_test = tcx.sess.opts.test;
        let facts = with_no_trimmed_paths!(extract(tcx));
        let fname = format!(
            "{}/facts-{}.json",
            out_dir,
            if is_test { "test" } else { "ship" }
        );
        let mut s = String::with_capacity(1 << 24);
        facts.write(&mut s);
        std::fs::write(&fname, s).expect("cannot write facts");
        Compilation::Continue
    }
}

fn main() {
    let mut args: Vec<String> = std::env::args().collect();
    // RUSTC_WORKSPACE_WRAPPER passes the real rustc path as argv[1].
    if args.len() > 1 && (args[1].ends_with("rustc") || args[1].contains("/rustc")) {
        args.remove(1);
    }
    rustc_driver::run_compiler(&args, &mut Cb);
}

struct Cx<'tcx> {
    tcx: TyCtxt<'tcx>,
}

fn extract<'tcx>(tcx: TyCtxt<'tcx>) -> J {
    let cx = Cx { tcx };
    let mut bodies = Vec::new();
    let mut keys: Vec<_> = tcx.mir_keys(()).iter().copied().collect();
    keys.sort_by_key(|k| tcx.def_path_str(k.to_def_id()));
    for ldid in keys {
        let did = ldid.to_def_id();
        let kind = tcx.def_kind(did);
        match kind {
            DefKind::Fn | DefKind::AssocFn | DefKind::Closure => {}
            // const / static / anon const bodies are evaluated by rustc, see `consts` below.
            _ => continue,
        }
        // constructors of tuple structs have no interesting MIR
        if !tcx.is_mir_available(did) {
            continue;
        }
        let body = tcx.optimized_mir(did);
        bodies.push(cx.body(did, body));
    }

    // evaluated const items
    let mut consts = Vec::new();
    for id in tcx.hir_free_items() {
        let did = id.owner_id.to_def_id();
        let kind = tcx.def_kind(did);
        if let DefKind::Const { .. } = kind {
            if tcx.generics_of(did).own_params.len() > 0 {
                continue;
            }
            let ty = tcx.type_of(did).instantiate_identity().skip_norm_wip();
            let ty = tcx
                .try_normalize_erasing_regions(TypingEnv::fully_monomorphized(), rustc_middle::ty::Unnormalized::new_wip(ty))
                .unwrap_or(ty);
            let v = match tcx.const_eval_poly(did) {
                Ok(cv) => cx.const_value(cv, ty, 0),
                Err(_) => J::obj(vec![("error", J::str("const eval failed"))]),
            };
            consts.push(J::obj(vec![
                ("path", J::str(tcx.def_path_str(did))),
                ("ty", J::str(format!("{}", ty))),
                ("span", cx.span(tcx.def_span(did))),
                ("value", v),
            ]));
        }
    }

    // ADTs and traits
    let mut adts = Vec::new();
    let mut traits = Vec::new();
    for id in tcx.hir_free_items() {
        let did = id.owner_id.to_def_id();
        match tcx.def_kind(did) {
            DefKind::Struct | DefKind::Enum => {
                let adt = tcx.adt_def(did);
                let mut variants = Vec::new();
                for v in adt.variants().iter() {
                    let mut fields = Vec::new();
                    for f in v.fields.iter() {
                        let fty = tcx.type_of(f.did).instantiate_identity().skip_norm_wip();
                        fields.push(J::obj(vec![
                            ("name", J::str(f.name.to_string())),
                            ("ty", J::str(format!("{}", fty))),
                        ]));
                    }
                    variants.push(J::obj(vec![
                        ("name", J::str(v.name.to_string())),
                        ("fields", J::Arr(fields)),
                    ]));
                }
                adts.push(J::obj(vec![
                    ("path", J::str(tcx.def_path_str(did))),
                    ("kind", J::str(if adt.is_enum() { "enum" } else { "struct" })),
                    ("variants", J::Arr(variants)),
                ]));
            }
            DefKind::Trait => {
                let mut items = Vec::new();
                for it in tcx.associated_items(did).in_definition_order() {
                    items.push(J::obj(vec![
                        ("name", J::str(it.name().to_string())),
                        ("has_default", J::Bool(it.defaultness(tcx).has_value())),
                        ("path", J::str(tcx.def_path_str(it.def_id))),
                    ]));
                }
                traits.push(J::obj(vec![
                    ("path", J::str(tcx.def_path_str(did))),
                    ("items", J::Arr(items)),
                ]));
            }
            _ => {}
        }
    }

    J::obj(vec![
        ("crate", J::str(tcx.crate_name(LOCAL_CRATE).to_string())),
        ("cfg_test", J::Bool(tcx.sess.opts.test)),
        ("rustc", J::str(option_env!("CFG_VERSION").unwrap_or("nightly").to_string())),
        ("bodies", J::Arr(bodies)),
        ("consts", J::Arr(consts)),
        ("adts", J::Arr(adts)),
        ("traits", J::Arr(traits)),
    ])
}

impl<'tcx> Cx<'tcx> {
    fn span(&self, sp: Span) -> J {
        let exp = sp.from_expansion();
        let sp2 = sp.source_callsite();
        let sm = self.tcx.sess.source_map();
        let lo = sm.lookup_char_pos(sp2.lo());
        let hi = sm.lookup_char_pos(sp2.hi());
        let file = format!("{}", lo.file.name.prefer_local_unconditionally());
        J::obj(vec![
            ("file", J::str(file)),
            ("line", J::Num(lo.line as i128)),
            ("col", J::Num(lo.col.0 as i128 + 1)),
            ("eline", J::Num(hi.line as i128)),
            ("exp", J::Bool(exp)),
        ])
    }

    fn ty(&self, ty: Ty<'tcx>) -> J {
        J::str(format!("{}", ty))
    }

    fn body(&self, did: DefId, body: &Body<'tcx>) -> J {
        let tcx = self.tcx;
        let env = TypingEnv::post_analysis(tcx, did);
        let mut locals = Vec::new();
        for (_l, decl) in body.local_decls.iter_enumerated() {
            locals.push(J::obj(vec![
                ("ty", self.ty(decl.ty)),
                ("mut", J::Bool(decl.mutability.is_mut())),
            ]));
        }
        let mut dbg = Vec::new();
        for v in body.var_debug_info.iter() {
            if let VarDebugInfoContents::Place(p) = &v.value {
                dbg.push(J::obj(vec![
                    ("name", J::str(v.name.to_string())),
                    ("place", self.place(body, p)),
                ]));
            }
        }
        let mut blocks = Vec::new();
        for (_bb, data) in body.basic_blocks.iter_enumerated() {
            let mut stmts = Vec::new();
            for st in data.statements.iter() {
                let sp = st.source_info.span;
                match &st.kind {
                    StatementKind::Assign(b) => {
                        let (pl, rv) = &**b;
                        stmts.push(J::obj(vec![
                            ("k", J::str("assign")),
                            ("place", self.place(body, pl)),
                            ("rv", self.rvalue(did, env, body, rv, sp)),
                            ("span", self.span(sp)),
                        ]));
                    }
                    StatementKind::SetDiscriminant { place, variant_index } => {
                        stmts.push(J::obj(vec![
                            ("k", J::str("setdiscr")),
                            ("place", self.place(body, place)),
                            ("variant", J::Num(variant_index.as_u32() as i128)),
                            ("span", self.span(sp)),
                        ]));
                    }
                    StatementKind::StorageDead(l) => {
                        stmts.push(J::obj(vec![
                            ("k", J::str("dead")),
                            ("local", J::Num(l.as_u32() as i128)),
                        ]));
                    }
                    StatementKind::StorageLive(l) => {
                        stmts.push(J::obj(vec![
                            ("k", J::str("live")),
                            ("local", J::Num(l.as_u32() as i128)),
                        ]));
                    }
                    StatementKind::Intrinsic(i) => {
                        stmts.push(J::obj(vec![
                            ("k", J::str("intrinsic")),
                            ("text", J::str(format!("{:?}", i))),
                            ("span", self.span(sp)),
                        ]));
                    }
                    StatementKind::FakeRead(..)
                    | StatementKind::PlaceMention(..)
                    | StatementKind::AscribeUserType(..)
                    | StatementKind::Coverage(..)
                    | StatementKind::ConstEvalCounter
                    | StatementKind::Nop
                    | StatementKind::BackwardIncompatibleDropHint { .. } => {}
                }
            }
            let term = data.terminator();
            let t = self.terminator(did, env, body, term);
            blocks.push(J::obj(vec![
                ("stmts", J::Arr(stmts)),
                ("term", t),
                ("cleanup", J::Bool(data.is_cleanup)),
            ]));
        }
        // closure captures (names of upvars in field order)
        let mut upvars = Vec::new();
        if tcx.def_kind(did) == DefKind::Closure {
            if let Some(ldid) = did.as_local() {
                for cap in tcx.closure_captures(ldid).iter() {
                    upvars.push(J::obj(vec![
                        ("name", J::str(cap.to_string(tcx))),
                        ("by_ref", J::Bool(cap.is_by_ref())),
                        ("borrow", J::str(match cap.info.capture_kind {
                            ty::UpvarCapture::ByValue => "value",
                            ty::UpvarCapture::ByUse => "use",
                            ty::UpvarCapture::ByRef(ty::BorrowKind::Immutable) => "imm",
                            ty::UpvarCapture::ByRef(ty::BorrowKind::UniqueImmutable) => "uniq",
                            ty::UpvarCapture::ByRef(ty::BorrowKind::Mutable) => "mut",
                        })),
                        ("ty", J::str(format!("{}", cap.place.ty()))),
                    ]));
                }
            }
        }
        let kind = match tcx.def_kind(did) {
            DefKind::Fn => "fn",
            DefKind::AssocFn => "assoc_fn",
            DefKind::Closure => "closure",
            _ => "other",
        };
        let parent = if tcx.def_kind(did) == DefKind::Closure {
            J::str(tcx.def_path_str(tcx.typeck_root_def_id(did)))
        } else {
            J::Null
        };
        let is_const_fn = matches!(tcx.def_kind(did), DefKind::Fn | DefKind::AssocFn)
            && tcx.is_const_fn(did);
        J::obj(vec![
            ("path", J::str(tcx.def_path_str(did))),
            ("kind", J::str(kind)),
            ("parent", parent),
            ("const_fn", J::Bool(is_const_fn)),
            ("span", self.span(body.span)),
            ("arg_count", J::Num(body.arg_count as i128)),
            ("locals", J::Arr(locals)),
            ("debug", J::Arr(dbg)),
            ("upvars", J::Arr(upvars)),
            ("blocks", J::Arr(blocks)),
        ])
    }

    fn bb(&self, b: BasicBlock) -> J {
        J::Num(b.as_u32() as i128)
    }

    fn unwind(&self, u: &UnwindAction) -> J {
        match u {
            UnwindAction::Cleanup(b) => self.bb(*b),
            _ => J::Null,
        }
    }

    fn place(&self, body: &Body<'tcx>, p: &Place<'tcx>) -> J {
        let tcx = self.tcx;
        let mut proj = Vec::new();
        let mut pty = rustc_middle::mir::PlaceTy::from_ty(body.local_decls[p.local].ty);
        for elem in p.projection.iter() {
            let j = match elem {
                ProjectionElem::Deref => J::obj(vec![("k", J::str("deref"))]),
                ProjectionElem::Field(f, fty) => {
                    let mut name = format!("{}", f.as_u32());
                    if let ty::Adt(adt, _) = pty.ty.kind() {
                        let vi = pty.variant_index.unwrap_or(rustc_abi::FIRST_VARIANT);
                        if adt.is_struct() || adt.is_enum() {
                            if let Some(v) = adt.variants().get(vi) {
                                if let Some(fd) = v.fields.get(f) {
                                    name = fd.name.to_string();
                                }
                            }
                        }
                    }
                    J::obj(vec![
                        ("k", J::str("field")),
                        ("i", J::Num(f.as_u32() as i128)),
                        ("name", J::str(name)),
                        ("ty", self.ty(fty)),
                    ])
                }
                ProjectionElem::Index(l) => J::obj(vec![
                    ("k", J::str("index")),
                    ("local", J::Num(l.as_u32() as i128)),
                ]),
                ProjectionElem::ConstantIndex { offset, min_length, from_end } => J::obj(vec![
                    ("k", J::str("constindex")),
                    ("offset", J::Num(offset as i128)),
                    ("min_length", J::Num(min_length as i128)),
                    ("from_end", J::Bool(from_end)),
                ]),
                ProjectionElem::Subslice { from, to, from_end } => J::obj(vec![
                    ("k", J::str("subslice")),
                    ("from", J::Num(from as i128)),
                    ("to", J::Num(to as i128)),
                    ("from_end", J::Bool(from_end)),
                ]),
                ProjectionElem::Downcast(name, vi) => J::obj(vec![
                    ("k", J::str("downcast")),
                    ("variant", J::Num(vi.as_u32() as i128)),
                    (
                        "name",
                        match name {
                            Some(n) => J::str(n.to_string()),
                            None => J::Null,
                        },
                    ),
                ]),
                ProjectionElem::OpaqueCast(_) => J::obj(vec![("k", J::str("opaquecast"))]),
                ProjectionElem::UnwrapUnsafeBinder(_) => J::obj(vec![("k", J::str("unwrapbinder"))]),
            };
            proj.push(j);
            pty = pty.projection_ty(tcx, elem);
        }
        J::obj(vec![
            ("local", J::Num(p.local.as_u32() as i128)),
            ("proj", J::Arr(proj)),
            ("ty", self.ty(pty.ty)),
        ])
    }

    fn operand(&self, did: DefId, env: TypingEnv<'tcx>, body: &Body<'tcx>, op: &Operand<'tcx>) -> J {
        match op {
            Operand::Copy(p) => J::obj(vec![("k", J::str("copy")), ("place", self.place(body, p))]),
            Operand::Move(p) => J::obj(vec![("k", J::str("move")), ("place", self.place(body, p))]),
            Operand::Constant(c) => {
                let ty = c.const_.ty();
                let mut fields = vec![("k", J::str("const")), ("ty", self.ty(ty))];
                if let ty::FnDef(fdid, args) = ty.kind() {
                    fields.push(("fn", self.fn_ref(env, *fdid, args)));
                } else {
                    // promoted constants and named consts are evaluated by rustc
                    let mut origin = J::Null;
                    if let Const::Unevaluated(u, _) = c.const_ {
                        if let Some(p) = u.promoted {
                            origin = J::str(format!("promoted[{}]", p.as_u32()));
                        } else {
                            origin = J::str(self.tcx.def_path_str(u.def));
                        }
                    }
                    fields.push(("origin", origin));
                    let v = match c.const_.eval(self.tcx, env, c.span) {
                        Ok(cv) => self.const_value(cv, ty, 0),
                        Err(_) => self.promoted_fallback(did, c).unwrap_or_else(|| {
                            J::obj(vec![("error", J::str("too generic or failed"))])
                        }),
                    };
                    fields.push(("value", v));
                }
                let _ = did;
                J::obj(fields)
            }
            Operand::RuntimeChecks(rc) => J::obj(vec![
                ("k", J::str("runtime_checks")),
                ("what", J::str(format!("{:?}", rc))),
            ]),
        }
    }

    /// A promoted constant of a generic function cannot be evaluated with identity arguments.
    /// The ones in this crate have the shape `_1 = const NAMED; _0 = &_1`: evaluate the named
    /// (non-generic) constant instead; the JSON rendering looks through references anyway.
    fn promoted_fallback(&self, did: DefId, c: &rustc_middle::mir::ConstOperand<'tcx>) -> Option<J> {
        let tcx = self.tcx;
        let Const::Unevaluated(u, _) = c.const_ else { return None };
        let p = u.promoted?;
        if u.def != did {
            return None;
        }
        let pbody = &tcx.promoted_mir(did)[p];
        // straight-line evaluation of the promoted body: constants, moves, arrays / tuples of
        // them, and references to such locals; the value of the return place is the constant
        let mut vals: std::collections::HashMap<rustc_middle::mir::Local, J> = std::collections::HashMap::new();
        let get_op = |vals: &std::collections::HashMap<rustc_middle::mir::Local, J>, o: &Operand<'tcx>| -> Option<J> {
            match o {
                Operand::Constant(c2) => {
                    let cv = c2.const_.eval(tcx, TypingEnv::fully_monomorphized(), c2.span).ok()?;
                    Some(self.const_value(cv, c2.const_.ty(), 0))
                }
                Operand::Copy(pl) | Operand::Move(pl) => {
                    if pl.projection.is_empty() {
                        vals.get(&pl.local).cloned()
                    } else if pl.projection.len() == 1 && matches!(pl.projection[0], rustc_middle::mir::ProjectionElem::Deref) {
                        vals.get(&pl.local).cloned()
                    } else {
                        None
                    }
                }
                _ => None,
            }
        };
        for data in pbody.basic_blocks.iter() {
            for st in data.statements.iter() {
                if let StatementKind::Assign(b) = &st.kind {
                    if !b.0.projection.is_empty() {
                        return None;
                    }
                    let v: Option<J> = match &b.1 {
                        Rvalue::Use(o, ..) => get_op(&vals, o),
                        Rvalue::Aggregate(kind, ops) => {
                            let mut items = Vec::new();
                            let mut ok = true;
                            for o in ops.iter() {
                                match get_op(&vals, o) {
                                    Some(x) => items.push(x),
                                    None => ok = false,
                                }
                            }
                            if !ok {
                                None
                            } else {
                                match **kind {
                                    rustc_middle::mir::AggregateKind::Array(_) => Some(J::Arr(items)),
                                    rustc_middle::mir::AggregateKind::Tuple => Some(J::obj(vec![("tuple", J::Arr(items))])),
                                    _ => None,
                                }
                            }
                        }
                        Rvalue::Ref(_, _, pl) => {
                            if pl.projection.is_empty() {
                                vals.get(&pl.local).cloned()
                            } else if pl.projection.len() == 1 && matches!(pl.projection[0], rustc_middle::mir::ProjectionElem::Deref) {
                                vals.get(&pl.local).cloned()
                            } else {
                                None
                            }
                        }
                        Rvalue::Cast(_, o, _) => get_op(&vals, o),
                        _ => None,
                    };
                    match v {
                        Some(x) => {
                            vals.insert(b.0.local, x);
                        }
                        None => {
                            vals.remove(&b.0.local);
                        }
                    }
                }
            }
        }
        vals.get(&rustc_middle::mir::RETURN_PLACE).cloned()
    }

    fn fn_ref(&self, env: TypingEnv<'tcx>, fdid: DefId, args: ty::GenericArgsRef<'tcx>) -> J {
        let tcx = self.tcx;
        let mut fields = vec![
            ("path", J::str(tcx.def_path_str(fdid))),
            ("full", J::str(tcx.def_path_str_with_args(fdid, args))),
            ("local", J::Bool(fdid.is_local())),
        ];
        let mut substs = Vec::new();
        for a in args.iter() {
            substs.push(J::str(format!("{}", a)));
        }
        fields.push(("substs", J::Arr(substs)));
        // closure arguments among the substs: give their def paths
        let mut clos = Vec::new();
        for a in args.iter() {
            if let Some(t) = a.as_type() {
                let mut t = t;
                while let ty::Ref(_, inner, _) = t.kind() {
                    t = *inner;
                }
                if let ty::Closure(cdid, _) = t.kind() {
                    clos.push(J::str(tcx.def_path_str(*cdid)));
                }
            }
        }
        fields.push(("closure_substs", J::Arr(clos)));
        if let Some(tr) = tcx.trait_of_assoc(fdid) {
            fields.push(("trait", J::str(tcx.def_path_str(tr))));
        }
        match Instance::try_resolve(tcx, env, fdid, args) {
            Ok(Some(inst)) => {
                let rd = inst.def_id();
                fields.push(("resolved", J::str(tcx.def_path_str(rd))));
                fields.push(("resolved_local", J::Bool(rd.is_local())));
                fields.push(("resolved_kind", J::str(instance_kind(&inst))));
            }
            _ => {
                fields.push(("resolved", J::Null));
            }
        }
        J::obj(fields)
    }

    fn rvalue(&self, did: DefId, env: TypingEnv<'tcx>, body: &Body<'tcx>, rv: &Rvalue<'tcx>, _sp: Span) -> J {
        let tcx = self.tcx;
        match rv {
            Rvalue::Use(op, _) => J::obj(vec![("k", J::str("use")), ("op", self.operand(did, env, body, op))]),
            Rvalue::Repeat(op, n) => J::obj(vec![
                ("k", J::str("repeat")),
                ("op", self.operand(did, env, body, op)),
                ("n", J::str(format!("{}", n))),
            ]),
            Rvalue::Ref(_, bk, p) => J::obj(vec![
                ("k", J::str("ref")),
                (
                    "mut",
                    J::Bool(matches!(bk, BorrowKind::Mut { .. })),
                ),
                ("fake", J::Bool(matches!(bk, BorrowKind::Fake(_)))),
                ("place", self.place(body, p)),
            ]),
            Rvalue::ThreadLocalRef(d) => J::obj(vec![
                ("k", J::str("tlsref")),
                ("path", J::str(tcx.def_path_str(*d))),
            ]),
            Rvalue::RawPtr(k, p) => J::obj(vec![
                ("k", J::str("rawptr")),
                ("kind", J::str(format!("{:?}", k))),
                ("place", self.place(body, p)),
            ]),
            Rvalue::Cast(ck, op, ty) => J::obj(vec![
                ("k", J::str("cast")),
                ("kind", J::str(cast_kind(ck))),
                ("op", self.operand(did, env, body, op)),
                ("from", self.ty(op.ty(&body.local_decls, tcx))),
                ("ty", self.ty(*ty)),
            ]),
            Rvalue::BinaryOp(op, b) => J::obj(vec![
                ("k", J::str("binop")),
                ("op", J::str(format!("{:?}", op))),
                ("a", self.operand(did, env, body, &b.0)),
                ("b", self.operand(did, env, body, &b.1)),
                ("ty", self.ty(b.0.ty(&body.local_decls, tcx))),
            ]),
            Rvalue::UnaryOp(op, a) => J::obj(vec![
                ("k", J::str("unop")),
                ("op", J::str(format!("{:?}", op))),
                ("a", self.operand(did, env, body, a)),
                ("ty", self.ty(a.ty(&body.local_decls, tcx))),
            ]),
            Rvalue::Discriminant(p) => J::obj(vec![
                ("k", J::str("discr")),
                ("place", self.place(body, p)),
            ]),
            Rvalue::Aggregate(kind, ops) => {
                let mut fields = vec![("k", J::str("aggregate"))];
                let mut names: Vec<J> = Vec::new();
                match &**kind {
                    AggregateKind::Array(t) => {
                        fields.push(("agg", J::str("array")));
                        fields.push(("elem", self.ty(*t)));
                    }
                    AggregateKind::Tuple => fields.push(("agg", J::str("tuple"))),
                    AggregateKind::Adt(adid, vi, _args, _, active) => {
                        let adt = tcx.adt_def(*adid);
                        fields.push(("agg", J::str("adt")));
                        fields.push(("adt", J::str(tcx.def_path_str(*adid))));
                        fields.push(("variant", J::Num(vi.as_u32() as i128)));
                        let v = adt.variant(*vi);
                        fields.push(("variant_name", J::str(v.name.to_string())));
                        if let Some(a) = active {
                            names.push(J::str(v.fields[*a].name.to_string()));
                        } else {
                            for f in v.fields.iter() {
                                names.push(J::str(f.name.to_string()));
                            }
                        }
                    }
                    AggregateKind::Closure(cdid, _) => {
                        fields.push(("agg", J::str("closure")));
                        fields.push(("closure", J::str(tcx.def_path_str(*cdid))));
                    }
                    AggregateKind::Coroutine(cdid, _) | AggregateKind::CoroutineClosure(cdid, _) => {
                        fields.push(("agg", J::str("coroutine")));
                        fields.push(("closure", J::str(tcx.def_path_str(*cdid))));
                    }
                    AggregateKind::RawPtr(..) => fields.push(("agg", J::str("rawptr"))),
                }
                fields.push(("names", J::Arr(names)));
                let mut os = Vec::new();
                for o in ops.iter() {
                    os.push(self.operand(did, env, body, o));
                }
                fields.push(("ops", J::Arr(os)));
                J::obj(fields)
            }
            Rvalue::CopyForDeref(p) => J::obj(vec![
                ("k", J::str("use")),
                ("op", J::obj(vec![("k", J::str("copy")), ("place", self.place(body, p))])),
            ]),
            Rvalue::WrapUnsafeBinder(op, _) => J::obj(vec![
                ("k", J::str("use")),
                ("op", self.operand(did, env, body, op)),
            ]),
        }
    }

    fn terminator(
        &self,
        did: DefId,
        env: TypingEnv<'tcx>,
        body: &Body<'tcx>,
        term: &rustc_middle::mir::Terminator<'tcx>,
    ) -> J {
        let sp = term.source_info.span;
        let mut f: Vec<(&'static str, J)> = Vec::new();
        match &term.kind {
            TerminatorKind::Goto { target } => {
                f.push(("k", J::str("goto")));
                f.push(("target", self.bb(*target)));
            }
            TerminatorKind::SwitchInt { discr, targets } => {
                f.push(("k", J::str("switch")));
                f.push(("discr", self.operand(did, env, body, discr)));
                f.push(("discr_ty", self.ty(discr.ty(&body.local_decls, self.tcx))));
                let mut ts = Vec::new();
                for (v, b) in targets.iter() {
                    ts.push(J::Arr(vec![J::Num(v as i128), self.bb(b)]));
                }
                f.push(("targets", J::Arr(ts)));
                f.push(("otherwise", self.bb(targets.otherwise())));
            }
            TerminatorKind::UnwindResume => f.push(("k", J::str("resume"))),
            TerminatorKind::UnwindTerminate(_) => f.push(("k", J::str("terminate"))),
            TerminatorKind::Return => f.push(("k", J::str("return"))),
            TerminatorKind::Unreachable => f.push(("k", J::str("unreachable"))),
            TerminatorKind::Drop { place, target, unwind, .. } => {
                f.push(("k", J::str("drop")));
                f.push(("place", self.place(body, place)));
                f.push(("target", self.bb(*target)));
                f.push(("unwind", self.unwind(unwind)));
            }
            TerminatorKind::Call { func, args, destination, target, unwind, fn_span, .. } => {
                f.push(("k", J::str("call")));
                f.push(("func", self.operand(did, env, body, func)));
                let mut a = Vec::new();
                for x in args.iter() {
                    a.push(self.operand(did, env, body, &x.node));
                }
                f.push(("args", J::Arr(a)));
                f.push(("dest", self.place(body, destination)));
                f.push((
                    "target",
                    match target {
                        Some(t) => self.bb(*t),
                        None => J::Null,
                    },
                ));
                f.push(("unwind", self.unwind(unwind)));
                f.push(("fn_span", self.span(*fn_span)));
            }
            TerminatorKind::TailCall { .. } => f.push(("k", J::str("tailcall"))),
            TerminatorKind::Assert { cond, expected, msg, target, unwind } => {
                f.push(("k", J::str("assert")));
                f.push(("cond", self.operand(did, env, body, cond)));
                f.push(("expected", J::Bool(*expected)));
                let (kind, ops): (String, Vec<&Operand<'tcx>>) = match &**msg {
                    AssertKind::BoundsCheck { len, index } => ("bounds".into(), vec![len, index]),
                    AssertKind::Overflow(op, a, b) => (format!("overflow:{:?}", op), vec![a, b]),
                    AssertKind::OverflowNeg(a) => ("overflow_neg".into(), vec![a]),
                    AssertKind::DivisionByZero(a) => ("div_zero".into(), vec![a]),
                    AssertKind::RemainderByZero(a) => ("rem_zero".into(), vec![a]),
                    AssertKind::MisalignedPointerDereference { .. } => ("misaligned".into(), vec![]),
                    AssertKind::NullPointerDereference => ("nullptr".into(), vec![]),
                    AssertKind::InvalidEnumConstruction(_) => ("invalid_enum".into(), vec![]),
                    _ => ("resumed".into(), vec![]),
                };
                f.push(("msg", J::str(kind)));
                let mut os = Vec::new();
                for o in ops {
                    os.push(self.operand(did, env, body, o));
                }
                f.push(("ops", J::Arr(os)));
                f.push(("target", self.bb(*target)));
                f.push(("unwind", self.unwind(unwind)));
            }
            TerminatorKind::Yield { .. } => f.push(("k", J::str("yield"))),
            TerminatorKind::CoroutineDrop => f.push(("k", J::str("coroutine_drop"))),
            TerminatorKind::FalseEdge { real_target, .. } => {
                f.push(("k", J::str("goto")));
                f.push(("target", self.bb(*real_target)));
            }
            TerminatorKind::FalseUnwind { real_target, .. } => {
                f.push(("k", J::str("goto")));
                f.push(("target", self.bb(*real_target)));
            }
            TerminatorKind::InlineAsm { .. } => f.push(("k", J::str("asm"))),
        }
        f.push(("span", self.span(sp)));
        J::obj(f)
    }

    // ---- constants -------------------------------------------------------

    fn const_value(&self, cv: ConstValue, ty: Ty<'tcx>, depth: usize) -> J {
        let tcx = self.tcx;
        match cv {
            ConstValue::Scalar(Scalar::Int(i)) => self.scalar_int(i.to_bits_unchecked(), i.size().bytes(), ty),
            ConstValue::Scalar(Scalar::Ptr(ptr, _)) => {
                let (prov, off) = ptr.into_raw_parts();
                let aid = prov.alloc_id();
                match ty.kind() {
                    ty::Ref(_, inner, _) | ty::RawPtr(inner, _) => self.read_global(aid, off.bytes(), *inner, None, depth + 1),
                    _ => J::obj(vec![("opaque", J::str(format!("ptr:{}", ty)))]),
                }
            }
            ConstValue::ZeroSized => J::obj(vec![("zst", J::str(format!("{}", ty)))]),
            ConstValue::Slice { alloc_id, meta } => {
                let inner = match ty.kind() {
                    ty::Ref(_, inner, _) | ty::RawPtr(inner, _) => *inner,
                    _ => return J::obj(vec![("opaque", J::str(format!("slice:{}", ty)))]),
                };
                self.read_global(alloc_id, 0, inner, Some(meta), depth + 1)
            }
            ConstValue::Indirect { alloc_id, offset } => {
                let _ = tcx;
                self.read_global(alloc_id, offset.bytes(), ty, None, depth + 1)
            }
        }
    }

    fn scalar_int(&self, bits: u128, size: u64, ty: Ty<'tcx>) -> J {
        match ty.kind() {
            ty::Bool => J::Bool(bits != 0),
            ty::Char => match char::from_u32(bits as u32) {
                Some(c) => J::obj(vec![("char", J::Num(c as u32 as i128))]),
                None => J::Null,
            },
            ty::Int(_) => {
                let shift = 128 - size * 8;
                let v = ((bits << shift) as i128) >> shift;
                J::Num(v)
            }
            ty::Uint(_) => J::Num(bits as i128),
            ty::Adt(adt, _) if adt.is_enum() => {
                for (vi, d) in adt.discriminants(self.tcx) {
                    let mask: u128 = if size >= 16 { u128::MAX } else { (1u128 << (size * 8)) - 1 };
                    if (d.val & mask) == bits {
                        let v = adt.variant(vi);
                        return J::obj(vec![
                            ("adt", J::str(self.tcx.def_path_str(adt.did()))),
                            ("variant", J::Num(vi.as_u32() as i128)),
                            ("variant_name", J::str(v.name.to_string())),
                            ("unit", J::Bool(v.fields.is_empty())),
                        ]);
                    }
                }
                J::obj(vec![("opaque", J::str(format!("scalar:{}", ty)))])
            }
            _ => J::obj(vec![
                ("opaque", J::str(format!("scalar:{}", ty))),
                ("bits", J::Num(bits as i128)),
            ]),
        }
    }

    fn read_global(&self, aid: AllocId, off: u64, ty: Ty<'tcx>, meta: Option<u64>, depth: usize) -> J {
        let tcx = self.tcx;
        if depth > 12 {
            return J::obj(vec![("opaque", J::str("depth"))]);
        }
        match tcx.global_alloc(aid) {
            GlobalAlloc::Memory(alloc) => self.read_mem(alloc.inner(), off, ty, meta, depth),
            GlobalAlloc::Static(sdid) => J::obj(vec![("static", J::str(tcx.def_path_str(sdid)))]),
            GlobalAlloc::Function { instance } => J::obj(vec![("fnptr", J::str(tcx.def_path_str(instance.def_id())))]),
            _ => J::obj(vec![("opaque", J::str("alloc"))]),
        }
    }

    fn bytes<'a>(&self, alloc: &'a rustc_middle::mir::interpret::Allocation, off: u64, len: u64) -> &'a [u8] {
        alloc.inspect_with_uninit_and_ptr_outside_interpreter(off as usize..(off + len) as usize)
    }

    fn read_mem(
        &self,
        alloc: &rustc_middle::mir::interpret::Allocation,
        off: u64,
        ty: Ty<'tcx>,
        meta: Option<u64>,
        depth: usize,
    ) -> J {
        let tcx = self.tcx;
        let env = TypingEnv::fully_monomorphized();
        match ty.kind() {
            ty::Str => {
                let n = meta.unwrap_or(0);
                let b = self.bytes(alloc, off, n);
                J::str(String::from_utf8_lossy(b).to_string())
            }
            ty::Slice(elem) => {
                let n = meta.unwrap_or(0);
                let esz = match tcx.layout_of(env.as_query_input(*elem)) {
                    Ok(l) => l.size.bytes(),
                    Err(_) => return J::obj(vec![("opaque", J::str("layout"))]),
                };
                let mut v = Vec::new();
                for i in 0..n {
                    v.push(self.read_mem(alloc, off + i * esz, *elem, None, depth + 1));
                }
                J::Arr(v)
            }
            ty::Array(elem, n) => {
                let n = match n.try_to_target_usize(tcx) {
                    Some(n) => n,
                    None => return J::obj(vec![("opaque", J::str("arraylen"))]),
                };
                let esz = match tcx.layout_of(env.as_query_input(*elem)) {
                    Ok(l) => l.size.bytes(),
                    Err(_) => return J::obj(vec![("opaque", J::str("layout"))]),
                };
                let mut v = Vec::new();
                for i in 0..n {
                    v.push(self.read_mem(alloc, off + i * esz, *elem, None, depth + 1));
                }
                J::Arr(v)
            }
            ty::Bool | ty::Char | ty::Int(_) | ty::Uint(_) => {
                let sz = match tcx.layout_of(env.as_query_input(ty)) {
                    Ok(l) => l.size.bytes(),
                    Err(_) => return J::obj(vec![("opaque", J::str("layout"))]),
                };
                let b = self.bytes(alloc, off, sz);
                let mut bits: u128 = 0;
                for (i, x) in b.iter().enumerate() {
                    bits |= (*x as u128) << (8 * i);
                }
                self.scalar_int(bits, sz, ty)
            }
            ty::Ref(_, inner, _) | ty::RawPtr(inner, _) => {
                let psz = 8u64;
                let b = self.bytes(alloc, off, psz);
                let mut addr: u64 = 0;
                for (i, x) in b.iter().enumerate() {
                    addr |= (*x as u64) << (8 * i);
                }
                let prov = alloc.provenance().ptrs().get(&Size::from_bytes(off));
                let Some(prov) = prov else {
                    return J::obj(vec![("opaque", J::str("noprov"))]);
                };
                let aid = prov.alloc_id();
                let unsized_ = matches!(inner.kind(), ty::Str | ty::Slice(_));
                let m = if unsized_ {
                    let mb = self.bytes(alloc, off + psz, psz);
                    let mut m: u64 = 0;
                    for (i, x) in mb.iter().enumerate() {
                        m |= (*x as u64) << (8 * i);
                    }
                    Some(m)
                } else {
                    None
                };
                self.read_global(aid, addr, *inner, m, depth + 1)
            }
            ty::Tuple(tys) => {
                let Ok(layout) = tcx.layout_of(env.as_query_input(ty)) else {
                    return J::obj(vec![("opaque", J::str("layout"))]);
                };
                let mut v = Vec::new();
                for (i, t) in tys.iter().enumerate() {
                    let fo = layout.fields.offset(i).bytes();
                    v.push(self.read_mem(alloc, off + fo, t, None, depth + 1));
                }
                J::obj(vec![("tuple", J::Arr(v))])
            }
            ty::Adt(adt, args) if adt.is_enum() => {
                // enums with a direct tag or a niche: find the variant, then read its fields
                let Ok(layout) = tcx.layout_of(env.as_query_input(ty)) else {
                    return J::obj(vec![("opaque", J::str("layout"))]);
                };
                let lcx = rustc_middle::ty::layout::LayoutCx::new(tcx, env);
                let read_tag = |toff: u64, tsz: u64| -> u128 {
                    let b = self.bytes(alloc, off + toff, tsz);
                    let mut bits: u128 = 0;
                    for (i, x) in b.iter().enumerate() {
                        bits |= (*x as u128) << (8 * i);
                    }
                    bits
                };
                let vi: Option<rustc_abi::VariantIdx> = match &layout.variants {
                    rustc_abi::Variants::Single { index } => Some(*index),
                    rustc_abi::Variants::Multiple { tag, tag_encoding, tag_field, .. } => {
                        let toff = layout.fields.offset(tag_field.as_usize()).bytes();
                        let tsz = tag.size(&tcx).bytes();
                        let bits = read_tag(toff, tsz);
                        let mask: u128 = if tsz >= 16 { u128::MAX } else { (1u128 << (tsz * 8)) - 1 };
                        match tag_encoding {
                            rustc_abi::TagEncoding::Direct => {
                                let mut found = None;
                                for (v, d) in adt.discriminants(tcx) {
                                    if (d.val & mask) == bits {
                                        found = Some(v);
                                    }
                                }
                                found
                            }
                            rustc_abi::TagEncoding::Niche { untagged_variant, niche_variants, niche_start } => {
                                let rel = bits.wrapping_sub(*niche_start) & mask;
                                let lo = niche_variants.start().as_u32() as u128;
                                let hi = niche_variants.end().as_u32() as u128;
                                if rel <= hi - lo {
                                    Some(rustc_abi::VariantIdx::from_u32((lo + rel) as u32))
                                } else {
                                    Some(*untagged_variant)
                                }
                            }
                        }
                    }
                    _ => None,
                };
                let Some(vi) = vi else {
                    return J::obj(vec![("opaque", J::str(format!("{}", ty)))]);
                };
                let v = adt.variant(vi);
                let vlayout = layout.for_variant(&lcx, vi);
                let mut fields = Vec::new();
                let mut names = Vec::new();
                let mut tys = Vec::new();
                for (i, f) in v.fields.iter().enumerate() {
                    names.push(J::str(f.name.to_string()));
                    let fty = f.ty(tcx, args);
                    let fty = tcx.try_normalize_erasing_regions(env, rustc_middle::ty::Unnormalized::new_wip(fty)).unwrap_or(fty);
                    let fo = vlayout.fields.offset(i).bytes();
                    tys.push(J::str(format!("{}", fty)));
                    fields.push(self.read_mem(alloc, off + fo, fty, None, depth + 1));
                }
                J::obj(vec![
                    ("names", J::Arr(names)),
                    ("tys", J::Arr(tys)),
                    ("adt", J::str(tcx.def_path_str(adt.did()))),
                    ("variant", J::Num(vi.as_u32() as i128)),
                    ("variant_name", J::str(v.name.to_string())),
                    ("unit", J::Bool(v.fields.is_empty())),
                    ("fields", J::Arr(fields)),
                ])
            }
            ty::Adt(adt, args) if adt.is_struct() && depth < 6 => {
                // plain structs (a promoted `0..=1`, a `const` of a crate-local struct): field by field
                let Ok(layout) = tcx.layout_of(env.as_query_input(ty)) else {
                    return J::obj(vec![("opaque", J::str("layout"))]);
                };
                let v = adt.non_enum_variant();
                let mut fields = Vec::new();
                let mut names = Vec::new();
                let mut tys = Vec::new();
                for (i, f) in v.fields.iter().enumerate() {
                    let fty = f.ty(tcx, args);
                    let fty = tcx.try_normalize_erasing_regions(env, rustc_middle::ty::Unnormalized::new_wip(fty)).unwrap_or(fty);
                    let fo = layout.fields.offset(i).bytes();
                    let x = self.read_mem(alloc, off + fo, fty, None, depth + 1);
                    names.push(J::str(f.name.to_string()));
                    tys.push(J::str(format!("{}", fty)));
                    fields.push(x);
                }
                J::obj(vec![
                    ("struct", J::str(tcx.def_path_str(adt.did()))),
                    ("names", J::Arr(names)),
                    ("tys", J::Arr(tys)),
                    ("fields", J::Arr(fields)),
                ])
            }
            _ => J::obj(vec![("opaque", J::str(format!("{}", ty)))]),
        }
    }
}

fn instance_kind(inst: &Instance<'_>) -> &'static str {
    use rustc_middle::ty::InstanceKind::*;
    match inst.def {
        Item(_) => "item",
        Intrinsic(_) => "intrinsic",
        VTableShim(_) => "vtable_shim",
        ReifyShim(..) => "reify_shim",
        FnPtrShim(..) => "fnptr_shim",
        Virtual(..) => "virtual",
        ClosureOnceShim { .. } => "closure_once_shim",
        DropGlue(..) => "drop_glue",
        CloneShim(..) => "clone_shim",
        _ => "other",
    }
}

fn cast_kind(ck: &CastKind) -> String {
    match ck {
        CastKind::PointerCoercion(pc, _) => format!("PointerCoercion:{:?}", pc),
        other => format!("{:?}", other),
    }
}
