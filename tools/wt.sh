#!/bin/bash
# wt.sh <seed>: scratch worktree /tmp/bw/<seed> with the seed applied; prints the path.  wt.sh -d <seed> removes it.
if [ "$1" = "-d" ]; then git -C /repo worktree remove --force /tmp/bw/$2 2>/dev/null; git -C /repo worktree prune; exit 0; fi
mkdir -p /tmp/bw
git -C /repo worktree remove --force /tmp/bw/$1 2>/dev/null
git -C /repo worktree add -q --detach /tmp/bw/$1 HEAD && git -C /tmp/bw/$1 apply /verif/seeded/$1/patch.diff && echo /tmp/bw/$1
