#!/usr/bin/env python3
"""(re)write seeded/<id>/meta.json from verify.txt, notes.md and seeded/matrix.json"""
import json, os, re, sys
V = os.path.dirname(os.path.dirname(os.path.abspath(__file__)))
S = os.path.join(V, 'seeded')
m = json.load(open(os.path.join(S, 'matrix.json')))
for d in sorted(os.listdir(S)):
    p = os.path.join(S, d)
    if not os.path.isdir(p) or not os.path.exists(os.path.join(p, 'patch.diff')):
        continue
    ver = open(os.path.join(p, 'verify.txt')).read().strip() if os.path.exists(os.path.join(p, 'verify.txt')) else ''
    notes = open(os.path.join(p, 'notes.md')).read() if os.path.exists(os.path.join(p, 'notes.md')) else ''
    old = json.load(open(os.path.join(p, 'meta.json'))) if os.path.exists(os.path.join(p, 'meta.json')) else {}
    fired = m.get(d, {}).get('fired', [])
    if d.startswith('own-'):
        prop = {'own-C04-placeholder': 'C04', 'own-W1-dl-early-break': 'C06', 'own-W2-ich-guard': 'C13', 'own-W3-display-continue': 'C01', 'own-W4-reset-step': 'C18'}.get(d, '?')
        meta = {
            'id': d, 'breaks_property': prop,
            'origin': 'written by the author of the checks as a firing test for one rule (not an independent seed)' +
                      ('; a one-line break on top of the refactoring benign-R23 (counting while loops)' if '-W' in d else ''),
            'confirmed_by_me': {'command': 'cargo test --workspace --no-fail-fast --offline with the patch applied', 'result': ver,
                                'note': 'W1 and W2 are also caught by the existing unit tests; they are kept only to show that the loop rules fire on the counting-while form'},
            'checks_run': 'tools/matrix.py (every registered quick check)',
            'detected_by': fired,
        }
        json.dump(meta, open(os.path.join(p, 'meta.json'), 'w'), indent=1)
        print(d, fired)
        continue
    if d.startswith('benign-'):
        meta = {
            'id': d, 'kind': 'behaviour-preserving refactoring (must not be reported by any check)',
            'origin': 'independent sub-agent given only the repository in a scratch worktree and the instruction to refactor without changing behaviour (round %d)' % (
                (lambda n: 3 if n <= 14 else 4 if n <= 22 else 5 if n <= 30 else 6 if n <= 38 else 7 if n <= 44 else 8 if n <= 52 else 9 if n <= 60 else 10 if n <= 68 else 11 if n <= 80 else 12 if n <= 88 else 13 if n <= 96 else 15 if n <= 104 else 16 if n <= 112 else 17)(int(d.split('-R')[1]))),
            'confirmed_by_me': {'command': 'cargo test --workspace --no-fail-fast --offline in a scratch worktree with the patch applied (tools/verify_all_seeds.sh)', 'result': ver},
            'checks_run': 'tools/matrix.py (every registered quick check, scratch worktree via MTSA_REPO)',
            'reported_by': fired,
        }
    else:
        prop = d.split('-')[0]
        need = old.get('needs_to_manifest')
        if not need:
            mm = re.search(r'(?is)needs? to manifest\**:?\**\s*(.*?)(\n\s*\n|\n[-*#] |\Z)', notes)
            need = ' '.join(mm.group(1).split())[:600] if mm else ''
        R3 = 'C04 C05 C06 C07 C08 C09 C10 C12 C13 C14 C16 C17'.split()
        R5 = 'C04 C05 C06 C07 C09 C10 C13 C14 C16 C17'.split()
        R9 = 'C04 C05 C06 C07 C09 C10 C12 C13 C14 C16 C17 C18'.split()
        R11 = 'C04 C05 C06 C07 C09 C10 C13 C16'.split()
        R16 = 'C02 C03 C11 C19'.split()
        rnd = {'a': 1, 'b': 2, 'c': 3 if prop in R3 else 4, 'd': 5 if prop in R5 else 6, 'e': 7, 'f': 8, 'g': 9 if prop in R9 else 10, 'h': 11 if prop in R11 else 16 if prop in R16 else 14, 'i': 17 if prop in R11 else 18}.get(d[-1], 19) if d[0] == 'C' else 0
        meta = {
            'id': d, 'breaks_property': prop,
            'origin': 'independent sub-agent given only the property text and a scratch worktree (round %d)' % rnd,
            'needs_to_manifest': need,
            'confirmed_by_me': {
                'command': 'tools/verify_seed.sh %s seeded/%s <scratch worktree>  (run by tools/verify_all_seeds.sh against the current /repo HEAD)' % (prop, d),
                'result': ver,
                'meaning': 'crate builds; the unedited 91-test suite passes with the change; demo.rs (as tests/seed_%s.rs) fails with the change and passes without it' % prop.lower(),
            },
            'checks_run': 'tools/matrix.py (every registered quick check, scratch worktree with the patch applied via MTSA_REPO); own-property check also confirmed with git -C /repo apply',
            'detected_by': fired,
        }
    json.dump(meta, open(os.path.join(p, 'meta.json'), 'w'), indent=1)
    print(d, fired)
