#!/bin/bash
# run every registered check against one seeded change in a scratch worktree (MTSA_REPO), print which fire
# usage: seed_matrix.sh <seed dir name e.g. C05-a> [props...]
seed=$1; shift
d=/verif/seeded/$seed
wt=/tmp/wt/m-$seed
git -C /repo worktree add -q --detach $wt HEAD 2>/dev/null || { git -C $wt checkout -q -- . ; git -C $wt clean -qfd; }
git -C $wt apply $d/patch.diff || { echo "$seed: patch does not apply"; exit 2; }
props="$@"
[ -z "$props" ] && props=$(cd /verif && python3 -c "import sys; sys.path.insert(0,'.'); from mtsa import props; print(' '.join(sorted(props.REGISTRY)))")
ev=/tmp/wt/ev-$seed; mkdir -p $ev
fired=""
for p in $props; do
  out=$(cd /verif && MTSA_REPO=$wt MTSA_EVIDENCE_DIR=$ev timeout 900 ./check $p --tier quick 2>&1); rc=$?
  if [ $rc -ne 0 ]; then fired="$fired $p"; echo "$out" | grep -A1 "^VIOLATION" | grep -v "^VIOLATION\|^--" | cut -c1-260 | head -3 | sed "s/^/   [$p]/"; fi
done
echo "SEED $seed fired:$fired"
git -C /repo worktree remove --force $wt; rm -rf $ev
