#!/bin/bash
# chkall.sh <seed>...: every quick check against a scratch worktree (/tmp/bw/<seed>) of each seed; prints which fired. Safe to run beside matrix.py.
one() {
  s=$1
  /verif/tools/wt.sh $s >/dev/null 2>&1
  fired=""
  for p in ${PROPS:-C01 C02 C03 C04 C05 C06 C07 C08 C09 C10 C11 C12 C13 C14 C15 C16 C17 C18 C19 C20}; do
    out=$(cd /verif && MTSA_REPO=/tmp/bw/$s MTSA_EVIDENCE_DIR=/tmp/bw/ev-$s timeout 1200 ./check $p 2>&1); rc=$?
    echo "$out" > /tmp/bw/out-$s-$p.txt
    [ $rc -ne 0 ] && fired="$fired $p"
  done
  /verif/tools/wt.sh -d $s; rm -rf /tmp/bw/ev-$s
  echo "$s fired:$fired"
}
export -f one
printf '%s\n' "$@" | xargs -P ${J:-4} -I{} bash -c 'one {}'
