#!/bin/bash
# verify a seeded change: $1 = id (e.g. C05), $2 = dir with patch.diff + demo.rs, $3 = scratch worktree
# prints a one-line verdict; exit 0 iff compiles, suite green with change, demo fails with change, demo passes without
id=$1; dir=$2; wt=$3
low=$(echo $id | tr A-Z a-z)
cd $wt || exit 2
git checkout -q -- . ; git clean -qfd
mkdir -p tests
if ! git apply --check $dir/patch.diff 2>/dev/null; then echo "$id: patch does not apply"; exit 1; fi
git apply $dir/patch.diff
suite=$(CARGO_NET_OFFLINE=true cargo test --workspace --no-fail-fast --offline 2>&1 | grep -E "^test result" | head -1)
cp $dir/demo.rs tests/seed_$low.rs
with=$(CARGO_NET_OFFLINE=true cargo test --offline --test seed_$low 2>&1 | grep -E "^test result|error(\[|:)" | head -1)
git apply -R $dir/patch.diff
without=$(CARGO_NET_OFFLINE=true cargo test --offline --test seed_$low 2>&1 | grep -E "^test result|error(\[|:)" | head -1)
git checkout -q -- . ; git clean -qfd
ok=1
echo "$suite" | grep -q "ok. 91 passed; 0 failed" || ok=0
echo "$with" | grep -q "FAILED" || ok=0
echo "$without" | grep -q "test result: ok" || ok=0
echo "$id: ok=$ok | suite: $suite | demo with change: $with | demo without: $without"
[ $ok = 1 ]
