#!/bin/bash
# verify every seeded change against /repo's HEAD (4 scratch worktrees in parallel); writes seeded/<id>/verify.txt
# usage: verify_all_seeds.sh [suffix-regex]   e.g.  '-b$'
re=${1:-'-[a-z]$'}
W=/tmp/mtsa-verify
mkdir -p $W
ls /verif/seeded | grep -E "^C[0-9]+$re" > $W/list
run() {
  id=$1; slot=$2
  wt=$W/wt$slot
  [ -d $wt ] || git -C /repo worktree add -q --detach $wt HEAD
  git -C $wt checkout -q --detach $(git -C /repo rev-parse HEAD) 2>/dev/null
  p=${id%%-*}
  CARGO_TARGET_DIR=$W/target$slot /verif/tools/verify_seed.sh $p /verif/seeded/$id $wt > /verif/seeded/$id/verify.txt 2>&1
  cut -c1-40 /verif/seeded/$id/verify.txt | sed "s/^/$id /"
}
export -f run; export W
nl -w1 -s' ' $W/list | while read n id; do echo "$id $((n % 4))"; done > $W/jobs
for s in 0 1 2 3; do
  ( grep " $s\$" $W/jobs | while read id slot; do run $id $slot; done ) &
done
wait
for s in 0 1 2 3; do git -C /repo worktree remove --force $W/wt$s 2>/dev/null; done
git -C /repo worktree prune
# benign refactorings: the suite must pass with each
git -C /repo worktree add -q --detach $W/wtb HEAD
for d in $(ls /verif/seeded | grep '^benign-'); do
  git -C $W/wtb checkout -q -- . ; git -C $W/wtb clean -qfd
  if git -C $W/wtb apply /verif/seeded/$d/patch.diff 2>/dev/null; then
    r=$(cd $W/wtb && CARGO_TARGET_DIR=$W/target0 cargo test --workspace --no-fail-fast --offline 2>&1 | grep -E "^test result" | head -1)
  else r="patch does not apply"; fi
  echo "$d: $r" | tee /verif/seeded/$d/verify.txt
done
git -C /repo worktree remove --force $W/wtb; git -C /repo worktree prune
rm -rf $W
