#!/bin/bash
# process_seed.sh <prop> <suffix> <srcdir> <worktree>: copy into seeded/<prop>-<suffix>, verify, run own-property check
p=$1; suf=$2; src=$3; wt=$4
d=/verif/seeded/$p-$suf
mkdir -p $d; cp $src/patch.diff $src/demo.rs $d/; cp $src/notes.md $d/ 2>/dev/null
/verif/tools/verify_seed.sh $p $d $wt > $d/verify.txt 2>&1
cat $d/verify.txt | cut -c1-60
/verif/tools/seed_matrix.sh $p-$suf $p 2>&1 | tail -4 | cut -c1-330
