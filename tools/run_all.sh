#!/bin/bash
# run every registered check (quick tier) and summarise
cd "$(dirname "$0")/.."
rc=0
for p in $(python3 -c "import sys; sys.path.insert(0,'.'); from mtsa import props; print(' '.join(sorted(props.REGISTRY)))"); do
  out=$(timeout 900 ./check $p --tier ${1:-quick} 2>&1); r=$?
  echo "$out" | tail -1
  if [ $r -ne 0 ]; then rc=1; echo "$out" | grep -A1 "^VIOLATION" | grep -v "^VIOLATION\|^--" | cut -c1-300 | head -8; fi
done
exit $rc
