#!/usr/bin/env python3
"""print the prompt for a seeding sub-agent:  mkprompt.py breaking C07 <wt> <sd> [extra-file]  |  mkprompt.py benign R61 <wt> <sd> <area-file>
(the prompt contains the property text only - nothing from /verif)"""
import json, os, sys
V = os.path.dirname(os.path.dirname(os.path.abspath(__file__)))
kind, ident, wt, sd = sys.argv[1:5]
extra = open(sys.argv[5]).read() if len(sys.argv) > 5 else ''
t = open(os.path.join(V, 'tools', 'prompts', kind + '.txt')).read()
rep = {'@WT@': wt, '@SD@': sd, '@ID@': ident, '@LOW@': ident.lower(), '@EXTRA@': '', '@AREA@': ''}
if kind == 'breaking':
    for l in open(os.path.join(V, 'properties.jsonl')):
        p = json.loads(l)
        if p['id'] == ident:
            rep.update({'@TITLE@': p.get('title', ''), '@STATEMENT@': p.get('statement', ''), '@QUANT@': (p.get('quantifier') or {}).get('text', '')})
    rep['@EXTRA@'] = extra
else:
    rep['@AREA@'] = extra.strip()
for k, v in rep.items():
    t = t.replace(k, v)
print(t)
