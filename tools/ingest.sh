#!/bin/bash
# ingest.sh <seed dir> <worktree dir> <id> [suffix]: copy an agent's result into seeded/ and remove its scratch worktree
# breaking seeds: id CNN -> seeded/CNN-<suffix>; benign: id RNN -> seeded/benign-RNN
sd=$1; wt=$2; id=$3; suf=${4:-d}
case $id in R*) dst=/verif/seeded/benign-$id;; *) dst=/verif/seeded/$id-$suf;; esac
mkdir -p $dst
for f in patch.diff notes.md demo.rs; do [ -f $sd/$id/$f ] && cp $sd/$id/$f $dst/; done
git -C /repo worktree remove --force $wt/$id 2>/dev/null; git -C /repo worktree prune
echo "$dst: $(ls $dst | tr '\n' ' ') ($(grep -c '^[+-][^+-]' $dst/patch.diff) changed lines)"
