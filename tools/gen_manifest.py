#!/usr/bin/env python3
"""Regenerate MANIFEST.json from mtsa/props.py (the registry of claimed properties)."""
import json
import os
import sys

HERE = os.path.dirname(os.path.dirname(os.path.abspath(__file__)))
sys.path.insert(0, HERE)
from mtsa import props  # noqa

ALL = ['C%02d' % i for i in range(1, 21)]
NOTE = ('Assumes %s (DESIGN.md section 4). Trusted: rustc front end / MIR / const evaluation (nightly 1.97), the library summaries '
        'listed in the evidence trusted_base, the mtsa interpreter and rule code. %s')

m = {
    'version': 1,
    'setup_cmd': 'cd /verif/driver && CARGO_NET_OFFLINE=true cargo build --release --offline',
    'hooks': {
        'guard': 'memterm_verif',
        'enable': 'none needed: the checks read the unmodified source through a rustc_private driver (RUSTC_WORKSPACE_WRAPPER under cargo +nightly check); no hook commits exist',
        'baseline_off_cmd': 'cd /repo && cargo test --workspace --no-fail-fast --offline',
        'source_commits': [],
        'add_only': True,
    },
    'engines': [
        {'name': 'E0 mtfacts', 'path': 'driver/', 'serves_properties': sorted(props.REGISTRY),
         'kind_free_text': "rustc_private driver: dumps MIR with resolved callees and rustc-evaluated constants of /repo's current tree"},
        {'name': 'E1-E7 mtsa', 'path': 'mtsa/', 'serves_properties': sorted(props.REGISTRY),
         'kind_free_text': 'Python: program model, may-write effects, zone-domain abstract interpreter over MIR with library summaries, '
                           'structural CFG rules, table/dispatch/automaton extraction, piecewise-linear term equivalence'},
    ],
    'checks': [],
    'not_applicable': [],
    'notes': 'Static analysis family only (DESIGN.md). Every check decides named structural clauses of its property (listed in level_claimed.text) '
             'and says which clauses it does not decide (level_note).',
}
for pid in ALL:
    spec = props.REGISTRY.get(pid)
    if spec is None:
        m['not_applicable'].append({'property_id': pid, 'reason': props.PENDING.get(pid, 'check under construction in this session; not claimed until registered (plan: DESIGN.md section 6)')})
        continue
    m['checks'].append({
        'property_id': pid,
        'quick_cmd': './check %s --tier quick' % pid,
        'thorough_cmd': './check %s --tier thorough' % pid,
        'evidence_file': 'evidence/%s.json' % pid,
        'replay_cmd_template': './check %s --explain {path}' % pid,
        'engine': spec.get('engine', 'E0+E1+E3+E4'),
        'level_claimed': {
            'category': 'other',
            'text': spec['level_text'],
            'design_ref': 'DESIGN.md section 6 %s, sections 3-5' % pid,
        },
        'level_note': NOTE % (spec.get('assumes', 'A-DIM, A-ARG, A-LIB, A-PUB, A-TOOL'), spec.get('not_decided', '')),
        'technique': spec['technique'],
    })
json.dump(m, open(os.path.join(HERE, 'MANIFEST.json'), 'w'), indent=1)
print('MANIFEST.json: %d checks, %d not applicable' % (len(m['checks']), len(m['not_applicable'])))
