#!/bin/bash
# chk.sh <seed> <props...>: run checks against the scratch worktree of a seed (created if missing)
s=$1; shift
[ -d /tmp/bw/$s ] || /verif/tools/wt.sh $s >/dev/null
for p in "$@"; do (cd /verif && MTSA_REPO=/tmp/bw/$s MTSA_EVIDENCE_DIR=/tmp/bw/ev-$s timeout 900 ./check $p 2>&1 | grep -v "^VIOLATION" | cut -c1-${W:-500} | tail -${N:-12}); done
