#!/usr/bin/env python3
"""Run every registered check (quick tier) against seeded changes, each applied in a scratch worktree
(MTSA_REPO), in parallel.  usage: matrix.py [--props C01,C02] <seed dir names...>   (default: all of seeded/)
Writes seeded/matrix.json: {seed: {fired: [...], lines: {prop: first violation lines}}}; removes the worktrees."""
import json
import os
import shutil
import subprocess
import sys
from concurrent.futures import ThreadPoolExecutor

V = os.path.dirname(os.path.dirname(os.path.abspath(__file__)))
sys.path.insert(0, V)
from mtsa import props  # noqa: E402

WT = '/tmp/mtsa-matrix'


def sh(cmd, **kw):
    return subprocess.run(cmd, shell=True, stdout=subprocess.PIPE, stderr=subprocess.STDOUT, text=True, **kw)


def prepare(seed):
    wt = os.path.join(WT, seed)
    sh('git -C /repo worktree remove --force %s' % wt)
    r = sh('git -C /repo worktree add -q --detach %s HEAD' % wt)
    if r.returncode:
        return None, r.stdout
    r = sh('git -C %s apply %s/seeded/%s/patch.diff' % (wt, V, seed))
    if r.returncode:
        return None, 'patch does not apply: ' + r.stdout
    # fact extraction once, serially (shared cargo target dir)
    env = dict(os.environ, MTSA_REPO=wt, MTSA_EVIDENCE_DIR=os.path.join(WT, 'ev-' + seed), MTSA_KEEP_FACTS='400')
    r = sh('cd %s && timeout 900 python3 -c "import sys; sys.path.insert(0, \'.\'); from mtsa import facts; facts.extract(\'ship\'); facts.extract(\'test\')"' % V, env=env)
    if r.returncode:
        return wt, 'extraction failed: ' + r.stdout[-600:]
    return wt, None


def run_one(arg):
    seed, wt, p = arg
    env = dict(os.environ, MTSA_REPO=wt, MTSA_EVIDENCE_DIR=os.path.join(WT, 'ev-' + seed), MTSA_KEEP_FACTS='400')
    r = sh('cd %s && timeout 1200 ./check %s --tier quick' % (V, p), env=env)
    lines = []
    if r.returncode:
        out = r.stdout.splitlines()
        for i, l in enumerate(out):
            if l.startswith('VIOLATION'):
                lines.append((out[i + 1].strip() if i + 1 < len(out) else '')[:300])
        if not lines:
            lines = ['exit %d: %s' % (r.returncode, r.stdout[-300:])]
    return seed, p, r.returncode, lines


def main():
    args = sys.argv[1:]
    plist = sorted(props.REGISTRY)
    if args and args[0] == '--props':
        plist = args[1].split(',')
        args = args[2:]
    seeds = args or sorted(d for d in os.listdir(os.path.join(V, 'seeded')) if os.path.exists(os.path.join(V, 'seeded', d, 'patch.diff')))
    os.makedirs(WT, exist_ok=True)
    jobs = []
    res = {}
    for s in seeds:
        wt, err = prepare(s)
        if err:
            res[s] = {'error': err}
            print('SEED %s: %s' % (s, err))
            continue
        for p in plist:
            jobs.append((s, wt, p))
    with ThreadPoolExecutor(max_workers=14) as ex:
        for seed, p, rc, lines in ex.map(run_one, jobs):
            d = res.setdefault(seed, {'fired': [], 'lines': {}})
            if rc:
                d['fired'].append(p)
                d['lines'][p] = lines[:6]
    for s in seeds:
        d = res.get(s, {})
        if 'error' in d:
            continue
        print('SEED %s fired: %s' % (s, ' '.join(d['fired'])))
        for p, ls in d['lines'].items():
            for l in ls[:3]:
                print('   [%s] %s' % (p, l[:240]))
        sh('git -C /repo worktree remove --force %s' % os.path.join(WT, s))
    sh('git -C /repo worktree prune')
    shutil.rmtree(WT, ignore_errors=True)
    mp = os.path.join(V, 'seeded', 'matrix.json')
    old = {}
    if os.path.exists(mp):
        old = json.load(open(mp))
    if plist == sorted(props.REGISTRY):
        old.update(res)
        json.dump(old, open(mp, 'w'), indent=1, sort_keys=True)


if __name__ == '__main__':
    main()
