"""C09: screen state is always well-formed (R-INV by induction, display length, colour provenance)."""
from . import inv
from .model import short
from .rules_c01 import ob_construct_keys
from .rules_common import LP, each_final, ep, get
from .values import CollV, NumV, OpaqueV, StrV, StructV

COLOUR_TABLES = ('FG_ANSI', 'BG_ANSI', 'FG_AIXTERM', 'BG_AIXTERM')


def run(ctx, chk):
    chk.assume('A-DIM', 'A-ARG', 'A-PUB', 'A-LIB', 'A-TOOL')
    sr = ctx.screen_run()
    eng = sr['engine']
    prog = ctx.prog
    # ---- D1 R-INV at the exit of every mutator (and established by new) ------------
    n = 0
    for f, rs in sorted(sr['results'].items()):
        body = prog.bodies[f]
        mutator = body.arg_count >= 1 and body.locals[1]['ty'] in ('&mut screen::Screen', '&mut Self')
        is_new = f.endswith('Screen::new')
        if not (mutator or is_new):
            continue
        per_clause = {}
        for r in rs:
            for (st, ret) in r.finals:
                if is_new:
                    # the returned Screen value
                    if isinstance(ret, StructV):
                        st = st.fork()
                        st.store[inv.S_ROOT] = ret
                    else:
                        per_clause.setdefault('returned-screen', []).append((r.label, 'returned value not a Screen struct: %r' % (ret,)))
                        continue
                for (c, ok, facts) in inv.check_inv(eng, st):
                    d = per_clause.setdefault(c, [])
                    if not ok:
                        d.append((r.label, facts))
        for c in inv.CLAUSES:
            bad = per_clause.get(c, [])
            n += 1
            chk.instance('R-INV', short(f), 'exit:' + c, not bad,
                         detail=('%d of the exit states violate it, e.g. [%s] %s' % (len(bad), bad[0][0], bad[0][1])) if bad else 'holds in every exit state',
                         span=body.span, what='invariant %s is not re-established at exit' % c)
    chk.floor('R-INV exit instances', n, 200)
    keys = ob_construct_keys(eng.oblig.values())
    for ob in sorted(eng.oblig.values(), key=lambda o: (o.func, o.bb, o.desc)):
        if ob.kind in ('loopinv', 'callinv'):
            f = next((x for x in ob.fails if x), None)
            chk.instance('R-INV', short(ob.func), keys[ob.key], ob.discharged, detail=(f or {}).get('facts', '') + ((' | entry ' + f['entry']) if f else ''),
                         span=ob.span, what='invariant not maintained: %s' % ob.desc)

    # ---- D2 display() returns exactly `lines` strings --------------------------------
    disp = ep('display')
    dres = display_length(ctx, eng, disp)
    # accepted alternative idiom: the returned vector is collected element-wise from 0..lines, so its
    # length is `lines` in every exit state (decided on the abstract value, not on the code shape)
    fin = [(st, ret) for r in sr['results'].get(disp, []) for (st, ret) in r.finals]
    sem = bool(fin)
    for (st, ret) in fin:
        ln = ret.length if isinstance(ret, CollV) and ret.kind == 'vec' else None
        lines = get(eng, st, 'lines')
        if not (isinstance(ln, NumV) and isinstance(lines, NumV) and eng.prove_cmp(st, 'eq', ln, NumV(lines.sym, lines.k, ln.ty)) is True):
            sem = False
    if sem:
        dres = [(name, True, 'returned vector has length `lines` in all %d exit states (element-wise collect over 0..lines)' % len(fin), span) if not ok else (name, ok, detail, span)
                for (name, ok, detail, span) in dres]
    for (name, ok, detail, span) in dres:
        chk.instance('R-LEN', short(disp), name, ok, detail=detail, span=span, what='display() is not shown to return exactly `lines` rows: ' + detail)
    chk.floor('display length clauses', len(dres), 3)

    # ---- D3 I8: provenance of every fg / bg string -----------------------------------
    sites = {}
    for e in sr['events']:
        ev = e['ev']
        if ev[0] == 'map.insert' and isinstance(ev[2], StrV) and ev[2].known in ('fg', 'bg'):
            ok, why = colour_ok(eng, e['st'], ev[3])
            k = (short(e['func']), 'insert:%s@%s' % (ev[2].known, site_ord(prog, e)))
            a = sites.setdefault(k, dict(ok=True, why=why, span=e['span'], n=0, kind=ev[2].known))
            a['n'] += 1
            if not ok and a['ok']:
                a['ok'] = False
                a['why'] = why
    # .. and every value written into a colour field of a rendition directly (`attr.fg = ..`, `CharOpts { fg, .. }`),
    # whichever value it is part of (the cursor rendition, a working copy, a cell)
    for e in sr['events']:
        ev = e['ev']
        if ev[0] == 'colour.store' and isinstance(ev[2], StrV):
            ok, why = colour_ok(eng, e['st'], ev[2])
            k = (short(e['func']), 'field:%s@line-ordinal %s' % (ev[1], field_store_ord(prog, e)))
            a = sites.setdefault(k, dict(ok=True, why=why, span=e['span'], n=0, kind=ev[1]))
            a['n'] += 1
            if not ok and a['ok']:
                a['ok'] = False
                a['why'] = why
    for (f, c), a in sorted(sites.items()):
        chk.instance('R-COLOUR', f, c, a['ok'], detail='%s (%d visits)' % (a['why'], a['n']), span=a['span'],
                     what='a %s value that is neither a documented colour name nor a 6-digit hex string can be stored: %s' % (a['kind'], a['why']))
    # vacuity guard on what was examined, not on how many source sites store it (a shared helper
    # turns eight sites into one): both kinds, and at least the eight documented forms (ANSI, AIXTERM,
    # 256-colour, 24-bit; fg and bg) as abstract visits
    chk.floor('colour kinds examined (fg, bg)', len({a['kind'] for a in sites.values()}), 2)
    chk.floor('colour stores examined (abstract visits)', sum(a['n'] for a in sites.values()), 8)

    # ---- D4 I4: every dirty-row index is < lines ------------------------------------------
    dsites = {}
    deps = set()
    for e in sr['events']:
        ev = e['ev']
        if ev[0] in ('set.insert', 'set.extend') and ev[1] == ('S', 'dirty'):
            st = e['st']
            lines = get(eng, st, 'lines')
            ok = False
            why = ''
            if ev[0] == 'set.insert':
                v = ev[2]
                if isinstance(v, NumV) and isinstance(lines, NumV):
                    ok = eng.prove_cmp(st, 'lt', v, lines) is True
                    why = 'inserted row %r, bounds %s; lines %r' % (v, eng.bounds(st, v), lines)
            else:
                d = ev[2]
                if isinstance(d, tuple) and d[0] == 'range' and isinstance(d[2], NumV) and isinstance(lines, NumV):
                    hi = d[2]
                    incl = bool(d[3])
                    ok = eng.prove_cmp(st, 'lt' if incl else 'le', hi, lines) is True
                    # the range may legitimately be measured against the size being installed (resize)
                    if not ok:
                        newl = st.vn.get(('entry-arg', 0))
                        from .rules_common import opt_payload
                        p = opt_payload(newl)
                        if e['ep'].endswith('Screen::resize') and isinstance(p, NumV) and eng.prove_le(st, hi, p) is True:
                            ok = 'pending-lines'
                    why = 'extended with range ..%r%s; lines %r' % (hi, '=' if incl else '', lines)
                else:
                    why = 'extended with %r' % (d,)
            k = (short(e['func']), '%s@%s' % (ev[0], site_ord(prog, e)))
            a = dsites.setdefault(k, dict(ok=True, why=why, span=e['span'], n=0))
            a['n'] += 1
            deps.add((e['ep'] or '').split('::')[-1])
            if not ok and a['ok']:
                a['ok'] = False
                a['why'] = why + ' | entry ' + str(e['entry'])
    # a whole-set replacement: what is installed must be rows of the screen as well
    from . import rules_grid as g_
    for f_, rs_ in sorted(sr['results'].items()):
        for r_ in rs_:
            for (st, ret) in r_.finals:
                for ev in st.event_list():
                    if ev[0] == 'w' and ev[1] == ('dirty',):
                        v_ = ev[2]
                        lines = get(eng, st, 'lines')
                        cr = g_.collected_range(v_)
                        ok = (isinstance(v_, CollV) and v_.known == ()) or \
                            (cr is not None and not cr[3] and isinstance(lines, NumV) and eng.prove_cmp(st, 'lt' if cr[2] else 'le', cr[1], lines) is True)
                        deps.add(f_.split('::')[-1])
                        k = (short(f_), 'dirty set replaced')
                        a = dsites.setdefault(k, dict(ok=True, why='replaced by a collected range of rows of the final screen', span=prog.bodies[f_].span, n=0))
                        a['n'] += 1
                        if not ok and a['ok']:
                            a['ok'] = False
                            a['why'] = 'replaced by %r; lines %r | %s' % (v_, lines, r_.label)
    for (f, c), a in sorted(dsites.items()):
        chk.instance('R-DIRTYBOUND', f, c, a['ok'], detail='%s (%d visits)' % (a['why'], a['n']), span=a['span'],
                     what='a dirty-row index that is not a row of the screen can be recorded: ' + a['why'])
    # vacuity guard by operation, not by source site (helpers such as `mark_dirty` turn many sites into one): a mark was
    # examined while analysing each of the operations that change what rows show
    chk.floor('dirty insert sites', len(dsites), 1)
    chk.cover('dirty marks examined', deps, ['draw', 'index', 'reverse_index', 'insert_lines', 'delete_lines', 'insert_characters', 'delete_characters',
                                             'erase_characters', 'erase_in_line', 'erase_in_display', 'alignment_display', 'reset'])
    # lowering `lines` must prune the dirty set: on every exit path that assigns `lines` and is not shown
    # to grow it, the dirty set is cleared, and whatever is marked between that clear and the assignment
    # (own statements or a callee that may write `dirty`) is bounded by the value being installed
    for f, rs in sorted(sr['results'].items()):
        if ('lines',) not in ctx.eff.direct_all(f):
            continue
        bad = []
        total = 0
        for r in rs:
            for (st, ret) in r.finals:
                evs = st.event_list()
                wl = [i for i, ev in enumerate(evs) if ev[0] == 'w' and ev[1] and ev[1][0] == 'lines']
                if not wl:
                    continue
                total += 1
                newv = evs[wl[-1]][2]
                old = st.vn.get(('entry', 'lines'))
                if isinstance(newv, NumV) and isinstance(old, NumV) and eng.prove_le(st, old, newv) is True:
                    continue
                # (replacing the whole set - `dirty = (0..n).collect()` - empties it as well; what it then
                # holds is checked below like an extend)
                cl = [i for i, ev in enumerate(evs) if (ev[0] == 'coll.clear' and ev[1] == ('S', 'dirty')) or (ev[0] == 'w' and ev[1] == ('dirty',))]
                if not cl:
                    bad.append((r.label, 'no clear of the dirty set on the path'))
                    continue
                why = None
                if evs[cl[-1]][0] == 'w' and cl[-1] < wl[-1]:
                    from . import rules_grid as g_
                    cr = g_.collected_range(evs[cl[-1]][2])
                    v_ = evs[cl[-1]][2]
                    empty = isinstance(v_, CollV) and v_.known == ()
                    if not empty and not (cr is not None and not cr[3] and isinstance(newv, NumV) and eng.prove_cmp(st, 'lt' if cr[2] else 'le', cr[1], newv) is True):
                        why = 'the set installed before the assignment (%r) is not bounded by the new `lines`' % (v_,)
                for ev in evs[cl[-1] + 1:wl[-1]]:
                    if ev[0] == 'listener' and ('dirty',) in ctx.eff.maywrite.get(ev[1], set()):
                        why = 'after the last clear, %s (line %s) may mark rows measured against the old `lines`' % (short(ev[1]), ev[3])
                    elif ev[0] == 'set.insert' and ev[1] == ('S', 'dirty'):
                        if not (isinstance(ev[2], NumV) and isinstance(newv, NumV) and eng.prove_cmp(st, 'lt', ev[2], newv) is True):
                            why = 'row %r inserted after the last clear is not bounded by the new `lines`' % (ev[2],)
                    elif ev[0] == 'set.extend' and ev[1] == ('S', 'dirty'):
                        d = ev[2]
                        okx = isinstance(d, tuple) and d[0] == 'range' and isinstance(d[2], NumV) and isinstance(newv, NumV) \
                            and eng.prove_cmp(st, 'lt' if d[3] else 'le', d[2], newv) is True
                        if not okx:
                            why = 'rows %r marked after the last clear are not bounded by the new `lines`' % (d,)
                    if why:
                        break
                if why:
                    bad.append((r.label, why))
        chk.instance('R-DIRTYBOUND', short(f), 'prune-on-shrink', not bad,
                     detail=('%d of %d exit paths that assign `lines` can keep a stale dirty row, e.g. [%s] %s' % (len(bad), total, bad[0][0], bad[0][1])) if bad
                     else '%d exit paths assign `lines`; each grows it, or clears the dirty set and marks only rows below the new `lines` before the assignment' % total,
                     span=prog.bodies[f].span, what='`lines` can shrink while stale dirty-row indices are kept')
    chk.trust('summaries of HashMap/HashSet/Vec/Option/iterators (mtsa/summaries.py)', 'rustc MIR + const evaluation')


def site_ord(prog, e):
    """ordinal of the call site among the calls of the same callee in the function (source order)"""
    body = prog.bodies[e['func']]
    t = body.blocks[e['bb']]['term']
    name = (t['func'].get('fn') or {}).get('path', '?') if t['k'] == 'call' else '?'
    sites = []
    for bi, tt in prog.calls(body):
        if (tt['func'].get('fn') or {}).get('path') == name:
            sites.append((tt['span']['line'], tt['span']['col'], bi))
    sites.sort()
    for i, sx in enumerate(sites):
        if sx[2] == e['bb']:
            return '%s#%d' % (name.split('::')[-1], i)
    return name.split('::')[-1]


def colour_text_ok(t):
    """a documented colour name or a 6-digit lower-case hexadecimal colour"""
    return isinstance(t, str) and (t == 'default' or (len(t) == 6 and all(c in '0123456789abcdef' for c in t)) or (t.isalpha() and t.islower()))


_PALETTE = {}


def palette_ok(eng):
    """every entry of the 256-colour palette is a 6-digit hexadecimal colour (read from the evaluated table)"""
    key = id(eng.prog)
    if key not in _PALETTE:
        from .tables import static_value
        from . import fmtspec
        try:
            pal = static_value(eng, 'graphics::FG_BG_256')
        except Exception:
            pal = None
        bad = None
        if not (isinstance(pal, CollV) and pal.known is not None and len(pal.known) == 256):
            bad = 'the palette could not be read as 256 entries'
        else:
            for i, e in enumerate(pal.known):
                got = e.known if isinstance(e, StrV) else None
                pv = e.prov if isinstance(e, StrV) else None
                if got is None and isinstance(pv, tuple) and pv and pv[0] == 'format' and len(pv) > 2:
                    # built by format!: rendered from the decoded template and the constant components
                    vals = tuple((it[1].k if isinstance(it, tuple) and len(it) > 1 and isinstance(it[1], NumV) and it[1].sym is None else None) for it in pv[2])
                    if all(v_ is not None for v_ in vals):
                        got = fmtspec.render_hex(fmtspec.decode(pv[1]), tuple((it[0], v_) for it, v_ in zip(pv[2], vals)))
                if not (isinstance(got, str) and len(got) == 6 and all(c in '0123456789abcdef' for c in got)):
                    bad = 'palette entry %d is %r' % (i, got)
                    break
        _PALETTE[key] = bad
    return _PALETTE[key]


def colour_ok(eng, st, v):
    if not isinstance(v, StrV):
        return False, 'not a string: %r' % (v,)
    if v.known is not None:
        return colour_text_ok(v.known), 'literal %r' % v.known
    p = v.prov
    if isinstance(p, tuple) and p:
        if p[0] == 'either':
            # one of several values (outcomes of a helper joined by the engine): every one must be a colour
            for alt in p[1]:
                ok_, why_ = colour_ok(eng, st, alt)
                if not ok_:
                    return False, 'one of the possible values: ' + why_
            return bool(p[1]), 'each of the %d possible values is a colour' % len(p[1])
        if p[0] == 'table-value' and p[1] in COLOUR_TABLES:
            # decided on the members of the evaluated table, not on its name
            wrong = [t for t in (p[2] if len(p) > 2 else ()) if not colour_text_ok(t)]
            return (len(p) > 2 and bool(p[2]) and not wrong), ('value of table %s' % p[1]) + ((': member %r is not a colour' % wrong[0]) if wrong else '')
        if p[0] == 'vec-elem' and isinstance(p[1], tuple) and 'FG_BG_256' in str(p[1]):
            bad = palette_ok(eng)
            return bad is None, 'entry of FG_BG_256' + ((': ' + bad) if bad else ' (all 256 entries are 6-digit hex)')
        if p[0] == 'format':
            from . import fmtspec
            tmpl = p[1] if len(p) > 1 else None
            items = p[2] if len(p) > 2 else ()
            bounds = []
            for i in items:
                if isinstance(i, tuple) and len(i) > 1 and isinstance(i[1], NumV):
                    lo, hi = eng.bounds(st, i[1])
                    bounds.append((i[0], None if lo in (float('-inf'),) else lo, None if hi in (float('inf'),) else hi))
                else:
                    bounds.append((i[0] if isinstance(i, tuple) and i else '?', None, None))
            okf, whyf = fmtspec.hex_digits_exact(fmtspec.decode(tmpl), bounds)
            return okf, ('hex formatter: ' + whyf)
        if p[0] == 'inv':
            return True, 'copy of a stored colour (invariant I8)'
        if p[0] == 'map-value-const' and len(p) > 1:
            if p[1] in ('fg', 'bg'):
                return True, 'the text a rendition map holds under %r (every insert under that key is checked)' % p[1]
            return False, 'text of a map entry whose key is %r' % (p[1],)
        if p[0] == 'map-value' and len(p) > 1:
            # taken out of a String -> String map while iterating it, on a path where the key in hand is known
            key = st.vn.get(('strval', p[1]))
            if key in ('fg', 'bg'):
                return True, 'the text a rendition map holds under %r (every insert under that key is checked)' % key
            return False, 'text of a map entry whose key is %r' % (key,)
    return False, 'provenance %r' % (p,)


def field_store_ord(prog, e):
    """ordinal (source order) of the line of a colour-field store among the lines of its function (stable under edits elsewhere)"""
    body = prog.bodies.get(e['func'])
    line = (e.get('span') or {}).get('line')
    if body is None or line is None:
        return '?'
    lines = set()
    for bb in body.blocks:
        for s_ in bb['stmts']:
            if s_['k'] == 'assign':
                pr = s_['place']['proj']
                if (pr and pr[-1]['k'] == 'field' and pr[-1].get('name') in ('fg', 'bg')) or (s_['rv'].get('k') == 'aggregate' and s_['rv'].get('adt') == 'screen::CharOpts'):
                    if (s_.get('span') or {}).get('line') is not None:
                        lines.add(s_['span']['line'])
    ls = sorted(lines)
    return '#%d' % ls.index(line) if line in ls else '?'


def display_length(ctx, eng, disp):
    """structural: the returned Vec is created empty, pushed exactly once per iteration of a loop
    over 0..lines, and returned"""
    prog = ctx.prog
    body = prog.bodies.get(disp)
    out = []
    if body is None:
        return [('display-exists', False, 'no display() body', None)]
    ret_local_ty = body.locals[0]['ty']
    out.append(('returns-vec-of-string', ret_local_ty == 'std::vec::Vec<std::string::String>', 'return type %s' % ret_local_ty, body.span))
    # pushes on the returned vector
    pushes = []
    news = []
    for bi, t in prog.calls(body):
        name = (t['func'].get('fn') or {}).get('path', '')
        if name.endswith('Vec::<T, A>::push') and 'Vec<std::string::String>' in t['args'][0]['place']['ty']:
            pushes.append(bi)
        if (name.endswith('Vec::<T>::new') or name.endswith('Vec::<T>::with_capacity') or name.endswith(' as std::default::Default>::default')
                or name == 'std::default::Default::default') and t['dest']['ty'] == 'std::vec::Vec<std::string::String>':
            news.append(bi)
    loops, back, idom, preds = body.loops()
    ok_new = len(news) == 1 and not any(news[0] in blks for blks in loops.values())
    out.append(('result-created-empty-once', ok_new, '%d creation(s) of an empty vector of the result type (new / with_capacity / default), outside loops' % len(news), body.span))
    ok_push = False
    detail = '%d push sites' % len(pushes)
    if len(pushes) == 1:
        p = pushes[0]
        inl = [h for h, blks in loops.items() if p in blks]
        if len(inl) == 1:
            h = inl[0]
            ht = body.blocks[h]['term']
            hname = (ht['func'].get('fn') or {}).get('path', '') if ht['k'] == 'call' else ''
            # the push block must dominate every back edge source of the loop and lie on every iteration
            srcs = [s for (s, hh) in back if hh == h]
            dom = all(body.dominates(p, s) for s in srcs)
            rng_ok, rng = loop_range_sem(ctx, eng, disp, h)
            ok_push = dom and rng_ok
            detail = 'one push, inside one loop (head bb%d), dominating the back edge: %s; loop range %s' % (h, dom, rng)
        else:
            detail = 'push is inside %d loops' % len(inl)
    out.append(('one-push-per-row-of-0..lines', ok_push, detail, body.blocks[pushes[0]]['term']['span'] if pushes else body.span))
    return out


def loop_range_sem(ctx, eng, func, head):
    """does the loop at `head` of func walk exactly the rows 0..lines, one iteration each, without a way
    out before the last one?  Decided on the range the engine recorded when it entered the loop (a
    `for` over a range, or a counting `while`), on every abstract path through func"""
    from . import rules_grid as g
    sr = ctx.screen_run()
    body = ctx.prog.bodies[func]
    if not g.loop_exits_only_at_head(body, head, eng, func):
        return False, 'the loop can be left before the last row'
    n = 0
    shown = None
    for r in sr['results'].get(func, []):
        for (st, ret) in r.finals:
            d = g.loop_desc_in(st.event_list(), func, head)
            if d is None:
                return False, 'a path through display() does not iterate a range at this loop'
            if d[0] != 'range' or not g.elementwise(d[4]) or not (isinstance(d[1], NumV) and isinstance(d[2], NumV)):
                return False, 'iterates %r' % (d[:1] + tuple(d[3:]),)
            lines = get(eng, st, 'lines')
            hi = NumV(d[2].sym, d[2].k + 1, d[2].ty) if d[3] else d[2]
            lo_ok = eng.prove_cmp(st, 'eq', d[1], NumV(None, 0, d[1].ty)) is True
            hi_ok = isinstance(lines, NumV) and eng.prove_cmp(st, 'eq', hi, NumV(lines.sym, lines.k, hi.ty)) is True
            shown = '%s..%s' % (g.term(eng, st, d[1]), g.term(eng, st, hi))
            if not (lo_ok and hi_ok):
                return False, shown + ' (documented 0..lines)'
            n += 1
    return n > 0, '%s on %d abstract paths' % (shown, n)


def loop_range(ctx, eng, func, head):
    """(lo, hi) description of the Range the loop at `head` iterates, from the E4 events/arrivals:
    decided syntactically on the MIR: the iterator local is built from Range{start, end}"""
    prog = ctx.prog
    body = prog.bodies[func]
    ht = body.blocks[head]['term']
    # receiver: &mut iter_local
    a = ht['args'][0]
    if a['k'] not in ('copy', 'move'):
        return None
    # follow moves back to the Range aggregate
    def def_of(local):
        for bb in body.blocks:
            for s in bb['stmts']:
                if s['k'] == 'assign' and s['place']['local'] == local and not s['place']['proj']:
                    return s['rv']
            t = bb['term']
            if t['k'] == 'call' and t['dest']['local'] == local and not t['dest']['proj']:
                return ('call', t)
        return None
    cur = a['place']['local']
    for _ in range(8):
        d = def_of(cur)
        if d is None:
            return None
        if isinstance(d, tuple):
            t = d[1]
            if t['args'] and t['args'][0]['k'] in ('copy', 'move'):
                cur = t['args'][0]['place']['local']
                continue
            return None
        if d['k'] == 'ref':
            cur = d['place']['local']
            continue
        if d['k'] == 'use' and d['op']['k'] in ('copy', 'move'):
            cur = d['op']['place']['local']
            continue
        if d['k'] == 'aggregate' and d.get('adt', '').startswith('std::ops::Range'):
            lo, hi = d['ops'][0], d['ops'][1]
            def desc(o, depth=0):
                if o['k'] == 'const':
                    return str(o['value'])
                pl = o['place']
                names = [e['name'] for e in pl['proj'] if e['k'] == 'field']
                if pl['local'] == 1 and body.kind == 'closure' and names and names[0].isdigit():
                    up = body.j.get('upvars', [])
                    i = int(names[0])
                    if i < len(up):
                        return up[i]['name'].replace('*', '').replace('(', '').replace(')', '').replace('self.', '')
                if names:
                    return '.'.join(names)
                dd = def_of(pl['local'])
                if depth < 5 and dd and not isinstance(dd, tuple):
                    if dd['k'] == 'use' and dd['op']['k'] in ('copy', 'move', 'const'):
                        return desc(dd['op'], depth + 1)
                    if dd['k'] == 'ref':
                        return desc({'k': 'copy', 'place': dd['place']}, depth + 1)
                return '_%d' % pl['local']
            return (desc(lo), desc(hi))
        return None
    return None
