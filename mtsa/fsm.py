"""Engines E5 / E6: decision tables of the dispatch functions and the transition relation of
the parser coroutine, both obtained by abstract interpretation with the input partitioned over
the finite set of character classes the code (and the reference grammar) distinguishes.
No input string is executed: the interpreter is started from the generalised abstract state in
which a suspension point is reached (all data locals unknown) with the received value fixed to
one class representative, and runs to the next suspension point."""
import itertools

from . import inv, runner
from .ctx import CLOSURE
from .engine import Budget, Engine, State
from .model import short
from .values import (BoolV, CollV, EnumV, NumV, OpaqueV, RefV, StrV, StructV, UNIT, some)

LP = runner.LP


def describe_arg(eng, st, a, params_syms, private):
    """symbolic description of a listener-call argument in terms of the dispatch inputs"""
    if isinstance(a, EnumV) and a.ty.startswith('std::option::Option'):
        if a.tags == {0}:
            return 'None'
        if a.tags == {1}:
            p = a.payload[1].fields.get('0')
            return 'Some(%s)' % describe_arg(eng, st, p, params_syms, private)
        return 'Option?'
    if isinstance(a, NumV):
        for i, s in enumerate(params_syms):
            if a.sym is not None and a.sym == s and a.k == 0:
                return 'p%d' % i
        if a.sym is None:
            return str(a.k)
        return 'num?'
    if isinstance(a, BoolV):
        if a.val is not None:
            return 'true' if a.val else 'false'
        return 'bool?'
    if isinstance(a, RefV):
        v = eng.read(st, a.path)
        if isinstance(v, CollV):
            if v.known is not None:
                return '[' + ','.join(describe_arg(eng, st, x, params_syms, private) for x in v.known) + ']'
            return 'slice?'
        if isinstance(v, StrV):
            return 'str(%r)' % v.known if v.known is not None else 'str?'
        return 'ref?'
    if isinstance(a, StrV):
        return 'str(%r)' % a.known if a.known is not None else 'str?'
    return '?'


def run_dispatch(ctx, func, cmd, nparams=None, private=None, prog=None):
    """abstractly run a dispatch function with the command fixed to `cmd`; returns a set of
    outcomes: tuples of listener calls (method, (arg descriptions...))"""
    prog = prog or ctx.prog
    eng = Engine(prog, ctx.eff if prog is ctx.prog else None, config=dict(max_steps=200000, check_inv=False))
    eng.contract = lambda callee, caller: callee.startswith(LP) or (callee.startswith('parser_listener::ParserListener::') and callee != func)
    st = State()
    inv.screen_init(eng, st)
    args = [RefV((inv.S_ROOT, ()), True), StrV(cmd)]
    syms = []
    if nparams is not None:
        items = []
        for i in range(nparams):
            v = eng.fresh_num(st, 'u32', 0, eng.cfg['arg_max'], name='p%d' % i)
            syms.append(v.sym)
            items.append(v)
        root = ('H', 'params')
        st.store[root] = CollV('slice', '[u32]', 'params', length=NumV(None, nparams, 'usize'), known=tuple(items))
        args.append(RefV((root, ())))
        args.append(BoolV(private))
    eng.entry_name = '%s(%r, n=%s, private=%s)' % (short(func), cmd, nparams, private)
    outcomes = set()
    try:
        res = eng.exec_body(st, func, args)
    except Budget as e:
        return {('ERROR', str(e))}, eng
    for (s, ret) in res:
        calls = []
        for ev in s.event_list():
            if ev[0] == 'listener':
                meth = ev[1].split('::')[-1]
                calls.append((meth, tuple(describe_arg(eng, s, a, syms, private) for a in ev[2][1:])))
        outcomes.add(tuple(calls))
    return outcomes, eng


# ---------------------------------------------------------------------------
class FsmExtractor:
    def __init__(self, ctx, prog=None):
        self.ctx = ctx
        self.prog = prog or ctx.prog
        self.body = self.prog.bodies.get(CLOSURE)
        self.scope = self._scope()
        self.errors = []
        self.arrivals = {}
        self.sites = []
        self.site_yield_value = {}
        self._collect_arrivals()

    def new_engine(self, unroll):
        eng = Engine(self.prog, self.ctx.eff if self.prog is self.ctx.prog else None,
                     config=dict(max_steps=400000, check_inv=False, unroll=unroll))
        eng.contract = lambda callee, caller: callee.startswith(LP) or callee.startswith('parser_listener::ParserListener::')
        return eng

    def _collect_arrivals(self):
        """run the coroutine body from its entry (loops cut at heads); keep the state in which each
        yield site is reached"""
        prog, body = self.prog, self.body
        if body is None:
            self.errors.append('coroutine body not found')
            return
        from .ctx import yield_site_of, yield_wrappers
        ys = []
        wr = yield_wrappers(prog)
        for bi, t in prog.calls(body):
            fn = t['func'].get('fn')
            if fn and (fn.get('resolved') or fn['path']).endswith('::yield_'):
                ys.append(bi)
            elif fn and wr:
                kind_, callee_ = prog.resolve_callee(fn, bind_listener=False)
                if kind_ == 'local' and callee_ in wr:
                    ys.append(bi)
        ys.sort(key=lambda b: (body.blocks[b]['term']['span']['line'], body.blocks[b]['term']['span']['col']))
        self.sites = ys
        eng = self.new_engine(unroll=False)
        st = State()
        inv.screen_init(eng, st)

        def hook(kind, st_, fr, bi, *a):
            ys_ = yield_site_of(fr, bi) if kind == 'yield' else None
            if ys_ is not None:
                callee, args, t = a
                cfr, cbi = ys_
                lst = self.arrivals.setdefault(cbi, [])
                yv = args[1] if len(args) > 1 else None
                self.site_yield_value.setdefault(cbi, set()).add(self._yield_desc(yv))
                if len(lst) < 6:
                    # (state, coroutine frame, helper frame and block when the yield is made inside a helper)
                    lst.append((st_.fork(), cfr) if fr is cfr else (st_.fork(), cfr, fr, bi))
            return None
        eng.hooks = [hook]
        eng.entry_name = 'coroutine body (arrival states)'
        try:
            args = [eng.mk_default(st, body.locals[i]['ty']) for i in range(1, body.arg_count + 1)]
            eng.exec_body(st, CLOSURE, args)
        except Budget as e:
            self.errors.append('arrival collection: %s' % e)

    @staticmethod
    def _yield_desc(v):
        if isinstance(v, EnumV):
            if v.tags == {0}:
                return 'None'
            if v.tags == {1}:
                p = v.payload[1].fields.get('0')
                if isinstance(p, BoolV) and p.val is not None:
                    return 'Some(%s)' % ('true' if p.val else 'false')
                return 'Some(?)'
        return '?'

    def step(self, site, inputs, utf8=None, skip_inputs=0, want_facts=False):
        """from every arrival state of `site`, feed the scripted inputs (list of 1-char strings);
        returns set of outcomes: (next_site_index | 'end', tuple(events), yielded_desc)"""
        prog, body = self.prog, self.body
        outcomes = set()
        from .ctx import yield_site_of
        for arr in self.arrivals.get(site, []):
            ast, fr = arr[0], arr[1]
            wfr, wbi = (arr[2], arr[3]) if len(arr) > 2 else (None, None)
            eng = self.new_engine(unroll=True)
            st = ast.fork()
            if utf8 is not None:
                root = ('H', 'PS')
                st.store[root] = StructV('parser::ParserState', {'use_utf8': BoolV(utf8)})
            script = list(inputs)
            stops = []

            def hook(kind, st_, fr_, bi, *a):
                ys_ = yield_site_of(fr_, bi) if kind == 'yield' else None
                if ys_ is not None:
                    callee, args, t = a
                    pos = st_.vn.get('scriptpos', 0)
                    if pos < len(script):
                        c = script[pos]
                        st_.vn['scriptpos'] = pos + 1
                        st_.log(('input', c))
                        return [(st_, some(t['dest']['ty'], StrV(c)))]
                    yv = args[1] if len(args) > 1 else None
                    stops.append((ys_[1], st_, self._yield_desc(yv)))
                    return []
                return None
            eng.hooks = [hook]
            t = body.blocks[site]['term']
            c0 = script.pop(0)
            st.log(('resume', site))
            st.log(('input', c0))
            eng.entry_name = 'coroutine site %d inputs %r' % (self.sites.index(site), inputs)
            try:
                if wfr is None:
                    eng.write(st, eng.resolve(st, fr, t['dest']), some(t['dest']['ty'], StrV(c0)))
                    starts = [st]
                else:
                    # the yield is made inside a helper: the helper finishes first (with the character it was sent),
                    # what it returns is the value of the call in the coroutine body
                    wt = wfr.body.blocks[wbi]['term']
                    eng.write(st, eng.resolve(st, wfr, wt['dest']), some(wt['dest']['ty'], StrV(c0)))
                    starts = []
                    for (s1, ret1) in eng.exec_body(st, wfr.func, [], start_bb=wt['target'], frame=wfr):
                        s1.stack = s1.stack + (CLOSURE,) if not s1.stack or s1.stack[-1] != CLOSURE else s1.stack
                        eng.write(s1, eng.resolve(s1, fr, t['dest']), ret1)
                        starts.append(s1)
                for s0 in starts:
                    res = eng.exec_body(s0, CLOSURE, [], start_bb=t['target'], frame=fr)
                    for (s2, ret) in res:
                        outcomes.add(('RETURNED', (), '?'))
            except Budget as e:
                outcomes.add(('ERROR', (str(e),), '?'))
            for (bi, s2, yd) in stops:
                evs = []
                seen_resume = False
                for ev in s2.event_list():
                    if ev[0] == 'resume' and ev[1] == site:
                        seen_resume = True
                        evs = []
                        continue
                    if not seen_resume:
                        continue
                    if ev[0] == 'listener':
                        meth = ev[1].split('::')[-1]
                        evs.append((meth,) + tuple(ev[5][1:]))
                    elif ev[0] == 'input':
                        evs.append(('<-', ev[1]))
                    elif ev[0] == 'vec.push' and ev[-1] in self.scope:
                        evs.append(('push', self._arg_desc(eng, s2, ev[2])))
                    elif ev[0] == 'str.push' and ev[-1] in self.scope:
                        evs.append(('strpush', eng.describe_value(s2, ev[2])))
                if skip_inputs:
                    # keep only what happened after the prefix inputs
                    k = 0
                    cut = 0
                    for i, e2 in enumerate(evs):
                        if e2[0] == '<-':
                            k += 1
                            if k == skip_inputs + 1:
                                cut = i
                                break
                    evs = evs[cut:]
                if want_facts:
                    facts = tuple(sorted((k[1][1], v) for k, v in s2.vn.items()
                                         if isinstance(k, tuple) and len(k) == 2 and k[0] == 'fact' and isinstance(k[1], tuple)
                                         and k[1] and k[1][0] == 'strcontains' and isinstance(k[1][1], str)))
                    outcomes.add((self.sites.index(bi), tuple(evs), yd, facts))
                else:
                    outcomes.add((self.sites.index(bi), tuple(evs), yd))
        return outcomes

    def _scope(self):
        from .ctx import coroutine_scope
        return coroutine_scope(self.prog)

    def _arg_desc(self, eng, st, a):
        if isinstance(a, RefV):
            v = eng.read(st, a.path)
            while isinstance(v, RefV):
                v = eng.read(st, v.path)
            a = v
        if isinstance(a, StrV):
            if a.known is not None:
                return a.known
            return ('str?', str(a.prov)[:80])
        if isinstance(a, BoolV):
            return a.val
        if isinstance(a, CollV):
            if a.known is not None:
                return tuple(self._arg_desc(eng, st, x) for x in a.known)
            ln = a.length
            return ('vec?', repr(ln))
        if isinstance(a, NumV):
            if a.sym is None:
                return a.k
            lo, hi = eng.bounds(st, a)
            return ('num', lo, hi)
        return '?'
