"""Engine E3: flow-insensitive may-write / may-read analysis of `Screen` field paths.

Per function: the set of Screen field paths (tuples of field names, e.g.
('cursor', 'x') or ('buffer',)) that may be written directly, through a
mutable alias, or by a callee.  Over-approximating by construction:

* a local *aliases* a path when it may hold a pointer into it; aliases are
  propagated through moves, re-borrows, aggregates (tuples, closures) and
  through every call whose result type can carry a pointer;
* a library callee that receives a mutable alias counts as a write unless it
  is in the reviewed non-mutating table below;
* a crate-local callee contributes its own (transitive) set, re-based on the
  alias passed as `self`; closures are analysed with their captured aliases.

Also available per *block* (E4 uses it to havoc at loop heads).
"""
import copy

from .model import Body, Program

# reviewed: these library methods do not themselves mutate through a `&mut`
# receiver (the pointer they may return is tracked as a mutable alias instead)
NON_MUTATING = {
    'get_mut', 'entry', 'values_mut', 'iter_mut', 'deref_mut', 'deref', 'as_mut', 'into_iter',
    'unwrap', 'expect', 'and_then', 'map', 'lock', 'iter', 'get', 'values', 'keys', 'as_ref',
    'rev', 'cloned', 'contains', 'contains_key', 'len', 'is_empty', 'clone', 'eq', 'ne',
    'is_some', 'is_none', 'to_string', 'to_owned', 'any', 'all', 'fmt', 'starts_with', 'chars',
    'unwrap_or', 'as_str', 'to_vec', 'nfc', 'is_some_and', 'filter', 'nth', 'or',
}
# `next` on a mutable iterator advances the iterator (a local), it does not write the collection
NON_MUTATING |= {'next', 'collect', 'skip', 'take', 'step_by'}

MUT_CARRIERS = ('&mut', 'IterMut<', 'ValuesMut<', 'Entry<', 'MutexGuard<', '*mut', 'closure@')


def carries_mut(ty):
    return any(m in ty for m in MUT_CARRIERS)


def carries_ptr(ty):
    return carries_mut(ty) or '&' in ty or 'Iter' in ty or 'Values' in ty or 'Keys' in ty or 'Box<' in ty \
        or '*const' in ty or 'Chars' in ty


def _last(path):
    return path.split('::')[-1].split('<')[0]


class Effects:
    def __init__(self, prog: Program):
        self.prog = prog
        self.direct = {}      # func -> {bi: set(paths)}
        self.dreads = {}      # func -> {bi: set(paths)}
        self.callsites = {}   # func -> {bi: [(callee, self_alias_paths or None)]}
        self.maywrite = {}    # func -> set(paths) (transitive)
        self.mayread = {}
        self.struct_fields = {}
        self.ret_alias = {}   # crate-local fn -> aliases (relative to its `self`) its returned pointer may have
        for p, a in prog.adts.items():
            if a['kind'] == 'struct':
                self.struct_fields[p] = {f['name']: f['ty'] for f in a['variants'][0]['fields']}
        self._analyse_all()

    # -----------------------------------------------------------------
    def _field_ty(self, path):
        """type of the Screen field chain `path`, or None if not a pure struct chain"""
        ty = 'screen::Screen'
        for f in path:
            fs = self.struct_fields.get(ty)
            if not fs or f not in fs:
                return None
            ty = fs[f]
        return ty

    def _analyse(self, body, seed=None):
        # alias: local -> set of (path, exact, mut)
        #   exact: the local points exactly at the struct chain `path` (field projections extend it)
        #   mut:   the pointer can be written through
        alias = {}
        for i in range(1, body.arg_count + 1):
            ty = body.locals[i]['ty']
            if ty == '&mut screen::Screen':
                alias[i] = {((), True, True)}
            elif ty == '&screen::Screen':
                alias[i] = {((), True, False)}
        if seed:
            for l, s in seed.items():
                alias[l] = set(s)
        blocks = body.blocks

        def place_alias(pl, want_deref=True):
            """aliases denoted by the memory of place `pl` (which must go through a deref of an
            aliasing local), as set of (path, exact, mut)"""
            base = alias.get(pl['local'])
            if not base:
                return set()
            proj = pl['proj']
            if not any(e['k'] == 'deref' for e in proj):
                return set()
            out = set()
            for (path, exact, mut) in base:
                cur = list(path)
                ex = exact
                seen_deref = False
                for e in proj:
                    if e['k'] == 'deref':
                        if seen_deref:
                            ex = False   # second deref: through a pointer stored in Screen memory
                        seen_deref = True
                    elif e['k'] == 'field' and ex and self._field_ty(tuple(cur + [e['name']])) is not None:
                        cur.append(e['name'])
                    else:
                        ex = False
                out.add((tuple(cur), ex, mut))
            return out

        def add(dst_local, entries):
            if not entries:
                return False
            cur = alias.setdefault(dst_local, set())
            if entries <= cur:
                return False
            cur |= entries
            return True

        for _ in range(20):
            changed = False
            for bb in blocks:
                if bb['cleanup']:
                    continue
                for s in bb['stmts']:
                    if s['k'] != 'assign':
                        continue
                    rv = s['rv']
                    dst = s['place']
                    if dst['proj']:
                        # storing a pointer into a field of a local aggregate: local gets the alias
                        if not any(e['k'] == 'deref' for e in dst['proj']):
                            src = set()
                            for o in _rv_operands(rv):
                                if o['k'] in ('copy', 'move') and not o['place']['proj']:
                                    src |= alias.get(o['place']['local'], set())
                            changed |= add(dst['local'], {(p, False, m) for p, e, m in src})
                        continue
                    k = rv['k']
                    if k in ('ref', 'rawptr'):
                        pl = rv['place']
                        is_mut = rv.get('mut', False) or 'Mut' in rv.get('kind', '')
                        if any(e['k'] == 'deref' for e in pl['proj']):
                            ents = {(p, e, m and is_mut) for p, e, m in place_alias(pl)}
                            changed |= add(dst['local'], ents)
                        else:
                            # borrow of a local: the new pointer points to the local, which may
                            # itself contain pointers
                            inner = alias.get(pl['local'], set())
                            ents = {(p, False, m and carries_mut(pl['ty'])) for p, e, m in inner}
                            changed |= add(dst['local'], ents)
                    elif k in ('use', 'cast'):
                        o = rv['op']
                        if o['k'] in ('copy', 'move'):
                            pl = o['place']
                            if not carries_ptr(pl['ty']):
                                continue
                            if any(e['k'] == 'deref' for e in pl['proj']):
                                # loading a pointer stored in Screen-aliased memory
                                ents = {(p, False, m) for p, e, m in place_alias(pl)}
                            else:
                                ents = alias.get(pl['local'], set())
                                if pl['proj']:
                                    ents = {(p, e and False, m) for p, e, m in ents} if False else ents
                            changed |= add(dst['local'], set(ents))
                    elif k == 'aggregate':
                        ents = set()
                        for o in rv['ops']:
                            if o['k'] in ('copy', 'move'):
                                pl = o['place']
                                a = alias.get(pl['local'], set())
                                if any(e['k'] == 'deref' for e in pl['proj']):
                                    a = place_alias(pl)
                                cm = carries_mut(pl['ty'])
                                ents |= {(p, False, m and cm) for p, e, m in a}
                        changed |= add(dst['local'], ents)
                t = bb['term']
                if t['k'] == 'call':
                    # a crate-local callee with a known return-alias summary (`fn row_mut(&mut self, ..) -> &mut Row`):
                    # the result points where the callee says, re-based on the `self` passed
                    fn_ = t['func'].get('fn') if t['func']['k'] == 'const' else None
                    kind_, callee_ = self.prog.resolve_callee(fn_)
                    ra = self.ret_alias.get(callee_) if kind_ == 'local' else None
                    if ra is not None and t['args'] and t['args'][0]['k'] in ('copy', 'move'):
                        pl0 = t['args'][0]['place']
                        al0 = alias.get(pl0['local'], set())
                        if any(e['k'] == 'deref' for e in pl0['proj']):
                            al0 = place_alias(pl0)
                        if al0 and all(e for (_p, e, _m) in al0):
                            dm_ = carries_mut(t['dest']['ty'])
                            new_ = {(tuple(b_) + tuple(q_), False, m_ and m2_ and dm_) for (b_, _e, m_) in al0 for (q_, _e2, m2_) in ra}
                            if carries_ptr(t['dest']['ty']):
                                changed |= add(t['dest']['local'], new_)
                            continue
                    ents = set()
                    for a in t['args']:
                        if a['k'] in ('copy', 'move'):
                            pl = a['place']
                            al = alias.get(pl['local'], set())
                            if any(e['k'] == 'deref' for e in pl['proj']):
                                al = place_alias(pl)
                            if al and carries_ptr(pl['ty']):
                                cm = carries_mut(pl['ty'])
                                ents |= {(p, False, m and cm) for p, e, m in al}
                    dty = t['dest']['ty']
                    if ents and carries_ptr(dty):
                        dm = carries_mut(dty)
                        changed |= add(t['dest']['local'], {(p, False, m and dm) for p, e, m in ents})
            if not changed:
                break

        direct = {}
        dreads = {}
        calls = {}
        for bi, bb in enumerate(blocks):
            if bb['cleanup']:
                continue
            w = set()
            r = set()
            for s in bb['stmts']:
                if s['k'] == 'assign':
                    pl = s['place']
                    for (p, e, m) in place_alias(pl):
                        if m:
                            w.add(p)
                    for o in _rv_places(s['rv']):
                        for (p, e, m) in place_alias(o):
                            r.add(p)
                elif s['k'] == 'setdiscr':
                    for (p, e, m) in place_alias(s['place']):
                        if m:
                            w.add(p)
            t = bb['term']
            if t['k'] == 'switch' and t['discr']['k'] in ('copy', 'move'):
                for (p, e, m) in place_alias(t['discr']['place']):
                    r.add(p)
            if t['k'] == 'call':
                fn = t['func'].get('fn') if t['func']['k'] == 'const' else None
                kind, callee = self.prog.resolve_callee(fn)
                argal = []
                for a in t['args']:
                    if a['k'] in ('copy', 'move'):
                        pl = a['place']
                        al = alias.get(pl['local'], set())
                        if any(e['k'] == 'deref' for e in pl['proj']):
                            al = place_alias(pl)
                            for (p, e, m) in al:
                                r.add(p)
                        argal.append((al, pl['ty']))
                    else:
                        argal.append((set(), ''))
                if kind == 'local':
                    selfal = None
                    if argal and argal[0][0] and argal[0][1] in ('&mut screen::Screen', '&screen::Screen'):
                        selfal = {p for p, e, m in argal[0][0]}
                    calls.setdefault(bi, []).append((callee, selfal))
                else:
                    name = _last(callee or '')
                    for al, ty in argal:
                        for (p, e, m) in al:
                            r.add(p)
                            if m and carries_mut(ty) and name not in NON_MUTATING:
                                w.add(p)
                    if fn:
                        for c in fn.get('closure_substs', []):
                            if c in self.prog.bodies:
                                calls.setdefault(bi, []).append((c, None))
            if w:
                direct[bi] = w
            if r:
                dreads[bi] = r
        return direct, dreads, calls, alias

    def _analyse_all(self):
        prog = self.prog
        info = {}
        for p, b in prog.bodies.items():
            info[p] = self._analyse(b)
        # return-alias summaries of helpers that hand out references into the screen, then a second
        # round so that their callers see field-precise aliases instead of "somewhere in the screen"
        for _round in range(2):
            ra = {}
            for p, b in prog.bodies.items():
                if b.kind == 'closure' or b.arg_count < 1 or b.locals[1]['ty'] not in ('&mut screen::Screen', '&screen::Screen'):
                    continue
                if not carries_ptr(b.locals[0]['ty']):
                    continue
                al = info[p][3].get(0, set())
                if al and all(pth for (pth, _e, _m) in al):
                    ra[p] = set(al)
            if ra == self.ret_alias:
                break
            self.ret_alias = ra
            for p, b in prog.bodies.items():
                info[p] = self._analyse(b)
        # closures capturing aliases: re-analyse with the captured aliases seeded (nested closures:
        # iterate parents first, two rounds are enough for the nesting depth in this crate)
        for _ in range(3):
            for p, b in prog.bodies.items():
                direct, dreads, calls, alias = info[p]
                for bb in b.blocks:
                    for s in bb['stmts']:
                        if s['k'] == 'assign' and s['rv']['k'] == 'aggregate' and s['rv'].get('agg') == 'closure':
                            cpath = s['rv']['closure']
                            cb = prog.bodies.get(cpath)
                            if not cb:
                                continue
                            capal = []
                            for o in s['rv']['ops']:
                                if o['k'] in ('copy', 'move'):
                                    pl = o['place']
                                    a = alias.get(pl['local'], set())
                                    cm = carries_mut(pl['ty'])
                                    capal.append({(q, e and not pl['proj'], m and cm) for q, e, m in a})
                                else:
                                    capal.append(set())
                            if any(capal):
                                info[cpath] = self._analyse_closure(cb, capal)
        for p in prog.bodies:
            self.direct[p], self.dreads[p], self.callsites[p], _ = info[p]
        mw = {p: set().union(*self.direct[p].values()) if self.direct[p] else set() for p in prog.bodies}
        mr = {p: set().union(*self.dreads[p].values()) if self.dreads[p] else set() for p in prog.bodies}
        changed = True
        while changed:
            changed = False
            for p in prog.bodies:
                for bi, lst in self.callsites[p].items():
                    for callee, selfal in lst:
                        cw = mw.get(callee, set())
                        cr = mr.get(callee, set())
                        if selfal is None:
                            add_w, add_r = cw, cr
                        else:
                            add_w = {tuple(b) + tuple(q) for b in selfal for q in cw}
                            add_r = {tuple(b) + tuple(q) for b in selfal for q in cr}
                        if not add_w <= mw[p]:
                            mw[p] |= add_w
                            changed = True
                        if not add_r <= mr[p]:
                            mr[p] |= add_r
                            changed = True
        self.maywrite = mw
        self.mayread = mr

    def _analyse_closure(self, body, capal):
        """re-analyse a closure body with its captured fields `_1.i` / `(*_1).i` replaced by
        synthetic locals that alias what the parent captured"""
        j = copy.deepcopy(body.j)
        syn = {}
        seed = {}
        for i, a in enumerate(capal):
            if a:
                syn[i] = len(j['locals'])
                j['locals'].append({'ty': '&mut ()', 'mut': False})
                seed[syn[i]] = set(a)

        def rewrite(pl):
            if pl['local'] == 1:
                proj = pl['proj']
                k = 1 if proj and proj[0]['k'] == 'deref' else 0
                if len(proj) > k and proj[k]['k'] == 'field' and proj[k]['i'] in syn:
                    pl['local'] = syn[proj[k]['i']]
                    pl['proj'] = proj[k + 1:]

        def walk(o):
            if isinstance(o, dict):
                if 'local' in o and 'proj' in o:
                    rewrite(o)
                for v in o.values():
                    walk(v)
            elif isinstance(o, list):
                for v in o:
                    walk(v)
        walk(j['blocks'])
        return self._analyse(Body(j), seed)

    def direct_all(self, func):
        """Screen paths written by func's own statements (not through callees)"""
        d = self.direct.get(func, {})
        return set().union(*d.values()) if d else set()

    # -----------------------------------------------------------------
    def block_writes(self, func, blocks):
        """Screen paths possibly written by the given blocks of func (transitively)"""
        out = set()
        d = self.direct.get(func, {})
        c = self.callsites.get(func, {})
        for bi in blocks:
            out |= d.get(bi, set())
            for callee, selfal in c.get(bi, []):
                cw = self.maywrite.get(callee, set())
                if selfal is None:
                    out |= cw
                else:
                    out |= {tuple(b) + tuple(q) for b in selfal for q in cw}
        return out


def _rv_operands(rv):
    k = rv['k']
    if k in ('use', 'cast', 'repeat'):
        return [rv['op']]
    if k == 'binop':
        return [rv['a'], rv['b']]
    if k == 'unop':
        return [rv['a']]
    if k == 'aggregate':
        return rv['ops']
    return []


def _rv_places(rv):
    if rv['k'] in ('ref', 'rawptr', 'discr'):
        return [rv['place']]
    return [o['place'] for o in _rv_operands(rv) if o['k'] in ('copy', 'move')]
