"""Engine E4: abstract interpreter over MIR (DESIGN.md section 3).

Forward, path-partitioned (branches on unknown values fork the state; states
are not re-joined), crate-local callees and closures are inlined, library
callees are modelled by the summaries in summaries.py, loops are cut at their
heads (loop-modified state is havocked, the Screen invariant INV is assumed
there and checked on entry and on every back edge).

Outputs: an obligation table (potential panic sites and invariant checks),
an event log per path (writes to Screen paths, collection operations with
symbolic keys, listener calls), and the final states of an entry point.
No program input is ever executed; no solver is used (zone.py is the numeric
domain).
"""
import itertools
import os
import re
import sys

from . import values
from .model import Program, short
from .values import (UNIT, BoolV, CharV, ClosureV, CollV, EnumV, FnV, INT_RANGES, IterV, NumV,
                     OpaqueV, RefV, StrV, StructV, V, fresh_sym, none, opt_either, path_str,
                     pkey, some, symname)
from .zone import INF, Z, Zone

_uid = itertools.count(1)


class Budget(Exception):
    pass


class Infeasible(Exception):
    pass


def split_generic(ty):
    """'a::B<C, D<E>>' -> ('a::B', ['C', 'D<E>'])"""
    i = ty.find('<')
    if i < 0 or not ty.endswith('>'):
        return ty, []
    head = ty[:i]
    inner = ty[i + 1:-1]
    args = []
    depth = 0
    cur = ''
    for ch in inner:
        if ch in '<([':
            depth += 1
        elif ch in '>)]':
            depth -= 1
        if ch == ',' and depth == 0:
            args.append(cur.strip())
            cur = ''
        else:
            cur += ch
    if cur.strip():
        args.append(cur.strip())
    return head, args


def strip_ref(ty):
    t = ty
    if t.startswith('&'):
        t = t[1:].lstrip()
        if t.startswith("'"):
            t = t.split(' ', 1)[1] if ' ' in t else t
        if t.startswith('mut '):
            t = t[4:]
        return t
    if t.startswith('*const '):
        return t[7:]
    if t.startswith('*mut '):
        return t[5:]
    return None


def is_str_ty(ty):
    return ty in ('std::string::String', 'str', '&str', "&'static str") or re.match(r"^&('\w+ )?(mut )?str$", ty) is not None


class State:
    __slots__ = ('zone', 'store', 'events', 'vn', 'htypes', 'stack', 'steps', 'notes', 'dead')

    def __init__(self):
        self.zone = Zone()
        self.store = {}
        self.events = None      # persistent list: (event, prev)
        self.vn = {}
        self.htypes = {}
        self.stack = ()
        self.steps = 0
        self.notes = None
        self.dead = False

    def fork(self):
        s = State.__new__(State)
        s.zone = self.zone.copy()
        s.store = dict(self.store)
        s.events = self.events
        s.vn = dict(self.vn)
        s.htypes = dict(self.htypes)
        s.stack = self.stack
        s.steps = self.steps
        s.notes = self.notes
        s.dead = False
        return s

    def log(self, ev):
        self.events = (ev, self.events)

    def event_list(self):
        out = []
        e = self.events
        while e is not None:
            out.append(e[0])
            e = e[1]
        out.reverse()
        return out


class Frame:
    __slots__ = ('uid', 'body', 'func', 'caller')

    def __init__(self, body, caller=None):
        self.uid = next(_uid)
        self.body = body
        self.func = body.path
        self.caller = caller          # (frame, block) of the call this frame executes, when known


class Obligation:
    __slots__ = ('key', 'func', 'bb', 'kind', 'desc', 'span', 'visits', 'fails')

    def __init__(self, key, func, bb, kind, desc, span):
        self.key, self.func, self.bb, self.kind, self.desc, self.span = key, func, bb, kind, desc, span
        self.visits = 0
        self.fails = []   # list of dict(stack, facts)

    @property
    def discharged(self):
        return self.visits > 0 and not self.fails


S_ROOT = ('H', 'S')


class Engine:
    def __init__(self, prog: Program, effects=None, summaries=None, config=None):
        self.prog = prog
        self.effects = effects
        self.cfg = dict(max_steps=400000, max_depth=14, arg_max=9999, dim_max=2**24)
        if config:
            self.cfg.update(config)
        self.oblig = {}
        self.total_steps = 0
        self.visited_blocks = {}   # func -> set(bb)
        self.entry_name = None
        from . import summaries as sm
        self.summ = sm.Summaries(self)
        self.event_hook = None   # callable(ctx, event) observing collection operations
        self.contract = None     # callable(callee, caller) -> bool : treat this call by contract
        self.hooks = []          # callables(event, st) for rules that want to observe
        self.call_trace_hook = None
        self.probing = 0         # > 0 while a loop body is being explored on a scratch state (nothing is recorded)
        self.loop_rank = {}      # (func, head) -> list of dict(ok, why): ranking argument of `while` loops with a comparison guard
        self.loop_counters = {}  # (func, head) -> locals the engine treated as the loop's own iteration variable
        self.exit_class = {}     # (func, head, src bb, dst bb) -> set of bool: early exit taken only after the last element?

    # ================= numeric helpers =================================
    def fresh_num(self, st, ty, lo=None, hi=None, name=''):
        s = fresh_sym(name)
        rlo, rhi = INT_RANGES.get(ty, (None, None))
        if lo is None:
            lo = rlo
        if hi is None:
            hi = rhi
        if lo is not None:
            st.zone.add(Z, s, -lo)
        if hi is not None:
            st.zone.add(s, Z, hi)
        return NumV(s, 0, ty)

    def bounds(self, st, v):
        if v.sym is None:
            return (v.k, v.k)
        lo = st.zone.lower(v.sym)
        hi = st.zone.upper(v.sym)
        return (lo + v.k, hi + v.k)

    def _sym(self, v):
        return Z if v.sym is None else v.sym

    def prove_le(self, st, a, b):
        """a <= b ?  True / False / None"""
        # a.sym + a.k <= b.sym + b.k  <=>  a.sym - b.sym <= b.k - a.k
        sa, sb = self._sym(a), self._sym(b)
        c = b.k - a.k
        if st.zone.get(sa, sb) <= c:
            return True
        # refuted if a - b > c always: a.sym - b.sym >= -D[b,a] > c
        d = st.zone.get(sb, sa)
        if d != INF and -d > c:
            return False
        return None

    def prove_cmp(self, st, op, a, b):
        one = NumV(None, 1, a.ty)
        if op == 'le':
            return self.prove_le(st, a, b)
        if op == 'lt':
            return self.prove_le(st, NumV(a.sym, a.k + 1, a.ty), b)
        if op == 'ge':
            return self.prove_le(st, b, a)
        if op == 'gt':
            return self.prove_le(st, NumV(b.sym, b.k + 1, b.ty), a)
        if op == 'eq':
            x = self.prove_le(st, a, b)
            y = self.prove_le(st, b, a)
            if x is True and y is True:
                return True
            if x is False or y is False:
                return False
            return None
        if op == 'ne':
            r = self.prove_cmp(st, 'eq', a, b)
            return None if r is None else (not r)
        raise ValueError(op)

    def assume_le(self, st, a, b):
        sa, sb = self._sym(a), self._sym(b)
        ok = st.zone.add(sa, sb, b.k - a.k)
        # a difference symbol t := x - y compared with a constant constrains (x, y) themselves
        if ok and a.sym is not None and b.sym is None:
            d = st.vn.get(('def', a.sym))
            if d and d[0] == 'sub':      # x - y + a.k <= b.k
                x, y = d[1], d[2]
                ok = st.zone.add(self._sym(x), self._sym(y), b.k - a.k - x.k + y.k)
        elif ok and b.sym is not None and a.sym is None:
            d = st.vn.get(('def', b.sym))
            if d and d[0] == 'sub':      # a.k <= x - y + b.k  ->  y - x <= b.k - a.k
                x, y = d[1], d[2]
                ok = st.zone.add(self._sym(y), self._sym(x), b.k - a.k + x.k - y.k)
        elif ok and a.sym is not None and b.sym is not None:
            ok = self._derive_linear(st, a, b)
        return ok

    def _find_add(self, st, s1, s2):
        """(t_sym, offset) with  s1 + s2 = t_sym + offset  for an existing sum symbol, else None"""
        for tsym in st.vn.get(('uses', s1), ()):
            d = st.vn.get(('def', tsym))
            if d is None or d[0] != 'add':
                continue
            p, q = d[1], d[2]
            if (p.sym, q.sym) == (s1, s2) or (p.sym, q.sym) == (s2, s1):
                return tsym, -(p.k + q.k)
        return None

    def _derive_linear(self, st, a, b):
        """consequences of a <= b that relate three symbols through recorded sums / differences:
        a <= x - y  gives  a + y <= x ;  x - y <= b  gives  x <= b + y  (when the sum symbol exists)"""
        ok = True
        db = st.vn.get(('def', b.sym))
        if db is not None and db[0] == 'sub' and db[1].sym is not None and db[2].sym is not None:
            x, y = db[1], db[2]           # b = (x - y) + b.k  with x, y carrying their own offsets
            f = self._find_add(st, a.sym, y.sym)
            if f is not None:
                tsym, off = f             # a.sym + y.sym = tsym + off
                # a.sym + a.k <= x.sym + x.k - y.sym - y.k + b.k   ->   tsym + off <= x.sym + (x.k - y.k + b.k - a.k)
                ok = st.zone.add(tsym, x.sym, x.k - y.k + b.k - a.k - off) and ok
        da = st.vn.get(('def', a.sym))
        if ok and da is not None and da[0] == 'sub' and da[1].sym is not None and da[2].sym is not None:
            x, y = da[1], da[2]           # a = (x - y) + a.k
            f = self._find_add(st, b.sym, y.sym)
            if f is not None:
                tsym, off = f             # b.sym + y.sym = tsym + off
                # x.sym + x.k - y.sym - y.k + a.k <= b.sym + b.k  ->  x.sym <= tsym + off + (b.k - a.k - x.k + y.k)
                ok = st.zone.add(x.sym, tsym, off + b.k - a.k - x.k + y.k) and ok
        return ok

    def assume_cmp(self, st, op, a, b):
        """refine st with (a op b); returns False if infeasible"""
        if op != 'ne':
            return self._assume_cmp(st, op, a, b) and self._apply_neds(st)
        return self._assume_cmp(st, op, a, b)

    def _apply_neds(self, st):
        """disequalities between two symbols recorded earlier on the path: once the bounds learned since
        then force the two sides to be equal the path is infeasible; once they order them, the order is strict"""
        neds = st.vn.get(('neds',))
        if not neds:
            return True
        for (sa, ka, sb, kb) in neds:
            a, b = NumV(sa, ka, 'u32'), NumV(sb, kb, 'u32')
            x = self.prove_le(st, a, b)
            y = self.prove_le(st, b, a)
            if x is True and y is True:
                st.zone.bottom = True
                return False
            if x is True:
                if not self.assume_le(st, NumV(sa, ka + 1, 'u32'), b):
                    return False
            elif y is True:
                if not self.assume_le(st, NumV(sb, kb + 1, 'u32'), a):
                    return False
        return True

    def _assume_cmp(self, st, op, a, b):
        if op == 'le':
            return self.assume_le(st, a, b)
        if op == 'lt':
            return self.assume_le(st, NumV(a.sym, a.k + 1, a.ty), b)
        if op == 'ge':
            return self.assume_le(st, b, a)
        if op == 'gt':
            return self.assume_le(st, NumV(b.sym, b.k + 1, b.ty), a)
        if op == 'eq':
            return self.assume_le(st, a, b) and self.assume_le(st, b, a)
        if op == 'ne':
            if a.sym is not None and b.sym is not None and a.sym != b.sym:
                st.vn[('neds',)] = st.vn.get(('neds',), frozenset()) | {(a.sym, a.k, b.sym, b.k)}
            r = self.prove_cmp(st, 'eq', a, b)
            if r is True:
                st.zone.bottom = True
                return False
            # remember excluded constants of a symbol: they matter again when a bound reaches them
            for (x, y) in ((a, b), (b, a)):
                if x.sym is not None and y.sym is None:
                    key = ('nes', x.sym)
                    st.vn[key] = st.vn.get(key, frozenset()) | {y.k - x.k}
            # tighten at a bound
            ok = True
            if self.prove_le(st, a, b) is True:        # a <= b and a != b -> a < b
                ok = self._assume_cmp(st, 'lt', a, b)
            elif self.prove_le(st, b, a) is True:
                ok = self._assume_cmp(st, 'lt', b, a)
            if ok:
                for x in (a, b):
                    if x.sym is not None:
                        ok = self._apply_nes(st, x.sym) and ok
            return ok
        raise ValueError(op)

    def _apply_nes(self, st, sym):
        """move the bounds of a symbol past the constants it is known to differ from"""
        nes = st.vn.get(('nes', sym))
        if not nes:
            return True
        v = NumV(sym, 0, 'u32')
        for _ in range(len(nes) + 1):
            lo, hi = self.bounds(st, v)
            if lo > hi:
                st.zone.bottom = True
                return False
            moved = False
            if lo in nes:
                if not self.assume_le(st, NumV(None, lo + 1, 'u32'), v):
                    return False
                moved = True
            elif hi in nes:
                if not self.assume_le(st, v, NumV(None, hi - 1, 'u32')):
                    return False
                moved = True
            if not moved:
                break
        return True

    NEG = {'lt': 'ge', 'le': 'gt', 'eq': 'ne', 'ne': 'eq', 'gt': 'le', 'ge': 'lt'}

    def canon(self, st, v):
        """representative of v's equivalence class (symbols the zone proves equal up to a constant)"""
        if v.sym is None:
            return v
        best = v
        z = st.zone
        for s_ in z.syms:
            if s_ == v.sym or s_ == Z:
                continue
            if s_ < best.sym if best.sym is not None else False:
                d1 = z.get(v.sym, s_)
                if d1 != INF and z.get(s_, v.sym) == -d1:
                    best = NumV(s_, v.k + d1, v.ty)
        if best.sym is not None:
            d1 = z.get(v.sym, Z)
            if d1 != INF and z.get(Z, v.sym) == -d1:
                return NumV(None, v.k + d1, v.ty)
        return best

    def num_add(self, st, a, b, ty):
        if b.sym is None:
            return NumV(a.sym, a.k + b.k, ty)
        if a.sym is None:
            return NumV(b.sym, b.k + a.k, ty)
        key0 = ('add',) + tuple(sorted([a.key(), b.key()], key=repr))
        if key0 in st.vn:
            return st.vn[key0]
        a, b = self.canon(st, a), self.canon(st, b)
        if b.sym is None:
            return NumV(a.sym, a.k + b.k, ty)
        if a.sym is None:
            return NumV(b.sym, b.k + a.k, ty)
        key = ('add',) + tuple(sorted([a.key(), b.key()], key=repr))
        if key in st.vn:
            st.vn[key0] = st.vn[key]
            return st.vn[key]
        # y + (x - y) = x
        for (p_, q_) in ((a, b), (b, a)):
            d = st.vn.get(('def', q_.sym))
            if d is not None and d[0] == 'sub' and isinstance(d[2], NumV) and d[2].sym is not None and d[2].sym == p_.sym:
                return NumV(d[1].sym, d[1].k + (p_.k - d[2].k) + q_.k, ty)
        alo, ahi = self.bounds(st, a)
        blo, bhi = self.bounds(st, b)
        t = self.fresh_num(st, None, alo + blo if -INF not in (alo, blo) else None,
                           ahi + bhi if INF not in (ahi, bhi) else None,
                           name='(%r+%r)' % (a, b))
        t = NumV(t.sym, 0, ty)
        # t - a in [blo, bhi] ; t - b in [alo, ahi]
        if bhi != INF:
            st.zone.add(t.sym, self._sym(a), bhi - a.k)
        if blo != -INF:
            st.zone.add(self._sym(a), t.sym, a.k - blo)
        if ahi != INF:
            st.zone.add(t.sym, self._sym(b), ahi - b.k)
        if alo != -INF:
            st.zone.add(self._sym(b), t.sym, b.k - alo)
        st.vn[key] = t
        st.vn[key0] = t
        st.vn[('def', t.sym)] = ('add', a, b)
        for o in (a, b):
            st.vn[('uses', o.sym)] = st.vn.get(('uses', o.sym), ()) + (t.sym,)
        return t

    def num_sub(self, st, a, b, ty):
        if b.sym is None:
            return NumV(a.sym, a.k - b.k, ty)
        if a.sym == b.sym:
            return NumV(None, a.k - b.k, ty)
        key0 = ('sub', a.key(), b.key())
        if key0 in st.vn:
            return st.vn[key0]
        a, b = self.canon(st, a), self.canon(st, b)
        if b.sym is None:
            return NumV(a.sym, a.k - b.k, ty)
        if a.sym == b.sym:
            return NumV(None, a.k - b.k, ty)
        key = ('sub', a.key(), b.key())
        if key in st.vn:
            st.vn[key0] = st.vn[key]
            return st.vn[key]
        # (x + y) - y = x ;  x - (x - y) = y
        d = st.vn.get(('def', a.sym))
        if d is not None and d[0] == 'add':
            for (p_, q_) in ((d[1], d[2]), (d[2], d[1])):
                if isinstance(q_, NumV) and q_.sym is not None and q_.sym == b.sym:
                    return NumV(p_.sym, p_.k + q_.k - b.k + a.k, ty)
        d = st.vn.get(('def', b.sym))
        if d is not None and d[0] == 'sub' and isinstance(d[1], NumV) and d[1].sym is not None and d[1].sym == a.sym:
            return NumV(d[2].sym, d[2].k + (a.k - d[1].k) - b.k, ty)
        # bounds of a - b from the zone
        sa, sb = self._sym(a), self._sym(b)
        hi = st.zone.get(sa, sb)
        hi = hi + a.k - b.k if hi != INF else INF
        lo = st.zone.get(sb, sa)
        lo = -(lo) + a.k - b.k if lo != INF else -INF
        alo, ahi = self.bounds(st, a)
        blo, bhi = self.bounds(st, b)
        if ahi != INF and blo != -INF:
            hi = min(hi, ahi - blo)
        if alo != -INF and bhi != INF:
            lo = max(lo, alo - bhi)
        t = self.fresh_num(st, None, None if lo == -INF else lo, None if hi == INF else hi,
                           name='(%r-%r)' % (a, b))
        t = NumV(t.sym, 0, ty)
        # t - a in [-bhi, -blo]
        if blo != -INF:
            st.zone.add(t.sym, sa, -blo + a.k)
        if bhi != INF:
            st.zone.add(sa, t.sym, bhi - a.k)
        st.vn[key] = t
        st.vn[key0] = t
        st.vn[('def', t.sym)] = ('sub', a, b)
        return t

    def num_min(self, st, a, b, ty):
        if self.prove_le(st, a, b) is True:
            return a
        if self.prove_le(st, b, a) is True:
            return b
        key = ('min',) + tuple(sorted([a.key(), b.key()], key=repr))
        if key in st.vn:
            return st.vn[key]
        alo, _ = self.bounds(st, a)
        blo, _ = self.bounds(st, b)
        lo = min(alo, blo)
        t = self.fresh_num(st, None, None if lo == -INF else lo, None, name='min(%r,%r)' % (a, b))
        t = NumV(t.sym, 0, ty)
        self.assume_le(st, t, a)
        self.assume_le(st, t, b)
        # every common lower bound of a and b is a lower bound of t
        sa, sb = self._sym(a), self._sym(b)
        for s_ in list(st.zone.syms):
            if s_ in (t.sym, sa, sb):
                continue
            da = st.zone.get(s_, sa)
            db = st.zone.get(s_, sb)
            if da != INF and db != INF:
                # s_ - a.sym <= da  ->  s_ <= a + da - a.k ... in value terms: s_ <= A + (da - a.k)
                st.zone.add(s_, t.sym, max(da - a.k, db - b.k))
        st.vn[key] = t
        st.vn[('def', t.sym)] = ('min', a, b)
        return t

    def num_max(self, st, a, b, ty):
        if self.prove_le(st, a, b) is True:
            return b
        if self.prove_le(st, b, a) is True:
            return a
        key = ('max',) + tuple(sorted([a.key(), b.key()], key=repr))
        if key in st.vn:
            return st.vn[key]
        _, ahi = self.bounds(st, a)
        _, bhi = self.bounds(st, b)
        hi = max(ahi, bhi)
        t = self.fresh_num(st, None, None, None if hi == INF else hi, name='max(%r,%r)' % (a, b))
        t = NumV(t.sym, 0, ty)
        self.assume_le(st, a, t)
        self.assume_le(st, b, t)
        # every common upper bound of a and b is an upper bound of t
        sa, sb = self._sym(a), self._sym(b)
        for s_ in list(st.zone.syms):
            if s_ in (t.sym, sa, sb):
                continue
            da = st.zone.get(sa, s_)
            db = st.zone.get(sb, s_)
            if da != INF and db != INF:
                st.zone.add(t.sym, s_, max(da + a.k, db + b.k))
        st.vn[key] = t
        st.vn[('def', t.sym)] = ('max', a, b)
        return t

    def num_opaque(self, st, ty, lo, hi, key, name):
        if key is not None and key in st.vn:
            return st.vn[key]
        t = self.fresh_num(st, None, lo, hi, name=name)
        t = NumV(t.sym, 0, ty)
        if key is not None:
            st.vn[key] = t
        return t

    # ================= defaults / materialisation ======================
    def mk_default(self, st, ty, name=''):
        if ty in INT_RANGES and ty not in ('bool', 'char'):
            return self.fresh_num(st, ty, name=name)
        if ty == 'bool':
            return BoolV(None, ('fact', ('fresh', next(_uid))))
        if ty == 'char':
            return CharV(None, next(_uid))
        if is_str_ty(ty):
            return StrV(None, oid=next(_uid))
        if ty == '()':
            return UNIT
        inner = strip_ref(ty)
        if inner is not None:
            if inner.startswith('[') and inner.endswith(']') and ';' not in inner:
                root = ('H', 'slice%d' % next(_uid))
                st.store[root] = CollV('slice', inner, next(_uid), length=self.fresh_num(st, 'usize', 0, 2**40, name + '.len'))
                return RefV((root, ()), ty.startswith('&mut'))
            root = ('H', 'obj%d' % next(_uid))
            st.htypes[root] = inner
            return RefV((root, ()), ty.startswith('&mut'))
        head, args = split_generic(ty)
        if head == 'std::option::Option':
            return EnumV(ty, {0, 1}, {1: StructV('Some', {})})
        if head == 'std::result::Result':
            return EnumV(ty, {0, 1}, {0: StructV('Ok', {}), 1: StructV('Err', {})})
        if head in ('std::vec::Vec',):
            return CollV('vec', ty, next(_uid), length=self.fresh_num(st, 'usize', 0, 2**40, name + '.len'))
        if head in ('std::collections::HashMap', 'std::collections::BTreeMap'):
            return CollV('map', ty, next(_uid))
        if head in ('std::collections::HashSet', 'std::collections::BTreeSet'):
            return CollV('set', ty, next(_uid))
        if ty.startswith('[') and ty.endswith(']'):
            m = re.match(r'^\[(.*); (\d+)\]$', ty)
            if m:
                return CollV('array', ty, next(_uid), length=NumV(None, int(m.group(2)), 'usize'))
            return CollV('slice', ty, next(_uid), length=self.fresh_num(st, 'usize', 0, 2**40))
        if ty.startswith('(') and ty.endswith(')'):
            return StructV(ty, {})
        adt = self.prog.adts.get(ty)
        if adt:
            if adt['kind'] == 'struct':
                return StructV(ty, {})
            return EnumV(ty, set(range(len(adt['variants']))),
                         {i: StructV(v['name'], {}) for i, v in enumerate(adt['variants'])})
        return OpaqueV(ty, next(_uid))

    def materialise_struct(self, st, ty, depth=2, name=''):
        """eagerly build an unknown value of a crate-local struct type (so that the same unknown
        fields are seen by everyone who holds the value)"""
        adt = self.prog.adts.get(ty)
        if not adt or adt['kind'] != 'struct':
            return self.mk_default(st, ty, name=name)
        fields = {}
        for f in adt['variants'][0]['fields']:
            fty = f['ty']
            sub = self.prog.adts.get(fty)
            if sub and sub['kind'] == 'struct' and depth > 0:
                fields[f['name']] = self.materialise_struct(st, fty, depth - 1, name + '.' + f['name'])
            else:
                fields[f['name']] = self.mk_default(st, fty, name=name + '.' + f['name'])
        return StructV(ty, fields)

    # ================= store access ====================================
    def resolve(self, st, fr, place):
        root = ('L', fr.uid, place['local'])
        elems = []
        for e in place['proj']:
            k = e['k']
            if k == 'deref':
                v = self.read(st, (root, tuple(elems)))
                if isinstance(v, RefV):
                    root, elems = v.path[0], list(v.path[1])
                elif isinstance(v, StrV):
                    # deref of &str / &String handled by value
                    elems.append(('d',))
                else:
                    # unknown pointer: materialise a heap object for it
                    nroot = ('H', 'obj%d' % next(_uid))
                    tyv = getattr(v, 'ty', None)
                    inner = strip_ref(tyv) if tyv else None
                    if inner is None and tyv:
                        h, a = split_generic(tyv)
                        if h in ('std::boxed::Box', 'std::sync::Arc', 'std::sync::MutexGuard') and a:
                            inner = a[0]
                    if inner:
                        st.htypes[nroot] = inner
                    nv = RefV((nroot, ()), True)
                    try:
                        self.write(st, (root, tuple(elems)), nv, log=False)
                    except Exception:
                        pass
                    root, elems = nroot, []
            elif k == 'field':
                elems.append(('f', e['name'], e['ty']))
            elif k == 'downcast':
                elems.append(('v', e['variant']))
            elif k == 'index':
                key = self.read(st, (('L', fr.uid, e['local']), ()))
                elems.append(('e', key))
            elif k == 'constindex':
                elems.append(('e', NumV(None, e['offset'], 'usize')))
            else:
                elems.append(('x', k))
        return (root, tuple(elems))

    def _root_default(self, st, root):
        if root in st.htypes:
            v = self.mk_default(st, st.htypes[root], name=str(root[-1]))
            st.store[root] = v
            return v
        if root[0] == 'L':
            return None
        v = OpaqueV('?', next(_uid))
        st.store[root] = v
        return v

    def read(self, st, path):
        root, elems = path
        cur = st.store.get(root)
        if cur is None:
            cur = self._root_default(st, root)
            if cur is None:
                # uninitialised local read (moved-from temps of unit type etc.)
                return OpaqueV('uninit', next(_uid))
        dirty = False
        trail = []
        for e in elems:
            trail.append((cur, e))
            nxt = self._child(st, cur, e)
            if nxt is None:
                # materialise
                nxt, cur2 = self._materialise(st, cur, e, path)
                if cur2 is not cur:
                    # write back the enriched parent chain
                    trail[-1] = (cur2, e)
                    dirty = True
                    # rebuild
                    self._rebuild(st, root, trail, nxt)
                    # re-read chain for consistency
                    cur = nxt
                    continue
            cur = nxt
        return cur

    def _rebuild(self, st, root, trail, leaf):
        """write `leaf` at the end of trail [(parent, elem)...], rebuilding parents"""
        v = leaf
        for parent, e in reversed(trail):
            child = v
            v = self._with_child(parent, e, v)
            if e[0] == 'e' and isinstance(child, CollV) and isinstance(v, CollV) and isinstance(e[1], V):
                st.vn[('elem-inst', v.key(), e[1].key())] = child
        st.store[root] = v

    def _child(self, st, cur, e):
        k = e[0]
        if k == 'f':
            if isinstance(cur, StructV):
                return cur.fields.get(e[1])
            if isinstance(cur, ClosureV):
                return cur.caps.fields.get(e[1])
            if isinstance(cur, RefV):
                return cur      # Box / Unique / NonNull wrappers around a pointer
            return None
        if k == 'v':
            if isinstance(cur, EnumV):
                p = cur.payload.get(e[1])
                return p
            return None
        if k == 'e':
            if isinstance(cur, CollV):
                key = e[1]
                if cur.known is not None and isinstance(key, NumV) and key.sym is None and 0 <= key.k < len(cur.known):
                    return cur.known[key.k]
                return None
            return None
        if k == 'd':
            return cur
        return None

    def _materialise(self, st, cur, e, path):
        """child missing: returns (child, new_parent)"""
        k = e[0]
        if k == 'f':
            child = self.mk_default(st, e[2], name=path_str(path) + '.' + e[1])
            if isinstance(cur, StructV) and cur.ty == 'screen::CharOpts' and e[1] in ('fg', 'bg') and isinstance(child, StrV):
                # an unknown cell rendition: its colours are some stored colours (every store into a colour
                # field of a CharOpts, wherever it lives, is checked by the colour rule of C09)
                child = StrV(None, oid=child.oid, prov=('inv', 'colour'))
            if isinstance(cur, StructV):
                return child, cur.with_field(e[1], child)
            if isinstance(cur, OpaqueV):
                return child, StructV(cur.ty, {e[1]: child})
            return child, cur
        if k == 'v':
            if isinstance(cur, EnumV):
                p = StructV('v%d' % e[1], {})
                pl = dict(cur.payload)
                pl[e[1]] = p
                return p, EnumV(cur.ty, cur.tags, pl, cur.names)
            if isinstance(cur, OpaqueV):
                p = StructV('v%d' % e[1], {})
                return p, EnumV(cur.ty, {e[1]}, {e[1]: p})
            return StructV('v', {}), cur
        if k == 'e':
            if isinstance(cur, CollV):
                # a nested collection (a row of the grid) keeps its identity while the outer collection
                # is unchanged: the same key of the same version denotes the same inner collection
                ck = ('elem-inst', cur.key(), e[1].key()) if isinstance(e[1], V) else None
                if ck is not None and ck in st.vn:
                    return st.vn[ck], cur
                if cur.elem is not None:
                    child = self.summ.inst(st, cur.elem)
                else:
                    child = self.mk_default(st, elem_type(cur.ty, cur.kind))
                    if isinstance(child, StrV) and child.prov is None and isinstance(e[1], StrV) and e[1].known is not None:
                        child = StrV(None, oid=child.oid, prov=('map-value-const', e[1].known))    # the text a map holds under this key
                if ck is not None and isinstance(child, CollV):
                    st.vn[ck] = child
                return child, cur
            return OpaqueV('elem', next(_uid)), cur
        return OpaqueV('?', next(_uid)), cur

    def _with_child(self, parent, e, child):
        k = e[0]
        if k == 'f':
            if isinstance(parent, StructV):
                return parent.with_field(e[1], child)
            if isinstance(parent, ClosureV):
                return ClosureV(parent.func, parent.caps.with_field(e[1], child))
            ty = getattr(parent, 'ty', '?')
            return StructV(ty, {e[1]: child})
        if k == 'v':
            if isinstance(parent, EnumV):
                pl = dict(parent.payload)
                pl[e[1]] = child
                return EnumV(parent.ty, parent.tags, pl, parent.names)
            return EnumV(getattr(parent, 'ty', '?'), {e[1]}, {e[1]: child})
        if k == 'e':
            if isinstance(parent, CollV):
                key = e[1]
                if parent.known is not None and isinstance(key, NumV) and key.sym is None and 0 <= key.k < len(parent.known):
                    kn = list(parent.known)
                    kn[key.k] = child
                    return parent.evolve(known=tuple(kn), ver=parent.ver + 1)
                return parent.evolve(known=None, ver=parent.ver + 1)
            return parent
        if k == 'd':
            return child
        return parent

    def write(self, st, path, v, log=True):
        root, elems = path
        if not elems:
            st.store[root] = v
            if log and root == S_ROOT:
                st.log(('w', (), v))
            return
        cur = st.store.get(root)
        if cur is None:
            cur = self._root_default(st, root)
            if cur is None:
                cur = StructV('?', {})
        trail = []
        through_elem = False
        for e in elems[:-1]:
            nxt = self._child(st, cur, e)
            if nxt is None:
                nxt, cur = self._materialise(st, cur, e, path)
            trail.append((cur, e))
            if e[0] == 'e':
                through_elem = True
            cur = nxt
        last = elems[-1]
        if last[0] == 'f' and isinstance(cur, StructV) and isinstance(cur.prov, tuple) and cur.prov and \
                (cur.prov == ('cursor.attr',) or cur.prov[:2] == ('derived', 'cursor.attr')):
            live = root == S_ROOT and [e[1] for e in elems[:-1] if e[0] == 'f'] == ['cursor', 'attr']
            if not live:
                # a copy of the cursor rendition with a field overwritten is no longer "the cursor rendition"
                done = cur.prov[2] if cur.prov[0] == 'derived' else frozenset()
                cur = StructV(cur.ty, cur.fields, ('derived', 'cursor.attr', done | {last[1]}))
        trail.append((cur, last))
        if last[0] == 'e':
            through_elem = True
        if log and root == S_ROOT:
            st.log(('w', tuple(e[1] if e[0] == 'f' else e for e in elems), v))
        if through_elem:
            # weak update on collection elements: contents unknown afterwards unless exact
            pass
        self._rebuild(st, root, trail, v)

    # ================= constants =======================================
    def const_value(self, st, ty, j):
        inner0 = strip_ref(ty)
        if inner0 is not None and (isinstance(j, (bool, int)) or (isinstance(j, dict) and 'char' in j)):
            # reference to a scalar constant (promoted `&CONST`): a pointer to a place holding it
            root = ('H', 'c%d' % next(_uid))
            st.store[root] = self.const_value(st, inner0, j)
            return RefV((root, ()))
        if isinstance(j, bool):
            return BoolV(j)
        if isinstance(j, int):
            return NumV(None, j, ty)
        if isinstance(j, str):
            inner = strip_ref(ty)
            if inner is not None and strip_ref(inner) is not None:
                # &&str and deeper: a pointer to a place holding the string
                root = ('H', 'c%d' % next(_uid))
                st.store[root] = self.const_value(st, inner, j)
                return RefV((root, ()))
            return StrV(j, prov=('lit',))
        if isinstance(j, list):
            inner = strip_ref(ty)
            if inner is not None:
                root = ('H', 'c%d' % next(_uid))
                st.store[root] = self.const_value(st, inner, j)
                return RefV((root, ()))
            ety = elem_type(ty, 'array')
            kn = tuple(self.const_value(st, ety, x) for x in j)
            return CollV('array' if ';' in ty else 'slice', ty, next(_uid), length=NumV(None, len(kn), 'usize'), known=kn)
        if isinstance(j, dict):
            if 'char' in j:
                return CharV(chr(j['char']))
            if 'zst' in j:
                return UNIT if '{closure' not in j['zst'] else OpaqueV(j['zst'], next(_uid))
            if 'tuple' in j:
                h, args = ty, []
                inner = ty[1:-1]
                _, args = split_generic('T<' + inner + '>')
                return StructV(ty, {str(i): self.const_value(st, args[i] if i < len(args) else '?', x)
                                    for i, x in enumerate(j['tuple'])})
            if 'static' in j:
                return OpaqueV('static:' + j['static'], j['static'])
            if 'adt' in j and 'variant' in j:
                flds = {}
                for n, t, x in zip(j.get('names', []), j.get('tys', []), j.get('fields', [])):
                    flds[n] = self.const_value(st, t, x)
                inner = strip_ref(ty)
                v = EnumV(inner or ty or j['adt'], {j['variant']}, {j['variant']: StructV(j.get('variant_name', 'v'), flds)})
                if inner is not None:
                    root = ('H', 'c%d' % next(_uid))
                    st.store[root] = v
                    return RefV((root, ()))
                return v
            if 'struct' in j:
                inner = strip_ref(ty)
                flds = {n: self.const_value(st, t, x) for n, t, x in zip(j.get('names', []), j.get('tys', []), j.get('fields', []))}
                if any(isinstance(x, OpaqueV) for x in flds.values()):
                    return OpaqueV(ty, next(_uid))      # (a String, a Vec, ..: not a plain value)
                v = StructV(inner or ty, flds, prov=('const',))
                if inner is not None:
                    root = ('H', 'c%d' % next(_uid))
                    st.store[root] = v
                    return RefV((root, ()))
                return v
        return OpaqueV(ty, next(_uid))

    # ================= operands / rvalues ==============================
    def operand(self, st, fr, o):
        k = o['k']
        if k in ('copy', 'move'):
            return self.read(st, self.resolve(st, fr, o['place']))
        if k == 'const':
            if 'fn' in o:
                return FnV(o['fn'])
            return self.const_value(st, o['ty'], o['value'])
        if k == 'runtime_checks':
            return BoolV(True)
        return OpaqueV('?', next(_uid))

    CMP = {'Lt': 'lt', 'Le': 'le', 'Eq': 'eq', 'Ne': 'ne', 'Gt': 'gt', 'Ge': 'ge'}

    def rvalue(self, st, fr, rv, dest_ty=None):
        k = rv['k']
        if k == 'use':
            return self.operand(st, fr, rv['op'])
        if k in ('ref', 'rawptr'):
            pl = rv['place']
            path = self.resolve(st, fr, pl)
            if path[1] and path[1][-1] == ('d',):
                return self.read(st, (path[0], path[1][:-1]))
            # &*strref  and &str values: references to strings are passed by value when the
            # pointee is an unsized str
            if pl['ty'] == 'str':
                return self.read(st, path)
            return RefV(path, rv.get('mut', False))
        if k == 'binop':
            return self.binop(st, fr, rv)
        if k == 'unop':
            a = self.operand(st, fr, rv['a'])
            op = rv['op']
            if op == 'Not':
                if isinstance(a, BoolV):
                    if a.val is not None:
                        return BoolV(not a.val)
                    return BoolV(None, ('not', a))
                return OpaqueV(rv['ty'], next(_uid))
            if op == 'Neg' and isinstance(a, NumV) and a.sym is None:
                return NumV(None, -a.k, a.ty)
            if op == 'PtrMetadata':
                # length of a slice reference
                tgt = a
                if isinstance(a, RefV):
                    tgt = self.read(st, a.path)
                if isinstance(tgt, CollV) and tgt.length is not None:
                    return tgt.length
                if isinstance(tgt, StrV) and tgt.known is not None:
                    return NumV(None, len(tgt.known.encode()), 'usize')
                return self.fresh_num(st, 'usize', 0, 2**40)
            return self.mk_default(st, rv['ty'])
        if k == 'cast':
            return self.cast(st, fr, rv)
        if k == 'discr':
            path = self.resolve(st, fr, rv['place'])
            v = self.read(st, path)
            if isinstance(v, EnumV):
                if len(v.tags) == 1:
                    return NumV(None, next(iter(v.tags)), 'isize')
                return DiscrV(path, v.tags)
            if isinstance(v, OpaqueV):
                return DiscrV(path, None)
            return OpaqueV('isize', next(_uid))
        if k == 'aggregate':
            ops = [self.operand(st, fr, o) for o in rv['ops']]
            agg = rv['agg']
            if agg == 'tuple':
                return StructV(dest_ty or 'tuple', {str(i): v for i, v in enumerate(ops)})
            if agg == 'array':
                return CollV('array', dest_ty or '[?]', next(_uid), length=NumV(None, len(ops), 'usize'), known=tuple(ops))
            if agg == 'adt':
                adt = self.prog.adts.get(rv['adt'])
                names = rv['names']
                fields = {n: v for n, v in zip(names, ops)}
                is_enum = (adt and adt['kind'] == 'enum') or rv['adt'] in ('std::option::Option', 'std::result::Result') \
                    or (adt is None and rv['variant_name'] not in rv['adt'].split('::')[-1:])
                if is_enum and not (adt and adt['kind'] == 'struct'):
                    return EnumV(dest_ty or rv['adt'], {rv['variant']}, {rv['variant']: StructV(rv['variant_name'], fields)})
                return StructV(rv['adt'], fields, prov=('literal', fr.func))
            if agg in ('closure', 'coroutine'):
                b = self.prog.bodies.get(rv['closure'])
                names = [str(i) for i in range(len(ops))]
                return ClosureV(rv['closure'], StructV('env', {n: v for n, v in zip(names, ops)}), self.prog.fingerprint(rv['closure']))
            return OpaqueV(dest_ty or '?', next(_uid))
        if k == 'repeat':
            v = self.operand(st, fr, rv['op'])
            try:
                n = int(rv['n'].split()[0]) if rv['n'][0].isdigit() else None
            except Exception:
                n = None
            return CollV('array', dest_ty or '[?]', next(_uid), length=NumV(None, n, 'usize') if n is not None else None, elem=v)
        return OpaqueV(dest_ty or '?', next(_uid))

    def binop(self, st, fr, rv):
        op = rv['op']
        a = self.operand(st, fr, rv['a'])
        b = self.operand(st, fr, rv['b'])
        ty = rv['ty']
        if op in self.CMP:
            c = self.CMP[op]
            if isinstance(a, NumV) and isinstance(b, NumV):
                r = self.prove_cmp(st, c, a, b)
                if r is not None:
                    return BoolV(r)
                return BoolV(None, ('cmp', c, a, b))
            if isinstance(a, CharV) and isinstance(b, CharV) and not (a.known is not None and b.known is not None):
                na, nb = self.char_num(st, a), self.char_num(st, b)
                r = self.prove_cmp(st, c, na, nb)
                if r is not None:
                    return BoolV(r)
                return BoolV(None, ('cmp', c, na, nb))
            if isinstance(a, CharV) and isinstance(b, CharV) and a.known is not None and b.known is not None:
                return BoolV({'lt': a.known < b.known, 'le': a.known <= b.known, 'eq': a.known == b.known,
                              'ne': a.known != b.known, 'gt': a.known > b.known, 'ge': a.known >= b.known}[c])
            if isinstance(a, BoolV) and isinstance(b, BoolV) and a.val is not None and b.val is not None and c in ('eq', 'ne'):
                return BoolV((a.val == b.val) == (c == 'eq'))
            if isinstance(a, DiscrV) or isinstance(b, DiscrV):
                return BoolV(None, ('fact', ('discrcmp', next(_uid))))
            return BoolV(None, ('fact', ('cmp?', next(_uid))))
        base = op.replace('WithOverflow', '').replace('Unchecked', '')
        with_ovf = op.endswith('WithOverflow')
        if isinstance(a, NumV) and isinstance(b, NumV):
            res = None
            if base == 'Add':
                res = self.num_add(st, a, b, ty)
            elif base == 'Sub':
                res = self.num_sub(st, a, b, ty)
            elif base == 'Mul':
                res = self.num_mul(st, a, b, ty)
            elif base in ('Div', 'Rem'):
                res = self.num_divrem(st, base, a, b, ty)
            elif base in ('Shl', 'Shr'):
                res = self.num_shift(st, base, a, b, ty)
            elif base in ('BitAnd', 'BitOr', 'BitXor'):
                if a.sym is None and b.sym is None:
                    res = NumV(None, {'BitAnd': a.k & b.k, 'BitOr': a.k | b.k, 'BitXor': a.k ^ b.k}[base], ty)
                else:
                    res = self.fresh_num(st, ty)
            if res is not None:
                if with_ovf:
                    lo, hi = INT_RANGES.get(ty, (None, None))
                    rlo, rhi = self.bounds(st, res)
                    inr = lo is not None and rlo >= lo and rhi <= hi
                    flag = BoolV(False) if inr else BoolV(None, ('range', res, lo, hi))
                    return StructV('(%s, bool)' % ty, {'0': res, '1': flag})
                return res
        if isinstance(a, BoolV) and isinstance(b, BoolV) and base in ('BitAnd', 'BitOr', 'BitXor'):
            if a.val is not None and b.val is not None:
                return BoolV({'BitAnd': a.val and b.val, 'BitOr': a.val or b.val, 'BitXor': a.val != b.val}[base])
            if base == 'BitAnd':
                return BoolV(None, ('and', a, b))
            if base == 'BitOr':
                return BoolV(None, ('or', a, b))
        if with_ovf:
            return StructV('(%s, bool)' % ty, {'0': self.mk_default(st, ty), '1': BoolV(None, ('fact', ('ovf?', next(_uid))))})
        if op == 'Offset':
            return a
        return self.mk_default(st, ty)

    def int_to_char(self, st, v):
        """`u8 as char` / char::from(u8): the char whose code point is the number"""
        if v.sym is None:
            return CharV(chr(v.k)) if 0 <= v.k <= 0x10ffff else CharV(None, next(_uid))
        key = ('int2char', v.key())
        ch = st.vn.get(key)
        if ch is None:
            ch = CharV(None, next(_uid), prov=('from-int', v.key()))
            st.vn[key] = ch
            st.vn[('char2int', ch.key())] = NumV(v.sym, v.k, 'u32')
        return ch

    def char_num(self, st, v):
        """code point of a char value as a number (one symbol per unknown char)"""
        if v.known is not None:
            return NumV(None, ord(v.known), 'u32')
        return self.num_opaque(st, 'u32', 0, 0x10ffff, ('char2int', v.key()), 'ord(%r)' % v)

    def num_mul(self, st, a, b, ty):
        if a.sym is None and b.sym is None:
            return NumV(None, a.k * b.k, ty)
        alo, ahi = self.bounds(st, a)
        blo, bhi = self.bounds(st, b)
        if INF in (ahi, bhi) or -INF in (alo, blo):
            return self.num_opaque(st, ty, None, None, ('mul', a.key(), b.key()), '(%r*%r)' % (a, b))
        cs = [alo * blo, alo * bhi, ahi * blo, ahi * bhi]
        return self.num_opaque(st, ty, min(cs), max(cs), ('mul', a.key(), b.key()), '(%r*%r)' % (a, b))

    def num_divrem(self, st, base, a, b, ty):
        if a.sym is None and b.sym is None and b.k != 0:
            if base == 'Div':
                q = abs(a.k) // abs(b.k)
                return NumV(None, q if (a.k >= 0) == (b.k >= 0) else -q, ty)
            r = abs(a.k) % abs(b.k)
            return NumV(None, r if a.k >= 0 else -r, ty)
        alo, ahi = self.bounds(st, a)
        blo, bhi = self.bounds(st, b)
        key = (base, a.key(), b.key())
        if base == 'Rem' and blo > 0 and alo >= 0 and bhi != INF:
            return self.num_opaque(st, ty, 0, min(ahi, bhi - 1) if ahi != INF else bhi - 1, key, '(%r%%%r)' % (a, b))
        if base == 'Div' and blo > 0 and alo >= 0:
            return self.num_opaque(st, ty, 0 if bhi == INF else alo // bhi, None if ahi == INF else ahi // blo, key, '(%r/%r)' % (a, b))
        return self.num_opaque(st, ty, None, None, key, '(%r/%r)' % (a, b))

    def num_shift(self, st, base, a, b, ty):
        if b.sym is None and 0 <= b.k < 128:
            if a.sym is None:
                v = a.k << b.k if base == 'Shl' else a.k >> b.k
                lo, hi = INT_RANGES.get(ty, (None, None))
                if hi is not None and base == 'Shl':
                    v &= (hi - lo)
                return NumV(None, v, ty)
            alo, ahi = self.bounds(st, a)
            if alo >= 0 and ahi != INF:
                if base == 'Shl':
                    lo, hi = INT_RANGES.get(ty, (0, INF))
                    if (ahi << b.k) <= hi:
                        return self.num_opaque(st, ty, alo << b.k, ahi << b.k, ('shl', a.key(), b.k), '(%r<<%d)' % (a, b.k))
                else:
                    return self.num_opaque(st, ty, alo >> b.k, ahi >> b.k, ('shr', a.key(), b.k), '(%r>>%d)' % (a, b.k))
        return self.fresh_num(st, ty)

    def cast(self, st, fr, rv):
        v = self.operand(st, fr, rv['op'])
        kind = rv['kind']
        to = rv['ty']
        if kind == 'IntToInt':
            if isinstance(v, NumV) and to == 'char':
                return self.int_to_char(st, v)
            if isinstance(v, NumV):
                lo, hi = INT_RANGES.get(to, (None, None))
                vlo, vhi = self.bounds(st, v)
                if lo is not None and vlo >= lo and vhi <= hi:
                    return NumV(v.sym, v.k, to)
                if v.sym is None and lo is not None:
                    span = hi - lo + 1
                    return NumV(None, ((v.k - lo) % span) + lo, to)
                return self.fresh_num(st, to)
            if isinstance(v, CharV):
                if v.known is not None:
                    return NumV(None, ord(v.known), to)
                n = self.char_num(st, v)
                return NumV(n.sym, n.k, to)
            if isinstance(v, BoolV):
                if v.val is not None:
                    return NumV(None, int(v.val), to)
                return self.fresh_num(st, to, 0, 1)
            if isinstance(v, DiscrV):
                return v
            return self.mk_default(st, to)
        if kind.startswith('PointerCoercion:Unsize'):
            # &[T; N] -> &[T] ; Box<X> -> Box<dyn ..>
            return v
        if kind in ('PtrToPtr', 'Transmute', 'Subtype') or kind.startswith('PointerCoercion'):
            return v
        return self.mk_default(st, to)

    # ================= branch refinement ===============================
    def assume_bool(self, st, b, truth):
        """refine st assuming BoolV b == truth; False if infeasible"""
        if b.val is not None:
            return b.val == truth
        a = b.atom
        if a is None:
            return True
        t = a[0]
        if t == 'cmp':
            op = a[1] if truth else self.NEG[a[1]]
            return self.assume_cmp(st, op, a[2], a[3])
        if t == 'not':
            return self.assume_bool(st, a[1], not truth)
        if t == 'and':
            if truth:
                return self.assume_bool(st, a[1], True) and self.assume_bool(st, a[2], True)
            return True
        if t == 'or':
            if not truth:
                return self.assume_bool(st, a[1], False) and self.assume_bool(st, a[2], False)
            return True
        if t == 'range':
            _, v, lo, hi = a
            if not truth:     # no overflow: lo <= v <= hi
                ok = True
                if lo is not None:
                    ok = ok and self.assume_le(st, NumV(None, lo, v.ty), v)
                if hi is not None:
                    ok = ok and self.assume_le(st, v, NumV(None, hi, v.ty))
                return ok
            return True
        if t == 'fact':
            key = ('fact', a[1])
            old = st.vn.get(key)
            if old is not None:
                return old == truth
            st.vn[key] = truth
            site = st.vn.get(('contains-site', a[1])) if truth and isinstance(a[1], tuple) and a[1] and a[1][0] == 'contains' else None
            if site is not None:
                # learned on this path: the value is a member of that Screen set (`if !dirty.contains(&y)
                # { dirty.insert(y) }` leaves y marked on both branches)
                st.log(('set.member', site[0], site[1]))
            # consequences registered by summaries
            for cons in st.vn.get(('cons', a[1], truth), ()):
                if not cons(st):
                    return False
            return True
        if t == 'streq':
            _, x, const = a
            cur = st.vn.get(('strval', x.oid))
            if cur is not None:
                return (cur == const) == truth
            ne = st.vn.get(('strne', x.oid), ())
            if truth:
                if const in ne:
                    return False
                dom = st.vn.get(('strdom', x.oid))
                if dom is not None and const not in dom:
                    return False
                st.vn[('strval', x.oid)] = const
            else:
                st.vn[('strne', x.oid)] = ne + (const,)
                dom = st.vn.get(('strdom', x.oid))
                if dom is not None and all(d in ne + (const,) for d in dom):
                    return False
            return True
        if t == 'tag':
            _, path, variant = a
            v = self.read(st, path)
            if isinstance(v, EnumV):
                if truth:
                    if variant not in v.tags:
                        return False
                    self.write(st, path, v.narrowed({variant}), log=False)
                    if v.eid is not None:
                        self.decide_tag(st, v.eid, variant)
                else:
                    tags = v.tags - {variant}
                    if not tags:
                        return False
                    self.write(st, path, v.narrowed(tags), log=False)
                    if v.eid is not None and len(tags) == 1:
                        self.decide_tag(st, v.eid, next(iter(tags)))
            return True
        return True

    def decide_tag(self, st, eid, tag):
        """the variant of a value-numbered enum is decided on this path; an Option that stands for what a
        map held under a key before `insert` replaced it decides that earlier presence with it"""
        first = st.vn.get(('tagof', eid)) is None
        st.vn[('tagof', eid)] = tag
        od = st.vn.get(('ondecide', eid))
        if od is not None and first:
            kind, sp, k, line, func, ckey = od
            st.vn[('fact', ('contains', ckey, k.key() if hasattr(k, 'key') else None))] = (tag == 1)
            st.log(('branch', '%s.%s' % (kind, 'some' if tag == 1 else 'none'), sp, k, line, func))

    def eval_bool(self, st, b):
        """current truth of a BoolV under st (facts may have been learnt since it was built)"""
        if b.val is not None:
            return b.val
        a = b.atom
        if a is None:
            return None
        t = a[0]
        if t == 'cmp':
            return self.prove_cmp(st, a[1], a[2], a[3])
        if t == 'not':
            r = self.eval_bool(st, a[1])
            return None if r is None else not r
        if t == 'and':
            x, y = self.eval_bool(st, a[1]), self.eval_bool(st, a[2])
            if x is False or y is False:
                return False
            if x is True and y is True:
                return True
            return None
        if t == 'or':
            x, y = self.eval_bool(st, a[1]), self.eval_bool(st, a[2])
            if x is True or y is True:
                return True
            if x is False and y is False:
                return False
            return None
        if t == 'range':
            _, v, lo, hi = a
            vlo, vhi = self.bounds(st, v)
            if lo is not None and vlo >= lo and vhi <= hi:
                return False
            if (hi is not None and vlo > hi) or (lo is not None and vhi < lo):
                return True
            return None
        if t == 'fact':
            return st.vn.get(('fact', a[1]))
        if t == 'streq':
            _, x, const = a
            cur = st.vn.get(('strval', x.oid))
            if cur is not None:
                return cur == const
            if const in st.vn.get(('strne', x.oid), ()):
                return False
            return None
        if t == 'tag':
            v = self.read(st, a[1])
            if isinstance(v, EnumV):
                if v.tags == {a[2]}:
                    return True
                if a[2] not in v.tags:
                    return False
            return None
        return None

    # ================= obligations =====================================
    def obligation(self, st, fr, bb, kind, desc, span, ok, facts=''):
        if self.probing:
            return ok
        key = (fr.func, bb, kind, desc)
        ob = self.oblig.get(key)
        if ob is None:
            ob = Obligation(key, fr.func, bb, kind, desc, span)
            self.oblig[key] = ob
        ob.visits += 1
        if not ok:
            if len(ob.fails) < 5:
                ob.fails.append({'stack': list(st.stack), 'facts': facts, 'entry': self.entry_name})
            else:
                ob.fails.append(None)
        return ok

    # ================= execution =======================================
    def exec_body(self, st, func, args, depth=0, start_bb=0, typed_locals=False, pre=None, frame=None, caller=None):
        """run body `func` from state st with argument values; returns [(state, retval)].
        start_bb / typed_locals: start in the middle of the body with every local an unknown of
        its declared type (used to analyse the coroutine from each resume point); `pre` is called
        with (state, frame) before execution starts."""
        body = self.prog.bodies[func]
        if depth > self.cfg['max_depth'] or func in st.stack and st.stack.count(func) >= 3:
            raise Budget('inlining depth exceeded at %s via %s' % (func, ' > '.join(st.stack)))
        fr = frame if frame is not None else Frame(body, caller)
        if frame is None:
            st.stack = st.stack + (func,)
        for i, a in enumerate(args):
            st.store[('L', fr.uid, i + 1)] = a
        if typed_locals:
            for i, l in enumerate(body.locals):
                if ('L', fr.uid, i) not in st.store:
                    st.htypes[('L', fr.uid, i)] = l['ty']
        if pre is not None:
            pre(st, fr)
        results = self._explore(st, fr, start_bb, depth)[0]
        # pop frame
        out = []
        for (s2, ret) in results:
            s2.stack = s2.stack[:-1]
            for k in [k for k in s2.store if k[0] == 'L' and k[1] == fr.uid]:
                del s2.store[k]
            out.append((s2, ret))
        return out

    def _explore(self, st, fr, start_bb, depth, region=None):
        """work-list exploration of the body of frame fr from block start_bb: [(state, return value)].
        region = (head, blocks, guard block): the body of one loop only, from its (already cut) head, on
        a scratch state: returns also the states at the back edges of that loop and the values of the
        guard the loop tests"""
        body = fr.body
        func = fr.func
        loops, back, idom, preds = body.loops()
        results = []
        backs = []
        guards = []
        work = [(st, start_bb, None)]
        vis = self.visited_blocks.setdefault(func, set())
        while work:
            st, bi, prev = work.pop()
            # loop handling
            if region is not None and bi == region[0] and prev is not None and (prev, bi) in back:
                backs.append(st)
                continue
            if region is not None and bi == region[0] and prev is None:
                pass
            elif self.cfg.get('unroll'):
                if bi in loops:
                    n_ = st.vn.get(('unroll-n', fr.uid, bi), 0) + 1
                    st.vn[('unroll-n', fr.uid, bi)] = n_
                    if n_ > 5000:
                        raise Budget('a loop executed as written does not come to an end in %s (its iterator is not exactly known)' % func)
            elif bi in loops and st.vn.get(('unrolling', fr.uid, bi)) == 'guard':
                # a `while` whose guard had a definite value so far: keep executing it as written while
                # that stays so, otherwise cut the loop here (the rest of its iterations)
                n = st.vn.get(('unroll-n', fr.uid, bi), 0) + 1
                st.vn[('unroll-n', fr.uid, bi)] = n
                if n > 20 or not self.concrete_guard(st, fr, bi, loops[bi], depth):
                    del st.vn[('unrolling', fr.uid, bi)]
                    self.check_loop_inv(st, fr, bi, 'entry')
                    self.havoc_loop(st, fr, bi, loops[bi], depth)
            elif bi in loops and st.vn.get(('unrolling', fr.uid, bi)):
                pass
            elif bi in loops and (prev is None or (prev, bi) not in back) and self.remove_all_idiom(st, fr, bi, loops[bi], depth) is not None:
                # `for k in keys { coll.remove(&k) }` over keys selected from coll itself: summarised as one
                # retain (done by remove_all_idiom); continue after the loop
                work.append((st, self.remove_all_idiom_exit(fr, bi, loops[bi]), None))
                continue
            elif bi in loops and (prev is None or (prev, bi) not in back) and self.small_const_loop(st, fr, bi):
                st.vn[('unrolling', fr.uid, bi)] = True
            elif bi in loops and (prev is None or (prev, bi) not in back) and self.concrete_guard(st, fr, bi, loops[bi], depth):
                st.vn[('unrolling', fr.uid, bi)] = 'guard'
                st.vn[('unroll-n', fr.uid, bi)] = 0
            elif prev is not None and (prev, bi) in back:
                self.check_loop_inv(st, fr, bi, 'back-edge')
                for h in self.hooks:
                    h('backedge', st, fr, bi)
                continue
            elif bi in loops and (prev is None or (prev, bi) not in back):
                self.check_loop_inv(st, fr, bi, 'entry')
                self.havoc_loop(st, fr, bi, loops[bi], depth)
            vis.add(bi)
            bb = body.blocks[bi]
            st.steps += 1
            self.total_steps += 1
            if self.total_steps > self.cfg['max_steps']:
                raise Budget('step budget exceeded in %s' % func)
            try:
                for s in bb['stmts']:
                    self.stmt(st, fr, s)
                if region is not None and bi == region[2] and bb['term']['k'] == 'switch':
                    guards.append(self.operand(st, fr, bb['term']['discr']))
                succ = self.terminator(st, fr, bi, bb['term'], depth)
            except Infeasible:
                continue
            for (s2, nb, ret) in succ:
                if nb is None:
                    results.append((s2, ret))
                    continue
                if region is not None:
                    if nb not in region[1]:
                        continue
                elif not self.probing:
                    self.classify_exit(s2, fr, bi, nb)
                work.append((s2, nb, bi))
        return results, backs, guards

    def stmt(self, st, fr, s):
        k = s['k']
        if k == 'assign':
            v = self.rvalue(st, fr, s['rv'], s['place']['ty'])
            path = self.resolve(st, fr, s['place'])
            self.write(st, path, v)
            if self.event_hook is not None and not self.probing:
                # colour fields of a cell rendition (`CharOpts { fg, bg, .. }`), wherever the value lives: each store
                # is an event for the rule "every colour stored is a documented name or six hex digits"
                pr = s['place']['proj']
                rv = s['rv']
                stores = []
                if pr and pr[-1]['k'] == 'field' and pr[-1].get('name') in ('fg', 'bg') and isinstance(v, StrV):
                    stores.append((pr[-1]['name'], v))
                elif rv.get('k') == 'aggregate' and rv.get('adt') == 'screen::CharOpts' and isinstance(v, StructV):
                    stores += [(n, v.fields.get(n)) for n in ('fg', 'bg') if isinstance(v.fields.get(n), StrV)]
                for (n, x) in stores:
                    c = CallCtx(self, st, fr, None, {'args': [], 'span': s.get('span') or {}, 'dest': None}, None, 'colour.store', [], 0)
                    self.event_hook(c, ('colour.store', n, x))
        elif k == 'setdiscr':
            path = self.resolve(st, fr, s['place'])
            v = self.read(st, path)
            if isinstance(v, EnumV):
                self.write(st, path, EnumV(v.ty, {s['variant']}, v.payload, v.names))
        elif k == 'dead':
            st.store.pop(('L', fr.uid, s['local']), None)

    def terminator(self, st, fr, bi, t, depth):
        k = t['k']
        if k == 'goto':
            return [(st, t['target'], None)]
        if k == 'return':
            ret = st.store.get(('L', fr.uid, 0), UNIT)
            return [(st, None, ret)]
        if k == 'drop':
            return [(st, t['target'], None)]
        if k == 'unreachable':
            return []
        if k == 'switch':
            return self.switch(st, fr, t)
        if k == 'assert':
            c = self.operand(st, fr, t['cond'])
            exp = t['expected']
            ok = False
            facts = ''
            if isinstance(c, BoolV):
                cur = self.eval_bool(st, c)
                ok = (cur == exp)
                if not ok:
                    facts = self.describe_bool(st, c)
            desc = t['msg']
            if desc in ('misaligned', 'nullptr'):
                # compiler-inserted debug checks on a raw-pointer dereference; the only ones in
                # reachable code belong to the `vec!` expansion (pointer fresh from Box::new_uninit)
                from_box = any(b2['term']['k'] == 'call' and b2['term']['func'].get('fn', {}).get('path', '').endswith('new_uninit')
                               for b2 in fr.body.blocks)
                self.obligation(st, fr, bi, 'ptrcheck', desc, t['span'], bool(from_box and t['span']['exp']),
                                'raw pointer dereference outside a vec! expansion')
                return [(st, t['target'], None)]
            self.obligation(st, fr, bi, 'assert', desc, t['span'], ok, facts)
            if isinstance(c, BoolV):
                if not self.assume_bool(st, c, exp):
                    return []
            return [(st, t['target'], None)]
        if k == 'call':
            return self.call(st, fr, bi, t, depth)
        if k in ('resume', 'terminate'):
            return []
        raise Budget('unsupported terminator %s in %s' % (k, fr.func))

    def describe_bool(self, st, c):
        a = c.atom
        if a and a[0] == 'range':
            v = a[1]
            lo, hi = self.bounds(st, v)
            return 'value %r in [%s, %s] must stay within [%s, %s]' % (v, lo, hi, a[2], a[3])
        if a and a[0] == 'cmp':
            x, y = a[2], a[3]
            return '%r %s %r unknown; %r in %s, %r in %s' % (x, a[1], y, x, self.bounds(st, x), y, self.bounds(st, y))
        return repr(c)

    def switch(self, st, fr, t):
        d = self.operand(st, fr, t['discr'])
        targets = t['targets']
        other = t['otherwise']
        out = []
        if isinstance(d, BoolV):
            cur = self.eval_bool(st, d)
            # bool switch: value 0 -> false target
            fal = None
            for v, b in targets:
                if v == 0:
                    fal = b
            tru = other
            if fal is None:
                # switch on 1?
                for v, b in targets:
                    if v == 1:
                        tru = b
                fal = other
            if cur is True:
                return [(st, tru, None)]
            if cur is False:
                return [(st, fal, None)]
            s2 = st.fork()
            if self.assume_bool(st, d, True) and not st.zone.bottom:
                out.append((st, tru, None))
            if self.assume_bool(s2, d, False) and not s2.zone.bottom:
                out.append((s2, fal, None))
            return out
        if isinstance(d, NumV):
            if d.sym is None:
                for v, b in targets:
                    if v == d.k or (d.k < 0 and v == d.k + 2**128):
                        return [(st, b, None)]
                return [(st, other, None)]
            for v, b in targets:
                s2 = st.fork()
                if self.assume_cmp(s2, 'eq', d, NumV(None, v, d.ty)) and not s2.zone.bottom:
                    out.append((s2, b, None))
            ok = True
            for v, b in targets:
                ok = ok and self.assume_cmp(st, 'ne', d, NumV(None, v, d.ty))
            if ok and not st.zone.bottom:
                out.append((st, other, None))
            return out
        if isinstance(d, DiscrV):
            v = self.read(st, d.path)
            tags = v.tags if isinstance(v, EnumV) else None
            eid = v.eid if isinstance(v, EnumV) else None
            if eid is not None and tags is not None and len(tags) > 1:
                dec = st.vn.get(('tagof', eid))
                if dec is not None and dec in tags:
                    tags = frozenset({dec})
            seen = set()
            for val, b in targets:
                if tags is not None and val not in tags:
                    continue
                seen.add(val)
                s2 = st.fork()
                if isinstance(v, EnumV):
                    self.write(s2, d.path, v.narrowed({val}), log=False)
                    if eid is not None:
                        self.decide_tag(s2, eid, val)
                else:
                    self.write(s2, d.path, EnumV(getattr(v, 'ty', '?'), {val}, {}), log=False)
                out.append((s2, b, None))
            rest = (tags - seen) if tags is not None else None
            if rest is None or rest:
                if isinstance(v, EnumV) and rest:
                    self.write(st, d.path, v.narrowed(rest), log=False)
                    if eid is not None and len(rest) == 1:
                        self.decide_tag(st, eid, next(iter(rest)))
                out.append((st, other, None))
            return out
        if isinstance(d, CharV) and d.known is not None:
            for v, b in targets:
                if v == ord(d.known):
                    return [(st, b, None)]
            return [(st, other, None)]
        # unknown discriminant: all targets
        for v, b in targets:
            out.append((st.fork(), b, None))
        out.append((st, other, None))
        return out

    # ---- calls ---------------------------------------------------------
    def call(self, st, fr, bi, t, depth):
        f = self.operand(st, fr, t['func'])
        args = [self.operand(st, fr, a) for a in t['args']]
        dest = t['dest']
        target = t['target']
        fn = f.fn if isinstance(f, FnV) else None
        kind, callee = self.prog.resolve_callee(fn)
        results = None
        fv = f
        hops = 0
        while isinstance(fv, RefV) and hops < 3:
            fv = self.read(st, fv.path)
            hops += 1
        if fn is None and isinstance(fv, (ClosureV, FnV)):
            # a call through a function pointer whose value is known (a non-capturing closure or a fn item kept in a
            # table of handlers): the call of that function
            for h in self.hooks:
                h('call', st, fr, bi, fv.func if isinstance(fv, ClosureV) else (fv.fn.get('resolved') or fv.fn.get('path')), args, t)
            results = self.call_value(st, fv, args, depth, fr, bi)
        elif kind == 'local':
            cb = self.prog.bodies.get(callee)
            if cb is not None and cb.kind == 'closure' and fn is not None and fn.get('path', '').startswith(('std::ops::Fn', 'core::ops::Fn')) \
                    and len(args) == 2 and isinstance(args[1], StructV) and all(k.isdigit() for k in args[1].fields):
                # `Fn*::call*(closure, (a, b, ..))`: the closure body takes the tuple's components
                args = [args[0]] + [args[1].fields[str(i)] for i in range(len(args[1].fields))]
            elif cb is not None and cb.kind == 'closure' and fn is not None and fn.get('path', '').startswith(('std::ops::Fn', 'core::ops::Fn')) \
                    and len(args) == 2 and args[1] is UNIT:
                args = [args[0]]
            for h in self.hooks:
                h('call', st, fr, bi, callee, args, t)
            if callee.startswith(self.prog.LISTENER_IMPL) or callee.startswith('screen::Screen::'):
                st.log(('call', callee, tuple(self.describe_value(st, a) for a in args[1:]), t['span'].get('line'), fr.func))
            m = re.match(r'^<(.*) as std::clone::Clone>::clone$', callee)
            if m and m.group(1) in self.prog.adts and self.prog.bodies[callee].span.get('exp'):
                # #[derive(Clone)] on a crate-local type: field-wise clone = copy of the abstract value
                v = args[0]
                lastref = None
                while isinstance(v, RefV):
                    lastref = v
                    v = self.read(st, v.path)
                if isinstance(v, StructV) and v.prov is None and lastref is not None and lastref.path[1] and lastref.path[1][-1][0] == 'e':
                    # a copy of an element of a collection remembers which element it was taken from
                    v = StructV(v.ty, v.fields, prov=('elem-clone', lastref.path[0], lastref.path[1]))
                self.visited_blocks.setdefault(callee, set()).update(range(len(self.prog.bodies[callee].blocks)))
                results = [(st, v)]
            elif self.contract is not None and self.contract(callee, fr.func):
                results = self.call_by_contract(st, fr, bi, t, callee, args)
            elif callee.endswith(('as std::iter::Iterator>::next', 'as std::iter::DoubleEndedIterator>::next_back')) and args and \
                    isinstance(args[0], RefV) and isinstance(self.read(st, args[0].path), IterV):
                # `next` of a crate-local iterator type that was recognised as a range (summaries.range_like):
                # its value is the range description, advanced like a std range
                std = 'std::iter::Iterator::next' if callee.endswith('::next') else 'std::iter::DoubleEndedIterator::next_back'
                ctx = CallCtx(self, st, fr, bi, t, fn, std, args, depth)
                results = self.summ.apply(ctx)
            else:
                ev0 = st.events
                results = self.exec_body(st, callee, args, depth + 1, caller=(fr, bi))
                if len(results) > self.cfg.get('merge_cap', 24):
                    results = self.merge_results(ev0, results, callee)
        else:
            ctx = CallCtx(self, st, fr, bi, t, fn, callee, args, depth)
            results = self.summ.apply(ctx)
        out = []
        for (s2, ret) in results:
            if target is None:
                continue
            try:
                path = self.resolve(s2, fr, dest)
                self.write(s2, path, ret if ret is not None else UNIT)
            except Infeasible:
                continue
            out.append((s2, target, None))
        return out

    # ---- explosion valve: join of the outcomes of a value-type helper ------------------------------
    def merge_results(self, ev0, results, callee):
        """A crate-local helper that is not a Screen operation (a method of a plain data type such as
        CharOpts) returned very many abstract outcomes - typically n independent `if let Some(..) =
        map.remove(k)` in a row give 2^n.  Its internal paths have all been explored (every obligation
        inside it was examined); for the caller the outcomes are joined into one state: values that
        differ become unknowns of their type (bounds: the hull), facts that are not common are dropped,
        the Screen paths any outcome wrote are recorded as written.  Done only when what happened inside
        is confined to such writes and to local data (no grid / listener / dirty-set operation), so that
        no rule that reasons about the order or presence of events on a path loses anything."""
        if callee.startswith(self.prog.LISTENER_IMPL) or callee.startswith('screen::Screen::'):
            return results
        tails = []
        for (s, ret) in results:
            tail = []
            e = s.events
            while e is not None and e is not ev0:
                tail.append(e[0])
                e = e[1]
            if e is not ev0:
                return results
            for ev in tail:
                k = ev[0]
                if k in ('w', 'branch', 'note', 'loop-head'):
                    continue
                if len(ev) > 1 and isinstance(ev[1], tuple) and ev[1] and ev[1][0] == 'S':
                    return results          # an operation on a Screen collection: order matters to the rules
                if k in ('listener', 'call', 'localcall', 'send', 'decode'):
                    return results
            tails.append(tail)
        states = [s for (s, r) in results]
        base = states[0]
        m = base.fork()
        m.events = ev0
        # numeric hulls are taken in each outcome's own zone
        fresh = []

        def join(vals):
            k0 = vals[0].key()
            if all(v.key() == k0 for v in vals[1:]):
                return vals[0]
            t0 = type(vals[0])
            if not all(type(v) is t0 for v in vals):
                return OpaqueV(getattr(vals[0], 'ty', '?'), next(_uid))
            if t0 is StructV and all(v.ty == vals[0].ty for v in vals):
                names = set(vals[0].fields)
                for v in vals[1:]:
                    names &= set(v.fields)
                prov = vals[0].prov if all(v.prov == vals[0].prov for v in vals) else None
                return StructV(vals[0].ty, {n: join([v.fields[n] for v in vals]) for n in sorted(names)}, prov)
            if t0 is BoolV:
                return BoolV(None)
            if t0 is NumV:
                lo = min(self.bounds(s, v)[0] for s, v in zip(states, vals))
                hi = max(self.bounds(s, v)[1] for s, v in zip(states, vals))
                sym = fresh_sym('join')
                fresh.append((sym, lo, hi))
                return NumV(sym, 0, vals[0].ty)
            if t0 is StrV:
                alts = []
                for v in vals:
                    if v.key() not in [a.key() for a in alts]:
                        alts.append(v)
                return StrV(None, oid=next(_uid), prov=('either', tuple(alts[:12])))
            if t0 is EnumV and all(v.ty == vals[0].ty for v in vals):
                tags = set()
                for v in vals:
                    tags |= set(v.tags)
                pl = {}
                for tg in tags:
                    ps = [v.payload[tg] for v in vals if tg in v.tags and tg in v.payload]
                    if ps:
                        pl[tg] = join(ps) if len(ps) == len([v for v in vals if tg in v.tags]) else ps[0]
                return EnumV(vals[0].ty, tags, pl, vals[0].names)
            if t0 is CharV:
                return CharV(None, next(_uid))
            if t0 is CollV:
                return vals[0].evolve(known=None, length=None, ver=max(v.ver for v in vals) + 1)
            return OpaqueV(getattr(vals[0], 'ty', '?'), next(_uid))

        keys = set(base.store)
        for s in states[1:]:
            keys &= set(s.store)
        m.store = {k: join([s.store[k] for s in states]) for k in keys}
        # facts common to all outcomes
        vn = {}
        for k, v in base.vn.items():
            kk = v.key() if isinstance(v, V) else None
            same = True
            for s in states[1:]:
                if k not in s.vn:
                    same = False
                    break
                w = s.vn[k]
                if isinstance(v, V):
                    if not (isinstance(w, V) and w.key() == kk):
                        same = False
                        break
                else:
                    try:
                        if w != v:
                            same = False
                            break
                    except Exception:
                        same = False
                        break
            if same:
                vn[k] = v
        m.vn = vn
        # zone: the weakest of the outcomes' constraints
        z = Zone()
        z.syms = set(base.zone.syms)
        for (a, b), c in base.zone.d.items():
            cc = c
            for s in states[1:]:
                x = s.zone.d.get((a, b), INF)
                if x == INF:
                    cc = INF
                    break
                if x > cc:
                    cc = x
            if cc != INF:
                z.d[(a, b)] = cc
        m.zone = z
        for (sym, lo, hi) in fresh:
            if lo != -INF:
                m.zone.add(Z, sym, -lo)
            if hi != INF:
                m.zone.add(sym, Z, hi)
        m.steps = max(s.steps for s in states)
        # what any outcome wrote on the Screen is written (by the joined value)
        written = []
        for tail in tails:
            for ev in tail:
                if ev[0] == 'w' and ev[1] not in written:
                    written.append(ev[1])
        m.log(('merged', callee, len(results)))
        for pth in written:
            try:
                elems = tuple(('f', x, None) if isinstance(x, str) else x for x in pth)
                v = self.read(m, (S_ROOT, elems))
            except Exception:
                v = OpaqueV('?', next(_uid))
            m.log(('w', pth, v))
        rets = [r for (s, r) in results]
        ret = join(rets) if all(isinstance(r, V) for r in rets) else rets[0]
        self.merged_calls = getattr(self, 'merged_calls', 0) + 1
        return [(m, ret)]

    def call_by_contract(self, st, fr, bi, t, callee, args):
        """modular treatment of a call to a public Screen mutator: INV and the argument domain
        A-ARG are checked at the call, the callee's may-write set is forgotten, INV is assumed.
        (Each such callee is itself analysed as an entry point from an arbitrary INV state.)"""
        from . import inv
        st.log(('listener', callee, tuple(args), t['span'].get('line'), fr.func, tuple(self.describe_value(st, a) for a in args)))
        for (name, ok, facts) in inv.check_inv(self, st):
            self.obligation(st, fr, bi, 'callinv', '%s before %s' % (name, short(callee)), t['span'], ok, facts)
        for i, a in enumerate(args[1:]):
            ok, facts = self.arg_in_domain(st, a)
            self.obligation(st, fr, bi, 'callarg', 'A-ARG arg%d of %s' % (i + 1, short(callee)), t['span'], ok, facts)
        w = self.effects.maywrite.get(callee, set()) if self.effects else None
        if w is None:
            w = set(self.INV_PATHS)
        if w:
            inv.havoc_screen(self, st, w)
        body = self.prog.bodies[callee]
        ret = self.mk_default(st, body.locals[0]['ty'])
        return [(st, ret)]

    def _elems_in_domain(self, st, c):
        items = c.known if c.known is not None else ([c.elem] if c.elem is not None else None)
        if items is None:
            return False
        for x in items:
            if not isinstance(x, NumV):
                return False
            lo, hi = self.bounds(st, x)
            if not (lo >= 0 and hi <= self.cfg['arg_max']):
                return False
        return True

    def describe_value(self, st, a, depth=0):
        """python description of an abstract value at the time of an event"""
        hops = 0
        while isinstance(a, RefV) and hops < 4:
            a = self.read(st, a.path)
            hops += 1
        if isinstance(a, StrV):
            if a.known is not None:
                return a.known
            k = st.vn.get(('strval', a.oid)) if a.oid is not None else None
            if k is not None:
                return k
            return ('str?', a.prov, a.oid)
        if isinstance(a, CharV):
            return a.known if a.known is not None else ('char?',)
        if isinstance(a, BoolV):
            return self.eval_bool(st, a)
        if isinstance(a, NumV):
            if a.sym is None:
                return a.k
            lo, hi = self.bounds(st, a)
            if lo == hi:
                return lo
            return ('num', lo, hi)
        if isinstance(a, CollV):
            if a.known is not None and depth < 3:
                return tuple(self.describe_value(st, x, depth + 1) for x in a.known)
            return ('coll?', a.kind, repr(a.length))
        if isinstance(a, EnumV):
            if a.tags == {0} and a.ty.startswith('std::option::Option'):
                return None
            if a.tags == {1} and a.ty.startswith('std::option::Option'):
                p = a.payload[1].fields.get('0')
                return ('Some', self.describe_value(st, p, depth + 1))
            return ('enum?', tuple(sorted(a.tags)))
        return ('?', type(a).__name__)

    def arg_in_domain(self, st, a):
        amax = self.cfg['arg_max']
        if isinstance(a, NumV):
            lo, hi = self.bounds(st, a)
            return (lo >= 0 and hi <= amax), '%r in [%s, %s]' % (a, lo, hi)
        if isinstance(a, EnumV) and a.ty.startswith('std::option::Option<u32>'):
            if 1 not in a.tags:
                return True, 'None'
            p = a.payload.get(1)
            v = p.fields.get('0') if p else None
            if isinstance(v, NumV):
                lo, hi = self.bounds(st, v)
                return (lo >= 0 and hi <= amax), 'Some(%r in [%s, %s])' % (v, lo, hi)
            return False, 'Some(unknown)'
        if isinstance(a, RefV):
            v = self.read(st, a.path)
            if isinstance(v, CollV) and v.ty.endswith('u32]') or isinstance(v, CollV) and 'u32' in v.ty:
                items = v.known if v.known is not None else ([v.elem] if v.elem is not None else None)
                if items is None:
                    return False, 'slice elements unknown'
                for x in items:
                    if not isinstance(x, NumV):
                        return False, 'non-numeric element'
                    lo, hi = self.bounds(st, x)
                    if not (lo >= 0 and hi <= amax):
                        return False, 'element %r in [%s, %s]' % (x, lo, hi)
                return True, 'slice ok'
        return True, 'non-numeric'

    def call_value(self, st, fval, args, depth, fr=None, bi=None):
        """call a closure / fn value from inside a summary; returns [(state, ret)]"""
        if isinstance(fval, ClosureV):
            envref_root = ('H', 'env%d' % next(_uid))
            st.store[envref_root] = fval
            body = self.prog.bodies.get(fval.func)
            if body is None:
                return [(st, OpaqueV('?', next(_uid)))]
            envty = body.locals[1]['ty']
            env = RefV((envref_root, ()), True) if envty.startswith('&') else fval
            # closure args are passed as a tuple by Fn* traits but the body takes them unpacked
            return self.exec_body(st, fval.func, [env] + list(args), depth + 1, caller=(fr, bi) if fr is not None else None)
        if isinstance(fval, FnV):
            kind, callee = self.prog.resolve_callee(fval.fn)
            if kind == 'local':
                return self.exec_body(st, callee, list(args), depth + 1)
            t = {'func': {'k': 'const', 'fn': fval.fn}, 'args': [], 'dest': None, 'target': None, 'span': {'file': '?', 'line': 0, 'exp': False}}
            ctx = CallCtx(self, st, fr, bi, t, fval.fn, callee, list(args), depth)
            return self.summ.apply(ctx)
        return [(st, OpaqueV('?', next(_uid)))]

    # ---- loops -----------------------------------------------------------
    def small_const_loop(self, st, fr, head):
        """loop whose head pops / iterates a collection with exactly known contents of at most
        8 elements: executed exactly (unrolled) instead of being cut"""
        t = fr.body.blocks[head]['term']
        if t['k'] != 'call' or t['func']['k'] != 'const' or 'fn' not in t['func']:
            return False
        name = t['func']['fn'].get('resolved') or t['func']['fn']['path']
        if not t['args'] or t['args'][0]['k'] not in ('copy', 'move'):
            return False
        # the receiver is computed in the head block itself (`_a = &mut _it`): evaluate on a scratch copy
        s2 = st.fork()
        try:
            for s_ in fr.body.blocks[head]['stmts']:
                self.stmt(s2, fr, s_)
            r = self.operand(s2, fr, t['args'][0])
        except Exception:
            return False
        v = r
        hops = 0
        while isinstance(v, RefV) and hops < 3:
            v = self.read(s2, v.path)
            hops += 1
        if name.endswith('::pop') and isinstance(v, CollV):
            return v.known is not None and len(v.known) <= 16
        if name.endswith('::next'):
            if isinstance(v, StructV) and v.ty.startswith('std::ops::Range'):
                return False
            if isinstance(v, IterV):
                if v.kind == 'chars' and isinstance(v.args[0], StrV) and v.args[0].known is not None \
                        and len(v.args[0].known) <= 8 and all(o[0] == 'char_indices' for o in v.ops):
                    st.vn[('exact-iter', v.iid)] = True
                    return True
                if v.kind == 'coll':
                    path = v.args[0]
                    c = self.read(s2, path) if path is not None else None
                    ok = isinstance(c, CollV) and c.known is not None and len(c.known) <= 16
                    if ok:
                        st.vn[('exact-iter', v.iid)] = True
                    return ok
        return False

    INV_PATHS = (('cursor', 'x'), ('cursor', 'y'), ('margins',), ('columns',), ('lines',), ('saved_columns',))

    def loop_iter_desc(self, st, fr, head):
        """('range', lo, hi, incl, opnames) when the loop head calls next() on a range iterator (as it
        stands on entry to the loop), else None"""
        cd = st.vn.get(('counter-desc', fr.uid, head))
        if cd is not None:
            return cd
        t = fr.body.blocks[head]['term']
        if t['k'] != 'call' or t['func']['k'] != 'const' or 'fn' not in t['func'] or not t['args']:
            return None
        name = t['func']['fn'].get('resolved') or t['func']['fn']['path']
        if not name.endswith('::next') or t['args'][0]['k'] not in ('copy', 'move'):
            return None
        s2 = st.fork()
        try:
            for s_ in fr.body.blocks[head]['stmts']:
                self.stmt(s2, fr, s_)
            v = self.operand(s2, fr, t['args'][0])
            hops = 0
            while isinstance(v, RefV) and hops < 3:
                v = self.read(s2, v.path)
                hops += 1
        except Exception:
            return None
        if isinstance(v, StructV) and v.ty.startswith('std::ops::Range'):
            return ('range', v.fields.get('start'), v.fields.get('end'), 'Inclusive' in v.ty, ())
        if isinstance(v, IterV) and v.kind == 'range':
            return ('range', v.args[0], v.args[1], bool(v.args[2]), tuple(o[0] for o in v.ops))
        if isinstance(v, IterV) and v.kind == 'coll':
            return ('coll', v.args[0], v.args[2], v.iid, tuple(o[0] for o in v.ops))
        return None

    def loop_written(self, fr, head, blocks):
        if self.effects is None:
            return set(self.INV_PATHS)
        return self.effects.block_writes(fr.func, blocks)

    def check_loop_inv(self, st, fr, head, where):
        body = fr.body
        loops = body.loops()[0]
        if not self.cfg.get('check_inv', True):
            return
        w = self.loop_written(fr, head, loops[head])
        if not w:
            return
        from . import inv
        for (name, ok, facts) in inv.check_inv(self, st, only_written=w):
            self.obligation(st, fr, head, 'loopinv', '%s@%s' % (name, where), body.blocks[head]['term']['span'], ok, facts)

    def loop_mod(self, fr, blocks):
        """locals assigned (or mutably borrowed) inside the loop"""
        body = fr.body
        mod = set()
        for b in blocks:
            bb = body.blocks[b]
            for s in bb['stmts']:
                if s['k'] == 'assign':
                    pl = s['place']
                    if not any(e['k'] == 'deref' for e in pl['proj']):
                        mod.add(pl['local'])
                    rv = s['rv']
                    if rv['k'] in ('ref', 'rawptr') and rv.get('mut', True) and not any(e['k'] == 'deref' for e in rv['place']['proj']):
                        mod.add(rv['place']['local'])
                elif s['k'] == 'setdiscr':
                    mod.add(s['place']['local'])
            t = bb['term']
            if t['k'] == 'call' and not any(e['k'] == 'deref' for e in t['dest']['proj']):
                mod.add(t['dest']['local'])
        return mod

    def havoc_loop(self, st, fr, head, blocks, depth=0):
        cinfo = self.probe_loop(st, fr, head, blocks, depth)
        pre = {}
        if cinfo:
            for l in set(cinfo['mono']) | {k[1] for (k, _r, _e, _c) in cinfo.get('bounds', [])} | set(cinfo.get('opt', {})) | \
                    ({cinfo['rot'][0]} if cinfo.get('rot') else set()):
                pre[l] = st.store.get(('L', fr.uid, l))
        self.plain_havoc(st, fr, head, blocks)
        if cinfo:
            self.apply_counters(st, fr, head, cinfo, pre)
        st.log(('loop-head', fr.func, head, fr.uid, self.loop_iter_desc(st, fr, head)))

    def remove_all_idiom_exit(self, fr, head, blocks):
        body = fr.body
        ex = sorted({s for b in blocks for s in body.succs(b) if s not in blocks and body.blocks[s]['term']['k'] != 'unreachable'})
        return ex[0] if len(ex) == 1 else None

    def remove_all_idiom(self, st, fr, head, blocks, depth):
        """is the loop at `head` the spelled-out `retain`:  `for k in keys { coll.remove(&k); }`  where `keys` is
        a list selected from `coll` itself by a predicate (`coll.keys().filter(p).copied().collect()`), `coll`
        unchanged since, and the body does nothing else?  If so apply `coll.retain(|k| !p(k))` to st and
        return True; otherwise None (st untouched)"""
        if self.probing or self.cfg.get('unroll'):
            return None
        body = fr.body
        ht = body.blocks[head]['term']
        if ht['k'] != 'call' or not ((ht['func'].get('fn') or {}).get('path', '')).endswith('::next'):
            return None
        dbg = (lambda *a: sys.stderr.write('[remove-all %s bb%d] %s\n' % (fr.func, head, ' '.join(str(x) for x in a)))) if os.environ.get('MTSA_DEBUG_IDIOM') else (lambda *a: None)
        if self.remove_all_idiom_exit(fr, head, blocks) is None:
            dbg('exit 1')
            return None
        calls = []
        for b in blocks:
            t = body.blocks[b]['term']
            if t['k'] == 'call' and b != head:
                calls.append((b, (t['func'].get('fn') or {}).get('path', '')))
            elif t['k'] not in ('goto', 'switch', 'drop', 'call', 'unreachable'):
                dbg('exit 2')
                return None
        if len(calls) != 1:
            dbg('exit 3')
            return None
        nm = self.summ.norm_btree(calls[0][1])
        if nm not in ('std::collections::HashMap::<K, V, S, A>::remove', 'std::collections::HashSet::<T, S, A>::remove'):
            dbg('exit 4')
            return None
        try:
            a0 = ht['args'][0]
            s0 = st.fork()
            for s_ in body.blocks[head]['stmts']:          # (the `&mut iter` temporary is made in the head block)
                self.stmt(s0, fr, s_)
            itref = self.operand(s0, fr, a0)
            it = self.read(s0, itref.path) if isinstance(itref, RefV) else itref
        except Exception:
            dbg('exit 5')
            return None
        if not isinstance(it, IterV) or it.kind != 'coll' or any(o[0] != 'cloned' for o in it.ops) or st.vn.get(('iterpos', it.iid)) is not None:
            dbg('exit 6', it, getattr(it, 'ops', None), st.vn.get(('iterpos', getattr(it, 'iid', None))))
            return None
        ipath = it.args[0]
        keys = self.read(st, ipath) if ipath is not None else None
        if not isinstance(keys, CollV):
            dbg('exit 7')
            return None
        fl = st.vn.get(('filtered', keys.cid))
        if fl is None or fl[3] != keys.ver or (len(fl) > 4 and fl[4]):
            dbg('exit 8')
            return None
        # one iteration on a scratch state: which collection is the element removed from, and is the key the element?
        sp = st.fork()
        mark = len(sp.event_list())
        saved = (self.hooks, self.event_hook, self.call_trace_hook)
        self.hooks, self.event_hook, self.call_trace_hook = [], None, None
        self.probing += 1
        try:
            _res, backs, _g = self._explore(sp, fr, head, depth, region=(head, blocks, None))
        except Budget:
            raise
        except Exception:
            dbg('exit 9')
            return None
        finally:
            self.probing -= 1
            self.hooks, self.event_hook, self.call_trace_hook = saved
        recv = None
        for sb in backs:
            evs = [e for e in sb.event_list()[mark:] if e[0] in ('map.remove', 'set.remove', 'map.insert', 'set.insert', 'w', 'vec.push', 'call')]
            if len(evs) != 1 or evs[0][0] not in ('map.remove', 'set.remove'):
                dbg('exit 10')
                return None
            sp_, k = evs[0][1], evs[0][2]
            el = sb.vn.get(('iterelem', it.iid))
            if not (isinstance(k, NumV) and isinstance(el, NumV) and k.key() == el.key()):
                dbg('exit 11')
                return None
            if recv is not None and recv != sp_:
                dbg('exit 12')
                return None
            recv = sp_
        if recv is None or not backs:
            dbg('exit 13')
            return None
        # the path of the collection the keys are removed from (a field of the Screen or a local)
        rpath = self.path_of_spath(st, fr, recv)
        if rpath is None:
            dbg('exit 14')
            return None
        cur = self.read(st, rpath)
        if not isinstance(cur, CollV) or cur.key() != fl[0]:
            dbg('exit 15')
            return None
        self.summ.h['remove_all'](st, fr, head, depth, rpath, fl)
        return True

    def path_of_spath(self, st, fr, sp):
        """store path for the readable path the effect log uses (('S', field, ..) or ('_<local>', ..)); only plain field paths"""
        if not sp:
            return None
        if sp[0] == 'S':
            root = S_ROOT
        elif isinstance(sp[0], str) and sp[0].startswith('_'):
            return None
        else:
            return None
        elems = []
        for x in sp[1:]:
            if isinstance(x, str):
                elems.append(('f', x, '?'))
            else:
                return None
        return (root, tuple(elems))

    def plain_havoc(self, st, fr, head, blocks):
        body = fr.body
        mod = self.loop_mod(fr, blocks)
        for l in mod:
            root = ('L', fr.uid, l)
            v = st.store.get(root)
            if v is None:
                continue
            if isinstance(v, IterV):
                continue
            if isinstance(v, RefV):
                continue   # references are re-assigned before use or loop-invariant
            if isinstance(v, ClosureV):
                continue
            ty = body.locals[l]['ty']
            nv = self.mk_default(st, ty, name=body.local_name(l) + '@loop')
            if isinstance(v, StrV) and isinstance(nv, StrV):
                # a string accumulated by the loop: remember which loop and what it held on entry
                nv = StrV(None, oid=nv.oid, prov=('loopvar', fr.func, head, l, v.known))
            if isinstance(v, CollV) and isinstance(nv, CollV):
                nv = nv.evolve(prov=v.prov, elem=v.elem)
                if ty == 'std::vec::Vec<u32>' and self._elems_in_domain(st, v):
                    # candidate loop invariant "every element is in 0..=arg_max": holds on entry,
                    # every push inside the loop is checked (obligation `capinv` in Vec::push)
                    nv = nv.evolve(elem=self.fresh_num(st, 'u32', 0, self.cfg['arg_max'], name=body.local_name(l) + '[*]'),
                                   prov=('capinv', v.prov))
            if isinstance(v, StructV) and isinstance(nv, StructV):
                # the same candidate invariant for a parameter list kept as a field of a local struct
                # (`acc.params: Vec<u32>`): fields are materialised so that the list keeps its identity
                adt = self.prog.adts.get(ty)
                ftys = {f_['name']: f_['ty'] for f_ in adt['variants'][0]['fields']} if adt and adt.get('variants') else {}
                nf = dict(nv.fields)
                for fname, fty in ftys.items():
                    fv = v.fields.get(fname)
                    if fty == 'std::vec::Vec<u32>' and isinstance(fv, CollV) and self._elems_in_domain(st, fv):
                        d = self.mk_default(st, fty, name='%s.%s@loop' % (body.local_name(l), fname))
                        nf[fname] = d.evolve(elem=self.fresh_num(st, 'u32', 0, self.cfg['arg_max'], name='%s.%s[*]' % (body.local_name(l), fname)),
                                             prov=('capinv', fv.prov))
                if nf != nv.fields:
                    nv = StructV(nv.ty, nf, nv.prov)
            st.store[root] = nv
        # Screen paths written in the loop: re-initialise to an arbitrary INV state
        w = self.loop_written(fr, head, blocks)
        if w:
            from . import inv
            inv.havoc_screen(self, st, w)
        if S_ROOT in st.store:
            from . import inv as _inv
            try:
                st.vn[('lh', fr.func, head, 'x')] = _inv._get(self, st, 'cursor', 'x')
                st.vn[('lh', fr.func, head, 'y')] = _inv._get(self, st, 'cursor', 'y')
            except Exception:
                pass
        # collections reachable from locals that the loop mutates through references: bump versions
        st.vn = {k: v for k, v in st.vn.items() if not (isinstance(k, tuple) and k and k[0] in ('contains', 'fact-coll'))}

    # ---- counting loops (`while i < n { ..; i += 1 }`) ------------------------------------------
    def guard_chain(self, body, head, blocks):
        """blocks from the loop head along single in-loop successors up to the first switch; None when
        that switch does not test a comparison computed in its own block.  -> (chain, guard block,
        continue-iff-true?)"""
        cache = body.__dict__.setdefault('_gc', {})
        if head not in cache:
            from . import structural
            cache[head] = structural.guard_switch(body, head, blocks)
        return cache[head]

    def concrete_guard(self, st, fr, head, blocks, depth):
        """does the comparison that guards this `while` loop have a definite value in this state?
        (evaluated on a scratch copy, nothing recorded)"""
        body = fr.body
        gc = self.guard_chain(body, head, blocks)
        if gc is None:
            return False
        chain, gbb, cont_true, ginfo = gc
        if ginfo is not None:
            return False
        s2 = st.fork()
        saved = (self.hooks, self.event_hook, self.call_trace_hook)
        self.hooks, self.event_hook, self.call_trace_hook = [], None, None
        self.probing += 1
        try:
            for b in chain:
                bb = body.blocks[b]
                dl = bb['term']['discr']['place']['local'] if b == gbb else None
                for s_ in bb['stmts']:
                    if b == gbb and s_['k'] == 'assign' and s_['place']['local'] == dl and not s_['place']['proj'] and s_['rv']['k'] == 'binop':
                        # definite operands that are at most 16 apart: a short walk, worth executing as written
                        x = self.operand(s2, fr, s_['rv']['a'])
                        y = self.operand(s2, fr, s_['rv']['b'])
                        return isinstance(x, NumV) and isinstance(y, NumV) and x.sym is None and y.sym is None and abs(x.k - y.k) <= 16
                    self.stmt(s2, fr, s_)
                if b == gbb:
                    return False
                succ = [x for x in self.terminator(s2, fr, b, bb['term'], depth) if x[1] is not None and x[1] in blocks]
                if len(succ) != 1:
                    return False
                s2 = succ[0][0]
            return False
        except Budget:
            raise
        except Exception:
            return False
        finally:
            self.probing -= 1
            self.hooks, self.event_hook, self.call_trace_hook = saved

    def probe_loop(self, st, fr, head, blocks, depth):
        """explore the body of a `while` loop with a comparison guard once on a scratch state (every
        modified local unknown) and read off, at its back edges, by how much each integer local has
        moved: {mono: {local: (direction, exact step or None)}, guard: (op, local, bound) or None}"""
        body = fr.body
        gc = self.guard_chain(body, head, blocks)
        if gc is None and self.probing < 3 and not self.cfg.get('no_probe'):
            return self.probe_rotated(st, fr, head, blocks, depth)
        if gc is None or self.probing >= 3 or self.cfg.get('no_probe'):
            return None
        chain, gbb, cont_true, ginfo = gc
        mod = self.loop_mod(fr, blocks)
        sp = st.fork()
        water = next(values._sym_counter)
        try:
            self.plain_havoc(sp, fr, head, blocks)
        except Exception:
            return None
        heads = {}
        optheads = {}       # Option<integer> locals the loop carries: local -> payload at the head
        for l in mod:
            v = sp.store.get(('L', fr.uid, l))
            if isinstance(v, NumV) and v.sym is not None and v.sym > water and v.k == 0:
                heads[l] = v
            elif isinstance(v, EnumV) and v.ty.startswith('std::option::Option<') and set(v.tags) == {0, 1}:
                pty = v.ty[len('std::option::Option<'):-1]
                if pty in INT_RANGES:
                    try:
                        pv = self.read(sp, (('L', fr.uid, l), (('v', 1), ('f', '0', pty))))     # materialises the payload
                    except Exception:
                        pv = None
                    if isinstance(pv, NumV) and pv.sym is not None and pv.sym > water and pv.k == 0:
                        optheads[l] = pv
        if not heads and not optheads:
            return None
        saved = (self.hooks, self.event_hook, self.call_trace_hook)
        self.hooks, self.event_hook, self.call_trace_hook = [], None, None
        self.probing += 1
        try:
            results, backs, guards = self._explore(sp, fr, head, depth, region=(head, blocks, gbb))
        except Budget:
            raise
        except Exception:
            return None
        finally:
            self.probing -= 1
            self.hooks, self.event_hook, self.call_trace_hook = saved
        mono = {}
        for l, L in heads.items():
            lo = hi = None
            okl = bool(backs)
            for sb in backs:
                cur = sb.store.get(('L', fr.uid, l))
                if not isinstance(cur, NumV):
                    okl = False
                    break
                cs = self._sym(cur)
                up = sb.zone.get(cs, L.sym)
                dn = sb.zone.get(L.sym, cs)
                u = up + cur.k if up != INF else None
                d = -dn + cur.k if dn != INF else None
                if cs == L.sym:
                    u = d = cur.k
                lo = d if lo is None else (None if d is None or lo == 'x' else min(lo, d))
                hi = u if hi is None else (None if u is None or hi == 'x' else max(hi, u))
                if d is None:
                    lo = 'x'
                if u is None:
                    hi = 'x'
            if not okl:
                continue
            lo = None if lo == 'x' else lo
            hi = None if hi == 'x' else hi
            if lo is not None and lo >= 0:
                mono[l] = ('inc', lo if lo == hi and lo > 0 else None, lo)
            elif hi is not None and hi <= 0:
                mono[l] = ('dec', -hi if lo == hi and hi < 0 else None, -hi)
        # Option-state loops (`while let Some(v) = state { ..; state = if .. { Some(v - 1) } else { None } }`):
        # back edges either carry Some(next payload) or None (the loop is then left at its head)
        optinfo = {}
        for l, P in optheads.items():
            lo = hi = None
            okl = True
            some_edges, none_edges = [], []
            for sb in backs:
                cur = sb.store.get(('L', fr.uid, l))
                if not isinstance(cur, EnumV) or len(cur.tags) != 1:
                    okl = False
                    break
                if set(cur.tags) == {0}:
                    none_edges.append(sb)
                    continue
                cp = cur.payload.get(1).fields.get('0') if cur.payload.get(1) is not None else None
                if not isinstance(cp, NumV):
                    okl = False
                    break
                some_edges.append((sb, cp))
                cs = self._sym(cp)
                up = sb.zone.get(cs, P.sym)
                dn = sb.zone.get(P.sym, cs)
                u = (up + cp.k) if up != INF else None
                d = (-dn + cp.k) if dn != INF else None
                if cs == P.sym:
                    u = d = cp.k
                if d is None or u is None or d != u:
                    okl = False
                    break
                lo = d if lo is None else min(lo, d)
                hi = u if hi is None else max(hi, u)
            if okl and some_edges and lo == hi and lo in (1, -1):
                optinfo[l] = dict(dir='inc' if lo > 0 else 'dec', some=some_edges, none=none_edges, head=P)
        # bounds by values the loop leaves alone: e + c <= v (or v <= e + c) that hold for the new value
        # of v at every back edge are candidates; apply_counters keeps those that also hold on entry
        bounds = []
        def sym_bounds(edges, key):
            # edges: [(state, new value NumV)]
            lows, ups = None, None
            for (sb, cv) in edges:
                cs = self._sym(cv)
                lo_here, up_here = {}, {}
                for (a, b), c in sb.zone.d.items():
                    if b == cs and a != cs and (a == Z or a <= water):
                        lo_here[a] = cv.k - c          # v >= a + (cv.k - c)
                    if a == cs and b != cs and (b == Z or b <= water):
                        up_here[b] = cv.k + c          # v <= b + (cv.k + c)
                lows = lo_here if lows is None else {e: min(lows[e], lo_here[e]) for e in lows if e in lo_here}
                ups = up_here if ups is None else {e: max(ups[e], up_here[e]) for e in ups if e in up_here}
            for e, c in (lows or {}).items():
                if e != Z:
                    bounds.append((key, 'ge', e, c))
            for e, c in (ups or {}).items():
                if e != Z:
                    bounds.append((key, 'le', e, c))
        for l, L in heads.items():
            edges = [(sb, sb.store.get(('L', fr.uid, l))) for sb in backs]
            if edges and all(isinstance(cv, NumV) for (_sb, cv) in edges):
                sym_bounds(edges, ('num', l))
        for l, oi in optinfo.items():
            sym_bounds(oi['some'], ('opt', l))
        guard = None
        why = 'the guard is not a comparison of a local the loop moves with a value the loop leaves alone'
        if guards:
            gv = guards[0]
            atom = gv.atom if isinstance(gv, BoolV) else None
            if atom and atom[0] == 'cmp' and isinstance(atom[2], NumV) and isinstance(atom[3], NumV):
                op, a, b = atom[1], atom[2], atom[3]
                if not cont_true:
                    op = {'lt': 'ge', 'le': 'gt', 'gt': 'le', 'ge': 'lt'}.get(op)
                flip = {'lt': 'gt', 'le': 'ge', 'gt': 'lt', 'ge': 'le'}
                for l, L in heads.items():
                    if a.sym == L.sym and b.sym != L.sym:
                        cand = (op, l, a.k, b)
                    elif b.sym == L.sym and a.sym != L.sym:
                        cand = (flip.get(op), l, b.k, a)
                    else:
                        continue
                    bound = cand[3]
                    if cand[0] is None or (bound.sym is not None and bound.sym > water):
                        why = 'the bound the guard compares with is recomputed by the loop'
                        continue
                    guard = cand
                    break
        rank_ok = False
        if not backs:
            rank_ok, why = True, 'no path through the body reaches the back edge'
        elif guard is not None:
            op, l, off, bound = guard
            m = mono.get(l)
            if m and m[0] == 'inc' and m[2] >= 1 and op in ('lt', 'le'):
                rank_ok, why = True, '%s rises by at least %d per iteration and the loop continues only while it is %s a value the loop does not change' % (
                    body.local_name(l), m[2], 'below' if op == 'lt' else 'at most')
            elif m and m[0] == 'dec' and m[2] >= 1 and op in ('gt', 'ge'):
                rank_ok, why = True, '%s falls by at least %d per iteration and the loop continues only while it is %s a value the loop does not change' % (
                    body.local_name(l), m[2], 'above' if op == 'gt' else 'at least')
            else:
                why = '%s is compared (%s) with a fixed value but is not shown to move towards it on every path through the body (%s)' % (
                    body.local_name(l), op, m)
        if ginfo is not None and backs:
            oi = optinfo.get(ginfo[1])
            if oi is not None:
                rank_ok, why = True, 'the loop continues only while %s holds a value, and every path that puts a value back %s it by one (an integer cannot do that for ever)' % (
                    body.local_name(ginfo[1]), 'lowers' if oi['dir'] == 'dec' else 'raises')
            else:
                rank_ok, why = False, 'the Option the loop tests is not shown to move by one towards exhaustion on every path through the body'
        if not self.probing:
            self.loop_rank.setdefault((fr.func, head), []).append(dict(ok=rank_ok, why=why, paths=len(backs)))
        if not mono and not optinfo and not bounds:
            return None
        # for an Option-state loop: the element in hand when the state becomes None (if it is bounded by one of
        # the candidate values, the walk ends exactly there)
        optlast = {}
        for l, oi in optinfo.items():
            P = oi['head']
            last = None
            for sb in oi['none']:
                here = {}
                for (a, b), c in sb.zone.d.items():
                    if oi['dir'] == 'dec' and a == P.sym and (b <= water) and b != Z:
                        here[b] = c            # P <= b + c
                    if oi['dir'] == 'inc' and b == P.sym and (a <= water) and a != Z:
                        here[a] = -c           # P >= a - c
                last = here if last is None else {e: (max(last[e], here[e]) if oi['dir'] == 'dec' else min(last[e], here[e])) for e in last if e in here}
            optlast[l] = last or {}
        return dict(mono=mono, guard=guard, bounds=bounds, opt={l: (oi['dir'], optlast[l], bool(oi['none'])) for l, oi in optinfo.items()},
                    ginfo=ginfo)

    def probe_rotated(self, st, fr, head, blocks, depth):
        """a counting loop with its test after the body: `let mut y = hi; loop { body(y); if y == lo { break } y -= 1; }`
        (or upwards).  Found like the `while` form - one pass over the body on a scratch state - with the
        candidate invariant `lo <= y` (resp. `y <= hi`) assumed at the head and shown again at every back edge.
        -> cinfo with 'rot' = (local, direction, bound) or None"""
        from . import structural
        body = fr.body
        cache = body.__dict__.setdefault('_rg', {})
        if head not in cache:
            cache[head] = structural.rotated_guard(body, head, blocks)
        rg = cache[head]
        if rg is None:
            return None
        gbb, cont_true = rg

        def run(assume=None):
            sp = st.fork()
            water = next(values._sym_counter)
            self.plain_havoc(sp, fr, head, blocks)
            heads = {}
            for l in self.loop_mod(fr, blocks):
                v = sp.store.get(('L', fr.uid, l))
                if isinstance(v, NumV) and v.sym is not None and v.sym > water and v.k == 0:
                    heads[l] = v
            if assume is not None:
                l, dirn, bound = assume
                if l not in heads:
                    return None
                if not (self.assume_le(sp, bound, heads[l]) if dirn == 'dec' else self.assume_le(sp, heads[l], bound)):
                    return None
            saved = (self.hooks, self.event_hook, self.call_trace_hook)
            self.hooks, self.event_hook, self.call_trace_hook = [], None, None
            self.probing += 1
            try:
                results, backs, guards = self._explore(sp, fr, head, depth, region=(head, blocks, gbb))
            except Budget:
                raise
            except Exception:
                return None
            finally:
                self.probing -= 1
                self.hooks, self.event_hook, self.call_trace_hook = saved
            return water, heads, backs, guards
        r1 = None
        try:
            r1 = run()
        except Budget:
            raise
        except Exception:
            r1 = None
        why = 'the test that leaves the loop is not an (in)equality between a local that moves by one and a value the loop leaves alone'
        rot = None
        if r1:
            water, heads, backs, guards = r1
            for gv in guards:
                if isinstance(gv, BoolV) and gv.val is not None:
                    continue        # decided on this path by what the body already learnt (e.g. y + n <= last, so y != last)
                atom = gv.atom if isinstance(gv, BoolV) else None
                if not (atom and atom[0] == 'cmp' and atom[1] in ('eq', 'ne') and isinstance(atom[2], NumV) and isinstance(atom[3], NumV)):
                    rot = None
                    break
                # continue while the two differ?
                cont_ne = (atom[1] == 'eq' and not cont_true) or (atom[1] == 'ne' and cont_true)
                if not cont_ne:
                    rot = None
                    break
                cand = None
                for l, L in heads.items():
                    for (a, b) in ((atom[2], atom[3]), (atom[3], atom[2])):
                        if a.sym == L.sym and a.k == 0 and b.sym != L.sym and (b.sym is None or b.sym <= water):
                            cand = (l, b)
                if cand is None or (rot is not None and (rot[0] != cand[0] or rot[1].key() != cand[1].key())):
                    rot = None
                    break
                rot = cand
            if rot is not None and backs:
                l, bound = rot
                L = heads[l]
                steps = set()
                for sb in backs:
                    cur = sb.store.get(('L', fr.uid, l))
                    if isinstance(cur, NumV) and cur.sym == L.sym:
                        steps.add(cur.k)
                    else:
                        steps.add(None)
                if steps == {-1}:
                    rot = (l, 'dec', bound)
                elif steps == {1}:
                    rot = (l, 'inc', bound)
                else:
                    rot, why = None, '%s does not move by exactly one on every path through the body' % body.local_name(l)
            elif rot is not None:
                rot = None
        ok = False
        if rot is not None:
            # the candidate invariant, assumed at the head, must hold again at every back edge
            r2 = run(assume=rot)
            if r2:
                _w, heads2, backs2, _g = r2
                l, dirn, bound = rot
                ok = bool(backs2)
                for sb in backs2:
                    cur = sb.store.get(('L', fr.uid, l))
                    if not isinstance(cur, NumV):
                        ok = False
                        break
                    if (self.prove_le(sb, bound, cur) if dirn == 'dec' else self.prove_le(sb, cur, bound)) is not True:
                        ok = False
                        break
            if not ok:
                why = 'the bound the exit test compares with is not shown to stay on the far side of %s' % body.local_name(rot[0])
        if not ok:
            if not self.probing:
                self.loop_rank.setdefault((fr.func, head), []).append(dict(ok=False, why=why, paths=0))
            return None
        return dict(mono={}, bounds=[], opt={}, guard=None, ginfo=None, rot=rot)

    def apply_counters(self, st, fr, head, cinfo, pre):
        """after the cut: what the probe established about the integer locals of the loop.  A local that
        only rises stays at or above its value on entry; the local the guard tests, when it moves by a
        fixed step, is the element of a range iteration"""
        body = fr.body
        if cinfo.get('rot'):
            l, dirn, bound = cinfo['rot']
            L = st.store.get(('L', fr.uid, l))
            l0 = pre.get(l)
            entry_ok = isinstance(L, NumV) and isinstance(l0, NumV) and L.sym is not None and L.k == 0 and \
                (self.prove_le(st, bound, l0) if dirn == 'dec' else self.prove_le(st, l0, bound)) is True
            if not self.probing:
                self.loop_rank.setdefault((fr.func, head), []).append(dict(
                    ok=entry_ok, paths=1,
                    why=('%s moves by exactly one per iteration towards a value the loop does not change, starts on the near side of it, and the loop is left '
                         'when the two are equal' % body.local_name(l)) if entry_ok else
                        ('%s is not shown to start on the near side of the value the exit test compares it with (the walk could miss it)' % body.local_name(l))))
            if not entry_ok:
                return
            ty = L.ty
            if dirn == 'dec':
                self.assume_le(st, bound, L)
                self.assume_le(st, L, l0)
                it = IterV('range', 'std::ops::RangeInclusive<%s>' % ty, (bound, l0, True), ops=(('rev',),))
            else:
                self.assume_le(st, L, bound)
                self.assume_le(st, l0, L)
                it = IterV('range', 'std::ops::RangeInclusive<%s>' % ty, (l0, bound, True), ops=())
            st.vn[('itersym', L.sym)] = it
            self.loop_counters.setdefault((fr.func, head), set()).add(l)
            st.vn[('counter', fr.uid, head)] = dict(local=l, elem=L, dir=dirn, step=1, lo=it.args[0], hi=it.args[1], incl=True)
            st.vn[('counter-desc', fr.uid, head)] = ('range', it.args[0], it.args[1], True, tuple(o[0] for o in it.ops))
            return
        for l, (dirn, step, least) in cinfo['mono'].items():
            L = st.store.get(('L', fr.uid, l))
            l0 = pre.get(l)
            if not (isinstance(L, NumV) and isinstance(l0, NumV)):
                continue
            if dirn == 'inc':
                self.assume_le(st, l0, L)
            else:
                self.assume_le(st, L, l0)
        def cur_num(l, kind):
            v = st.store.get(('L', fr.uid, l))
            if kind == 'opt':
                if not (isinstance(v, EnumV) and v.ty.startswith('std::option::Option<')):
                    return None
                try:
                    v = self.read(st, (('L', fr.uid, l), (('v', 1), ('f', '0', v.ty[len('std::option::Option<'):-1]))))
                except Exception:
                    return None
            return v if isinstance(v, NumV) else None

        def pre_num(l, kind):
            v = pre.get(l)
            if kind == 'opt':
                if not (isinstance(v, EnumV) and set(v.tags) == {1} and v.payload.get(1) is not None):
                    return None
                v = v.payload[1].fields.get('0')
            return v if isinstance(v, NumV) else None
        kept = {}
        for ((kind, l), rel, e, c) in cinfo.get('bounds', []):
            v0, v = pre_num(l, kind), cur_num(l, kind)
            if v0 is None or v is None:
                continue
            b = NumV(e, c, v.ty)
            if rel == 'ge' and self.prove_le(st, b, v0) is True:
                self.assume_le(st, b, v)
                kept.setdefault((kind, l, 'ge'), []).append((e, c))
            elif rel == 'le' and self.prove_le(st, v0, b) is True:
                self.assume_le(st, v, b)
                kept.setdefault((kind, l, 'le'), []).append((e, c))
        for l, (dirn, last, has_none) in cinfo.get('opt', {}).items():
            v0, v = pre_num(l, 'opt'), cur_num(l, 'opt')
            if v0 is None or v is None:
                continue
            if dirn == 'dec':
                self.assume_le(st, v, v0)
            else:
                self.assume_le(st, v0, v)
            gi = cinfo.get('ginfo')
            if not (gi is not None and gi[1] == l and has_none and v.sym is not None and v.k == 0):
                continue
            # the walk: from the entry payload, by ones, down (up) to the bound at which the state becomes None
            for (e, c) in kept.get(('opt', l, 'ge' if dirn == 'dec' else 'le'), []):
                if e in last and ((dirn == 'dec' and last[e] <= c) or (dirn == 'inc' and last[e] >= c)):
                    end = NumV(e, c, v.ty)
                    if dirn == 'dec':
                        it = IterV('range', 'std::ops::RangeInclusive<%s>' % v.ty, (end, v0, True), ops=(('rev',),))
                    else:
                        it = IterV('range', 'std::ops::RangeInclusive<%s>' % v.ty, (v0, end, True), ops=())
                    st.vn[('itersym', v.sym)] = it
                    self.loop_counters.setdefault((fr.func, head), set()).add(l)
                    st.vn[('counter', fr.uid, head)] = dict(local=l, elem=v, dir=dirn, step=1, lo=it.args[0], hi=it.args[1], incl=True)
                    st.vn[('counter-desc', fr.uid, head)] = ('range', it.args[0], it.args[1], True, tuple(o[0] for o in it.ops))
                    break
        g = cinfo.get('guard')
        if not g:
            return
        op, l, off, bound = g
        m = cinfo['mono'].get(l)
        L = st.store.get(('L', fr.uid, l))
        l0 = pre.get(l)
        if not m or m[1] is None or off != 0 or not (isinstance(L, NumV) and isinstance(l0, NumV)) or L.sym is None or L.k != 0:
            return
        dirn, step, least = m
        ty = L.ty
        if dirn == 'inc' and op in ('lt', 'le'):
            ops = () if step == 1 else (('step_by', NumV(None, step, 'usize')),)
            it = IterV('range', 'std::ops::Range<%s>' % ty, (l0, bound, op == 'le'), ops=ops)
            elem = L
        elif dirn == 'dec' and step == 1 and op == 'ge':
            it = IterV('range', 'std::ops::RangeInclusive<%s>' % ty, (bound, l0, True), ops=(('rev',),))
            elem = L
        elif dirn == 'dec' and step == 1 and op == 'gt':
            # the body runs for head values bound+1 ..= l0: the element is the head value less one
            e = fresh_sym(body.local_name(l) + '@elem')
            st.zone.add(Z, e, 1)                      # e >= -1
            elem = NumV(e, 0, ty)
            st.store[('L', fr.uid, l)] = NumV(e, 1, ty)
            self.assume_le(st, NumV(e, 1, ty), l0)
            rlo, rhi = INT_RANGES.get(ty, (None, None))
            if rhi is not None:
                st.zone.add(e, Z, rhi - 1)
            it = IterV('range', 'std::ops::Range<%s>' % ty, (bound, l0, False), ops=(('rev',),))
        else:
            return
        st.vn[('itersym', elem.sym)] = it
        self.loop_counters.setdefault((fr.func, head), set()).add(l)
        st.vn[('counter', fr.uid, head)] = dict(local=l, elem=elem, dir=dirn, step=step, lo=it.args[0], hi=it.args[1], incl=it.args[2])
        st.vn[('counter-desc', fr.uid, head)] = ('range', it.args[0], it.args[1], bool(it.args[2]), tuple(o[0] for o in it.ops))

    def exit_edges(self, body):
        """{(src, dst): [loop heads]}: edges that leave a loop elsewhere than at its head test"""
        ee = getattr(body, '_exit_edges', None)
        if ee is not None:
            return ee
        ee = {}
        loops = body.loops()[0]
        for h, blocks in loops.items():
            hs = [x for x in body.succs(h) if not body.blocks[x].get('cleanup')]
            ok_src = {h}
            gc = self.guard_chain(body, h, blocks)
            if gc:
                ok_src |= set(gc[0])
            elif body.blocks[h]['term']['k'] == 'call' and len(hs) == 1 and body.blocks[hs[0]]['term']['k'] == 'switch':
                ok_src.add(hs[0])
            for b in blocks:
                if b in ok_src:
                    continue
                for s2 in body.succs(b):
                    if s2 not in blocks and not body.blocks[s2].get('cleanup') and body.blocks[s2]['term']['k'] != 'unreachable':
                        ee.setdefault((b, s2), []).append(h)
        try:
            body._exit_edges = ee
        except Exception:
            pass
        return ee

    def classify_exit(self, st, fr, bi, nb):
        """an edge that leaves a loop from the middle of its body: is it taken only when the element in
        hand is the last one of the range the loop counts through?"""
        ee = self.exit_edges(fr.body)
        hs = ee.get((bi, nb))
        if not hs:
            return
        for h in hs:
            ci = st.vn.get(('counter', fr.uid, h))
            final = False
            if ci:
                e = ci['elem']
                if ci['dir'] == 'inc':
                    nxt = NumV(e.sym, e.k + ci['step'], e.ty)
                    final = self.prove_cmp(st, 'lt' if ci['incl'] else 'le', ci['hi'], nxt) is True
                else:
                    final = self.prove_le(st, e, ci['lo']) is True
            self.exit_class.setdefault((fr.func, h, bi, nb), set()).add(bool(final))
            if final:
                for hk in self.hooks:
                    hk('backedge', st.fork(), fr, h)


class DiscrV(V):
    """discriminant of the enum stored at `path` (not yet decided)"""
    __slots__ = ('path', 'tags')

    def __init__(self, path, tags):
        self.path, self.tags = path, tags

    def __repr__(self):
        return 'discr(%s)' % path_str(self.path)

    def key(self):
        return ('d', pkey(self.path))


class CallCtx:
    """what a summary sees"""
    __slots__ = ('eng', 'st', 'fr', 'bi', 't', 'fn', 'callee', 'args', 'depth')

    def __init__(self, eng, st, fr, bi, t, fn, callee, args, depth):
        self.eng, self.st, self.fr, self.bi, self.t = eng, st, fr, bi, t
        self.fn, self.callee, self.args, self.depth = fn, callee, args, depth

    @property
    def ret_ty(self):
        d = self.t.get('dest')
        return d['ty'] if d else '?'

    def oblige(self, kind, desc, ok, facts=''):
        if self.fr is None:
            return ok
        return self.eng.obligation(self.st, self.fr, self.bi, kind, desc, self.t['span'], ok, facts)


def elem_type(ty, kind):
    t = ty
    inner = strip_ref(t)
    if inner is not None:
        t = inner
    if t.startswith('['):
        m = re.match(r'^\[(.*?)(; \d+)?\]$', t)
        if m:
            return m.group(1)
    head, args = split_generic(t)
    if head == 'std::vec::Vec' and args:
        return args[0]
    if head in ('std::collections::HashMap', 'std::collections::BTreeMap') and len(args) >= 2:
        return args[1]
    if head in ('std::collections::HashSet', 'std::collections::BTreeSet') and args:
        return args[0]
    return '?'
