"""Zone (difference-bound) numeric domain over integer symbols.

A constraint is  a - b <= c  with a, b symbols or the zero symbol Z.  The
store is kept closed incrementally (O(n^2) per added constraint).  It is the
numeric half of engine E4 (DESIGN.md section 3): my own decision procedure for
this tiny theory, no solver involved.
"""

Z = 0  # the zero symbol
INF = float('inf')


class Zone:
    __slots__ = ('d', 'syms', 'bottom')

    def __init__(self):
        self.d = {}          # (a, b) -> c   meaning a - b <= c
        self.syms = {Z}
        self.bottom = False

    def copy(self):
        z = Zone.__new__(Zone)
        z.d = dict(self.d)
        z.syms = set(self.syms)
        z.bottom = self.bottom
        return z

    def get(self, a, b):
        if a == b:
            return 0
        return self.d.get((a, b), INF)

    def add(self, a, b, c):
        """assert a - b <= c ; returns False when the store becomes infeasible"""
        if self.bottom:
            return False
        if a == b:
            if c < 0:
                self.bottom = True
                return False
            return True
        self.syms.add(a)
        self.syms.add(b)
        if self.get(a, b) <= c:
            return True
        # infeasible?
        if self.get(b, a) + c < 0:
            self.bottom = True
            return False
        d = self.d
        syms = self.syms
        # incremental closure: for all i, j: d[i,j] = min(d[i,j], d[i,a] + c + d[b,j])
        ia = [(i, self.get(i, a)) for i in syms]
        bj = [(j, self.get(b, j)) for j in syms]
        for i, x in ia:
            if x == INF:
                continue
            xc = x + c
            for j, y in bj:
                if y == INF or i == j:
                    continue
                v = xc + y
                if v < d.get((i, j), INF):
                    d[(i, j)] = v
        # negative cycle check on the pair
        for s in syms:
            pass
        return True

    # convenience -----------------------------------------------------
    def upper(self, a):
        """least known upper bound of symbol a (a - Z <= c)"""
        return self.get(a, Z)

    def lower(self, a):
        """greatest known lower bound (Z - a <= c  ->  a >= -c)"""
        c = self.get(Z, a)
        return -c if c != INF else -INF

    def diff_upper(self, a, b):
        return self.get(a, b)

    def forget(self, a):
        if a == Z:
            return
        self.syms.discard(a)
        for k in [k for k in self.d if k[0] == a or k[1] == a]:
            del self.d[k]
