"""Engine E2: values of `lazy_static` tables, obtained by interpreting their
initialiser bodies with E4 in constant mode (loops over constant ranges and
constant arrays are unrolled; every operand is a constant, so the abstract
value of the table is its concrete contents)."""
from .values import CollV, NumV, StrV, CharV, OpaqueV


def static_value(eng, name):
    cache = eng.__dict__.setdefault('static_cache', {})
    if name in cache:
        return cache[name]
    init = '<%s as std::ops::Deref>::deref::__static_ref_initialize' % name
    if init not in eng.prog.bodies:
        v = OpaqueV('static:' + name, name)
        cache[name] = v
        return v
    from .engine import Engine, State
    sub = Engine(eng.prog, eng.effects, config=dict(eng.cfg, unroll=True, check_inv=False, max_steps=30000))
    sub.static_cache = cache
    sub.entry_name = 'static ' + name
    st = State()
    from .engine import Budget
    try:
        res = sub.exec_body(st, init, [])
    except Budget as e:
        res = []
        eng.__dict__.setdefault('static_errors', {})[name] = str(e)
    if len(res) != 1:
        v = OpaqueV('static:' + name, name, prov=('paths', len(res)))
    else:
        v = res[0][1]
        if isinstance(v, CollV):
            v = v.evolve(prov=('static', name.split('::')[-1]))
    # obligations met while evaluating the initialiser belong to the outer run as well
    for k, ob in sub.oblig.items():
        if k not in eng.oblig:
            eng.oblig[k] = ob
        else:
            eng.oblig[k].visits += ob.visits
            eng.oblig[k].fails.extend(ob.fails)
    eng.__dict__.setdefault('static_unknown', {}).update(sub.summ.unknown_seen)
    for f, bl in sub.visited_blocks.items():
        eng.visited_blocks.setdefault(f, set()).update(bl)
    for k2, n2 in sub.summ.used.items():
        eng.summ.used[k2] = eng.summ.used.get(k2, 0) + n2
    cache[name] = v
    return v


def plain(v):
    """python value of a constant abstract value (None if not constant)"""
    if isinstance(v, NumV) and v.sym is None:
        return v.k
    if isinstance(v, StrV) and v.known is not None:
        return v.known
    if isinstance(v, CharV) and v.known is not None:
        return v.known
    if isinstance(v, CollV) and v.known is not None:
        if v.kind == 'map':
            out = {}
            for k, x in v.known:
                pk, px = plain(k), plain(x)
                if pk is None:
                    return None
                out[pk] = px
            return out
        return [plain(x) for x in v.known]
    return None
