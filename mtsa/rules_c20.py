"""C20: character-set translation (G0/G1, SO/SI, DEC graphics, CP437)."""
import json
import os

from . import inv, rules_c03 as r3, rules_grid as g, runner
from .ctx import CLOSURE
from .engine import Budget, Engine, State
from .model import short
from .report import VERIF
from .rules_common import LP, each_final, ep, get
from .tables import plain, static_value
from .values import CharV, ClosureV, CollV, EnumV, NumV, RefV, StrV, StructV


def load_ref():
    return json.load(open(os.path.join(VERIF, 'reference', 'charsets.json')))


def table_of(v):
    """list of code points of an abstract [char; 256] value, or None"""
    if isinstance(v, CollV) and v.known is not None and all(isinstance(x, CharV) and x.known is not None for x in v.known):
        return [ord(x.known) for x in v.known]
    return None


def which(ref, t):
    for name in ('LAT1_MAP', 'VT100_MAP', 'IBMPC_MAP', 'VAX42_MAP'):
        if t == ref[name]:
            return name
    return None


def run(ctx, chk):
    chk.assume('A-GEN', 'A-LIB', 'A-TOOL', 'A-PUB')
    prog = ctx.prog
    ref = load_ref()
    # ---- D1 R-CONST: 4 x 256 entries ------------------------------------------------
    n = 0
    for name in ('LAT1_MAP', 'VT100_MAP', 'IBMPC_MAP', 'VAX42_MAP'):
        c = prog.consts.get('charset::' + name)
        if c is None:
            chk.instance('R-CONST', 'charset::' + name, 'exists', False, what='table %s not found' % name, undischarged=True)
            continue
        v = c['value']
        got = [x.get('char') if isinstance(x, dict) else None for x in v] if isinstance(v, list) else None
        if got is None or len(got) != 256:
            chk.instance('R-CONST', 'charset::' + name, 'length', False, detail='evaluated value %s' % str(v)[:80], span=c['span'],
                         what='table %s is not a 256-entry character table' % name)
            continue
        diffs = [(i, got[i], ref[name][i]) for i in range(256) if got[i] != ref[name][i]]
        n += 256
        chk.instance('R-CONST', 'charset::' + name, 'all 256 entries', not diffs,
                     detail=('%d entries differ, e.g. 0x%02x is U+%04X, published U+%04X' % (len(diffs), diffs[0][0], diffs[0][1] or 0, diffs[0][2])) if diffs
                     else '256 entries equal the published table', span=c['span'],
                     what='table %s: %s' % (name, ', '.join('0x%02x=U+%04X (published U+%04X)' % (i, g or 0, r) for i, g, r in diffs[:4])))
    chk.cov['table_entries_compared'] = n
    chk.floor('table entries compared', n, 1024)
    # MAPS
    eng0 = ctx.new_engine()
    mv = static_value(eng0, 'charset::MAPS')
    maps_ok = False
    got = {}
    if isinstance(mv, CollV) and mv.known is not None:
        for k, v in mv.known:
            if isinstance(k, StrV) and k.known is not None:
                got[k.known] = which(ref, table_of(v))
        maps_ok = got == ref['MAPS']
    chk.instance('R-TABLE', 'charset::MAPS', 'designator -> table', maps_ok, detail='extracted %s, documented %s' % (got, ref['MAPS']),
                 what='MAPS maps %s, documented %s' % (got, ref['MAPS']))

    # ---- D2 state: reset / shift / define_charset -----------------------------------
    sr = ctx.screen_run()
    eng = sr['engine']
    for f in (ep('reset'), 'screen::Screen::new'):
        bad = []
        cnt = 0
        for r, st, ret in each_final(sr, f):
            s2 = st
            if f.endswith('::new'):
                if not isinstance(ret, StructV):
                    bad.append('no Screen returned')
                    continue
                s2 = st.fork()
                s2.store[inv.S_ROOT] = ret
            cnt += 1
            cs = get(eng, s2, 'charset')
            g0 = which(ref, table_of(get(eng, s2, 'g0_charset')))
            g1 = which(ref, table_of(get(eng, s2, 'g1_charset')))
            if not (isinstance(cs, EnumV) and cs.tags == {0}):
                bad.append('active set %r (documented G0)' % (cs,))
            if g0 != 'LAT1_MAP' or g1 != 'VT100_MAP':
                bad.append('G0=%s G1=%s (documented Latin-1 / DEC graphics)' % (g0, g1))
        chk.instance('R-STATE', short(f), 'power-on charset state', cnt > 0 and not bad, detail='; '.join(sorted(set(bad))) or '%d exit states' % cnt,
                     span=prog.bodies[f].span, what='initial charset state: ' + '; '.join(sorted(set(bad))))
    for meth, tag in (('shift_out', 1), ('shift_in', 0)):
        f = ep(meth)
        w = ctx.eff.maywrite.get(f)
        bad = []
        for r, st, ret in each_final(sr, f):
            cs = get(eng, st, 'charset')
            if not (isinstance(cs, EnumV) and cs.tags == {tag}):
                bad.append('active set %r' % (cs,))
        chk.instance('R-STATE', short(f), 'selects G%d and writes nothing else' % tag, w == {('charset',)} and not bad,
                     detail='may-write %s; %s' % (sorted(w or []), bad[:1]), span=prog.bodies[f].span,
                     what='%s: may-write %s %s' % (meth, sorted(w or []), bad[:1]))
    # define_charset decision table
    f = ep('define_charset')
    w = ctx.eff.maywrite.get(f)
    chk.instance('R-FRAME', short(f), 'writes only g0_charset / g1_charset', w is not None and w <= {('g0_charset',), ('g1_charset',)},
                 detail='may-write %s' % sorted(w or []), what='define_charset writes %s' % sorted(w or []))
    nd = 0
    for code in ('B', '0', 'U', 'V', 'A', 'K', '1', '', 'BB'):
        for mode in ('(', ')', '*', ''):
            e2 = Engine(prog, ctx.eff, config=dict(max_steps=100000, check_inv=False))
            st = State()
            inv.screen_init(e2, st)
            # distinguishable initial tables
            e2.entry_name = 'define_charset(%r, %r)' % (code, mode)
            try:
                res = e2.exec_body(st, f, [RefV((inv.S_ROOT, ()), True), StrV(code), StrV(mode)])
            except Budget as ex:
                chk.instance('R-DISPATCH', short(f), 'code %r mode %r' % (code, mode), False, detail=str(ex), undischarged=True)
                continue
            probs = []
            for (s2, ret) in res:
                writes = {}
                for ev in s2.event_list():
                    if ev[0] == 'w' and ev[1] and ev[1][0] in ('g0_charset', 'g1_charset'):
                        writes[ev[1][0]] = which(ref, table_of(ev[2])) or 'unknown table'
                want = {}
                if code in ref['MAPS'] and mode == '(':
                    want = {'g0_charset': ref['MAPS'][code]}
                elif code in ref['MAPS'] and mode == ')':
                    want = {'g1_charset': ref['MAPS'][code]}
                if writes != want:
                    probs.append('installs %s, documented %s' % (writes, want))
            nd += 1
            chk.instance('R-DISPATCH', short(f), 'code %r mode %r' % (code, mode), bool(res) and not probs, detail='; '.join(probs) or 'as documented',
                         span=prog.bodies[f].span, what='define_charset(%r, %r): %s' % (code, mode, '; '.join(probs)))
    chk.floor('define_charset table entries', nd, 30)

    # ---- D3 draw translates code points <= 255 through the active table ---------------
    translate(ctx, chk, ref)
    # bytes reach draw() as the code points of the same value in 8-bit mode (otherwise 0x80..0xff would
    # never be looked up in the table at all): the 8-bit clause of C11
    from .rules_c02 import r_stream
    r_stream(ctx, chk, 'C20', only_8bit=True)

    # ---- D4 R-FSM: designators and shifts reach the screen iff not UTF-8 --------------
    tables = r3.dispatch_tables(ctx, chk, quiet=True)
    r3.run_fsm(ctx, chk, tables, focus='charset')
    chk.trust('rustc const evaluation of the four tables', 'reference/charsets.json (provenance inside)')


def translate(ctx, chk, ref):
    """draw() applied abstractly to a one-character string under each (active set, tables)
    combination: every cell it stores on the width-1 / width-2 paths must hold the character the
    active table maps the input to (code points above 255 unchanged).  The character width is left
    symbolic, so all width paths are explored; the function is analysed as a whole, whatever shape
    the translation code has."""
    prog = ctx.prog
    draw = ep('draw')
    body = prog.bodies.get(draw)
    if body is None:
        chk.instance('R-TRANSLATE', 'Screen::draw', 'draw found', False, what='Screen::draw not found', undischarged=True)
        return
    from .rules_screen import closures_of
    scope = closures_of(ctx, {draw})      # draw, its closures and its private helpers
    n = 0
    for active in (0, 1):
        for (g0n, g1n) in (('IBMPC_MAP', 'VT100_MAP'), ('LAT1_MAP', 'VAX42_MAP')):
            cps = (0x21, 0x41, 0x5f, 0x60, 0x6a, 0x71, 0x7e, 0x80, 0xa3, 0xdb, 0xe9, 0xff, 0x100, 0x2502, 0x4e2d, 0x1f600)
            if ctx.tier == 'thorough':
                cps = tuple(range(0x20, 0x7f)) + tuple(range(0xa0, 0x100)) + (0x80, 0x9b, 0x100, 0x2502, 0x4e2d, 0x1f600)
            for cp in cps:
                eng = Engine(prog, ctx.eff, config=dict(max_steps=200000, check_inv=False))
                st = State()
                inv.screen_init(eng, st)
                scr = st.store[inv.S_ROOT]
                mk = lambda name: CollV('array', '[char; 256]', name, length=NumV(None, 256, 'usize'),
                                        known=tuple(CharV(chr(x)) for x in ref[name]))
                scr = scr.with_field('g0_charset', mk(g0n)).with_field('g1_charset', mk(g1n))
                scr = scr.with_field('charset', EnumV('screen::Charset', {active}, {0: StructV('G0', {}), 1: StructV('G1', {})}))
                st.store[inv.S_ROOT] = scr
                stored = []

                def ehook(c, ev, stored=stored):
                    if ev[0] == 'map.insert' and len(ev) > 3 and isinstance(ev[3], StructV) and ev[3].ty.endswith('CharOpts') and c.fr is not None and c.fr.func in scope \
                            and g.own_stack(prog, c.st.stack, draw):
                        if c.st.vn.get('ins-absent') and g.is_default_char(c.eng, c.st, ev[3])[0]:
                            return      # an absent cell materialised with the blank it stands for: nothing is drawn
                        d = ev[3].fields.get('data')
                        stored.append(d.known if isinstance(d, StrV) else None)
                eng.event_hook = ehook
                measured = []

                def whook(kind, st_, fr_, bi_, *a, measured=measured):
                    if kind == 'width' and fr_ is not None and fr_.func in scope:
                        ch = a[0]
                        measured.append(ch.known if isinstance(ch, CharV) else None)
                    return None
                eng.hooks = [whook]
                eng.entry_name = 'draw(%r) active=G%d' % (chr(cp), active)
                label = 'U+%04X active G%d (G0=%s G1=%s)' % (cp, active, g0n, g1n)
                try:
                    res = eng.exec_body(st, draw, [RefV((inv.S_ROOT, ()), True), StrV(chr(cp))])
                except Budget as ex:
                    chk.instance('R-TRANSLATE', short(draw), label, False, detail=str(ex), undischarged=True)
                    continue
                tbl = ref[g1n if active else g0n]
                want = tbl[cp] if cp <= 255 else cp
                seen = sorted({x for x in stored if x is not None and x != ''})
                unknown = sum(1 for x in stored if x is None)
                n += 1
                ok = bool(res) and seen == [chr(want)]
                # the width that decides how many cells are used is the width of the translated character
                wrong_w = sorted({x if x is not None else '?' for x in measured if x != chr(want)})
                if wrong_w:
                    ok = False
                chk.instance('R-TRANSLATE', short(draw), label, ok,
                             detail='cells stored hold %s (%d with text that is not a constant: combining paths), documented U+%04X' % (
                                 ['U+%04X' % ord(x) if len(x) == 1 else repr(x) for x in seen], unknown, want), span=body.span,
                             what=('drawing code point U+%04X with G%d active stores %s, documented U+%04X' % (
                                 cp, active, ['U+%04X' % ord(x) if len(x) == 1 else repr(x) for x in seen] or 'nothing decidable', want))
                             + ('; the cell width is taken from %s instead of the translated character' % wrong_w if wrong_w else ''))
    chk.floor('translation cases', n, 40)
