"""C02 (chunking independence) and C11 (streaming UTF-8 / 8-bit decoding): R-FOLD, R-STREAM,
the 8-bit homomorphism and the select_other_charset decision table."""
from . import inv, structural
from .ctx import BYTE_FNS, CLOSURE, PARSER_FNS
from .engine import Budget, Engine, State
from .model import short
from .values import BoolV, CollV, EnumV, NumV, OpaqueV, RefV, StrV, StructV, symname

PFEED = "parser::Parser::<'a, T>::feed"
BFEED = "byte_parser::ByteParser::<'a, T>::feed"
BNEW = "byte_parser::ByteParser::<'a, T>::new"
BSEL = "byte_parser::ByteParser::<'a, T>::select_other_charset"


def cname(prog, t):
    fn = t['func'].get('fn') if t['func']['k'] == 'const' else None
    return (fn.get('resolved') or fn['path']) if fn else None


def r_fold(ctx, chk):
    """Parser::feed is a fold over the characters of `data`: one loop over data.chars(), nothing with an
    effect outside the loop, the loop body never looks at `data` again"""
    prog = ctx.prog
    body = prog.bodies.get(PFEED)
    if body is None:
        chk.instance('R-FOLD', 'Parser::feed', 'exists', False, what='Parser::feed not found', undischarged=True)
        return
    loops, back, idom, preds = body.loops()
    if len(loops) == 0 and r_fold_for_each(ctx, chk, body):
        return
    chk.instance('R-FOLD', 'Parser::feed', 'single loop', len(loops) == 1, detail='%d loops' % len(loops), span=body.span,
                 what='Parser::feed must consist of exactly one loop over the input characters (found %d loops)' % len(loops))
    if len(loops) != 1:
        return
    head, blocks = next(iter(loops.items()))
    ht = body.blocks[head]['term']
    hname = cname(prog, ht) if ht['k'] == 'call' else None
    recv_ty = ht['args'][0]['place']['ty'] if ht['k'] == 'call' and ht['args'] else ''
    ok = bool(hname) and hname.endswith('::next') and ('Chars' in recv_ty or 'CharIndices' in recv_ty)
    chk.instance('R-FOLD', 'Parser::feed', 'loop iterates the characters', ok, detail='head calls %s on %s' % (hname, recv_ty), span=ht['span'],
                 what='the loop of Parser::feed is not an iteration over a character iterator (%s on %s)' % (hname, recv_ty))
    # the iterator comes from data.chars()
    outside_calls = []
    src_ok = False
    for bi, t in prog.calls(body):
        if bi in blocks:
            continue
        n = cname(prog, t) or '?'
        outside_calls.append(n)
        if n.endswith('<impl str>::chars') or n.endswith('<impl str>::char_indices'):
            src_ok = True
    # outside the loop only effect-free library calls are allowed: nothing of this crate (state
    # machine, listener, helpers with `self`), no coroutine resumption, no lock
    def effectful(n):
        kind_, _c = ('local', n) if n in prog.bodies else ('lib', n)
        return kind_ == 'local' or any(x in n for x in ('generator::', 'Gn::', '::send', '::resume', 'Mutex', '::lock', 'ParserListener'))
    extra = [n for n in outside_calls if effectful(n)]
    chk.instance('R-FOLD', 'Parser::feed', 'nothing with an effect outside the loop', src_ok and not extra,
                 detail='calls outside the loop: %s' % outside_calls, span=body.span,
                 what='calls outside the character loop: %s (only the iterator set-up over data.chars() is allowed)' % extra)
    # no store through self outside the loop, and the loop body does not use `data`
    stores = []
    uses_data = []
    data_local = 2
    for bi, bb in enumerate(body.blocks):
        if bb['cleanup']:
            continue
        for s in bb['stmts']:
            if s['k'] == 'assign':
                pl = s['place']
                if bi not in blocks and pl['local'] == 1 and any(e['k'] == 'deref' for e in pl['proj']):
                    stores.append(bi)
                if bi in blocks:
                    txt = repr(s['rv'])
                    if "'local': %d," % data_local in txt:
                        uses_data.append(bi)
    chk.instance('R-FOLD', 'Parser::feed', 'no state change outside the loop', not stores, detail='stores through self outside the loop: %s' % stores,
                 span=body.span, what='Parser::feed writes parser state outside its per-character loop (blocks %s)' % stores)
    if uses_data:
        # the body may take `&data[i..i + c.len_utf8()]` for the (i, c) the iterator just produced: that
        # is the current character again, not the rest of the chunk.  Decided by the engine (every such
        # index it saw at that line was recognised as the slice of one character at its own offset)
        pr_ = ctx.parser_run()
        evs_ = [ev for (st_, ret_) in (pr_['results'].get(PFEED) or []) for ev in st_.event_list()]
        evs_ += [ev for sg in pr_.get('segments', []) if sg['func'] == PFEED for ev in sg['st'].event_list()]
        cs = {ev[2] for ev in evs_ if ev[0] == 'char-slice' and ev[1] == PFEED}
        plain_ix = {ev[2] for ev in evs_ if ev[0] == 'str.index' and ev[1] == PFEED}
        still = []
        for bi in uses_data:
            t_ = body.blocks[bi]['term']
            nm = cname(prog, t_) if t_['k'] == 'call' else ''
            line = t_['span'].get('line') if t_['k'] == 'call' else None
            if nm and 'Index<' in nm and '::index' in nm and line in cs and line not in plain_ix:
                continue
            still.append(bi)
        uses_data = still
    chk.instance('R-FOLD', 'Parser::feed', 'loop body does not re-read data', not uses_data, detail='blocks %s' % uses_data, span=body.span,
                 what='the loop body of Parser::feed looks at the whole chunk again (blocks %s): the result could depend on the chunking' % uses_data)
    # empty chunk: zero iterations -> nothing happens (follows from the three clauses above)


def r_fold_for_each(ctx, chk, body):
    """the same fold written `data.chars().for_each(|c| ..)`: one for_each over the character iterator of
    `data`, its closure does not capture `data`, nothing with an effect and no store through self outside it"""
    prog = ctx.prog
    fe = [(bi, t) for bi, t in prog.calls(body) if (cname(prog, t) or '').endswith('Iterator::for_each')]
    if len(fe) != 1:
        return False
    bi, t = fe[0]
    recv_ty = t['args'][0]['place']['ty'] if t['args'] and t['args'][0].get('place') else ''
    clos = [c for c in prog.closures_of.get(PFEED, [])]
    cty = t['args'][1]['place']['ty'] if len(t['args']) > 1 and t['args'][1].get('place') else ''
    mine = [c for c in clos if c.split('::')[-1] in cty or cty.endswith(c.split('::')[-1] + ']')]
    chk.instance('R-FOLD', 'Parser::feed', 'single loop', True, detail='one for_each over %s' % recv_ty, span=body.span)
    ok = 'Chars' in recv_ty or 'CharIndices' in recv_ty
    chk.instance('R-FOLD', 'Parser::feed', 'loop iterates the characters', ok, detail='for_each on %s' % recv_ty, span=t['span'],
                 what='the for_each of Parser::feed is not over a character iterator (%s)' % recv_ty)
    outside_calls = [cname(prog, t2) or '?' for b2, t2 in prog.calls(body) if b2 != bi]
    src_ok = any(n.endswith('<impl str>::chars') or n.endswith('<impl str>::char_indices') for n in outside_calls)

    def effectful(n):
        return n in prog.bodies or any(x in n for x in ('generator::', 'Gn::', '::send', '::resume', 'Mutex', '::lock', 'ParserListener'))
    extra = [n for n in outside_calls if effectful(n)]
    chk.instance('R-FOLD', 'Parser::feed', 'nothing with an effect outside the loop', src_ok and not extra,
                 detail='calls outside the per-character closure: %s' % outside_calls, span=body.span,
                 what='calls outside the per-character closure: %s (only the iterator set-up over data.chars() is allowed)' % extra)
    stores = []
    for b2, bb in enumerate(body.blocks):
        if bb['cleanup']:
            continue
        for s_ in bb['stmts']:
            if s_['k'] == 'assign' and s_['place']['local'] == 1 and any(e['k'] == 'deref' for e in s_['place']['proj']):
                stores.append(b2)
    chk.instance('R-FOLD', 'Parser::feed', 'no state change outside the loop', not stores, detail='stores through self outside the closure: %s' % stores,
                 span=body.span, what='Parser::feed writes parser state outside its per-character closure (blocks %s)' % stores)
    caps = []
    for c in clos:
        cb = prog.bodies.get(c)
        for u in (cb.j.get('upvars', []) if cb is not None else []):
            if 'data' in u.get('name', '').replace('*', '').split('.')[:1] or u.get('name', '').strip('*&() ') == 'data':
                caps.append((c.split('::')[-1], u.get('name')))
    chk.instance('R-FOLD', 'Parser::feed', 'loop body does not re-read data', not caps, detail='captures of the chunk: %s' % caps, span=body.span,
                 what='the per-character closure of Parser::feed captures the whole chunk (%s): the result could depend on the chunking' % caps)
    return True


def bytes_as_code_points(eng, st, a, pr=None):
    """is the string `a` exactly `data.iter().map(f).collect()` with f(b) = the char whose code point
    is b, decided on the abstract value: the iterator source is the `data` slice, the adaptors are
    copies and one map, and the map closure applied to an arbitrary byte b returns char(b)"""
    from .values import CharV, ClosureV, IterV
    if isinstance(a, StrV) and isinstance(a.prov, tuple) and a.prov and a.prov[0] == 'loopvar':
        return pushed_code_points(eng, st, a, pr)
    if not (isinstance(a, StrV) and isinstance(a.prov, tuple) and a.prov and a.prov[0] == 'collect' and len(a.prov) > 3 and isinstance(a.prov[3], IterV)):
        return False, '8-bit text is not collected from an iterator over the chunk (%r)' % (a,)
    it = a.prov[3]
    if it.kind != 'coll' or it.args[0] is None:
        return False, 'iterator source is not a collection (%r)' % (it,)
    try:
        src = eng.read(st, it.args[0])
    except Exception:
        src = None
    if not (isinstance(src, CollV) and isinstance(src.length, NumV) and 'data' in symname(src.length.sym or 0)):
        return False, 'the 8-bit text is not built from the `data` chunk itself (%r)' % (src,)
    maps = [o for o in it.ops if o[0] == 'map']
    other = [o[0] for o in it.ops if o[0] not in ('map', 'cloned')]
    if other or len(maps) != 1:
        return False, 'adaptor chain %s is not a single element-wise map' % [o[0] for o in it.ops]
    s = st.fork()
    b = eng.fresh_num(s, 'u8', 0, 255, name='byte')
    x = b
    mode = it.args[2]
    if mode != 'val':
        root = ('H', 'probe-byte')
        s.store[root] = b
        x = RefV((root, ()))
    for o in it.ops:
        if o[0] == 'cloned':
            x = eng.read(s, x.path) if isinstance(x, RefV) else x
        else:
            break
    hooks = eng.hooks
    eng.hooks = []
    try:
        res = eng.call_value(s, maps[0][1], [x], 0)
    except Exception as ex:
        return False, 'mapping closure could not be evaluated: %s' % ex
    finally:
        eng.hooks = hooks
    if not res:
        return False, 'mapping closure has no exit'
    for (s2, r) in res:
        if not isinstance(r, CharV):
            return False, 'mapping closure returns %r' % (r,)
        n = eng.char_num(s2, r)
        if eng.prove_cmp(s2, 'eq', n, NumV(b.sym, b.k, 'u32')) is not True:
            return False, 'mapping closure does not return the code point equal to the byte (returns %r for byte %r)' % (r, b)
    return True, 'every byte b is mapped to char(b)'


def pushed_code_points(eng, st, a, pr):
    """the same map written as a loop: `let mut s = String::new(); for b in data { s.push(char(b)) }`.
    The string is the variable a loop accumulates; it was empty on entry; the loop iterates the `data`
    chunk itself (copies only), can only be left when the iterator is exhausted, and every iteration
    pushes exactly one character whose code point is the element"""
    from .values import CharV
    from . import rules_grid as g
    _k, func, head, local, entry_known = a.prov
    if entry_known != '':
        return False, 'the accumulated text is not empty before the loop (%r)' % (entry_known,)
    body = eng.prog.bodies.get(func)
    if body is None or not g.loop_exits_only_at_head(body, head, eng, func):
        return False, 'the loop that builds the 8-bit text can be left early'
    desc = g.loop_desc_in(st.event_list(), func, head)
    if desc is None or desc[0] != 'coll' or any(o not in ('cloned',) for o in desc[4]):
        return False, 'the loop that builds the 8-bit text does not iterate a collection directly (%r)' % (desc,)
    try:
        src = eng.read(st, desc[1])
    except Exception:
        src = None
    if not (isinstance(src, CollV) and isinstance(src.length, NumV) and 'data' in symname(src.length.sym or 0)):
        return False, 'the loop that builds the 8-bit text does not iterate the `data` chunk itself (%r)' % (src,)
    segs = [sg for sg in (pr or {}).get('segments', []) if sg['func'] == func and sg['head'] == head]
    if not segs:
        return False, 'no iteration of the loop that builds the 8-bit text was analysed'
    target = ('_%d' % local,)
    for sg in segs:
        s2 = sg['st']
        pre, lev = g.seg_events(dict(sg, kind='backedge'))
        pushes = [ev for ev in lev if ev[0] in ('str.push', 'str.push_str') and ev[1] == target]
        others = [ev for ev in lev if ev[0] == 'w' and False]
        if len(pushes) != 1 or pushes[0][0] != 'str.push':
            return False, 'an iteration performs %d pushes on the text' % len(pushes)
        ch = pushes[0][2]
        d2 = g.loop_desc_in(s2.event_list(), func, head)
        el = s2.vn.get(('iterelem', d2[3])) if d2 is not None and d2[0] == 'coll' else None
        if not (isinstance(ch, CharV) and isinstance(el, NumV)):
            return False, 'pushed value %r / loop element %r' % (ch, el)
        n = eng.char_num(s2, ch)
        if eng.prove_cmp(s2, 'eq', n, NumV(el.sym, el.k, 'u32')) is not True:
            return False, 'the pushed character %r is not the code point equal to the byte %r' % (ch, el)
    return True, 'loop over data pushing char(b) for every byte b'


def r_stream(ctx, chk, prop, only_8bit=False):
    prog = ctx.prog
    pr = ctx.parser_run()
    eng = pr['engine']
    finals = pr['results'].get(BFEED)
    body = prog.bodies.get(BFEED)
    if finals is None or body is None:
        chk.instance('R-STREAM', 'ByteParser::feed', 'analysed', False, detail=str(pr['errors'].get(BFEED)), what='ByteParser::feed could not be analysed', undischarged=True)
        return
    if not only_8bit:
        chk.floor('ByteParser::feed exit paths', len(finals), 2)
    utf8_paths = 0
    raw_paths = 0
    probs_utf8 = []
    probs_raw = []
    for (st, ret) in finals:
        evs = st.event_list()
        dec = [e for e in evs if e[0] == 'decode']
        feeds = [e for e in evs if e[0] == 'localcall' and e[1] == PFEED]
        ps = st.store.get(('H', 'PS'))
        use = ps.fields.get('use_utf8') if isinstance(ps, StructV) else None
        utf8 = eng.eval_bool(st, use) if isinstance(use, BoolV) else None
        # the data parameter
        data_ref = None
        for k, v in st.store.items():
            pass
        if dec:
            utf8_paths += 1
            if utf8 is False:
                probs_utf8.append('decoder used although the parser is in 8-bit mode')
            if len(dec) != 1:
                probs_utf8.append('%d decoder calls on one path (documented: the chunk is handed to the streaming decoder exactly once)' % len(dec))
            d = dec[0]
            name = d[1]
            args = d[2]
            if 'Decoder::decode_to_' not in name:
                probs_utf8.append('%s is not a streaming decoder call: nothing can be carried over to the next feed' % name.split('::')[-1])
            else:
                last = args[3] if len(args) > 3 else None
                if not (isinstance(last, BoolV) and last.val is False):
                    probs_utf8.append('`last` argument is %r: an incomplete trailing sequence would be flushed as U+FFFD at every chunk end' % (last,))
                src = args[1] if len(args) > 1 else None
                srcv = eng.read(st, src.path) if isinstance(src, RefV) else None
                if not (isinstance(srcv, CollV) and isinstance(srcv.length, NumV) and 'data' in symname(srcv.length.sym or 0)):
                    probs_utf8.append('decoder input is not the `data` chunk itself (%r)' % (srcv,))
                # the output buffer has room for the whole chunk even if every byte is replaced by U+FFFD
                # (`decode_to_string` stops with OutputFull otherwise and the rest of the chunk is lost):
                # its capacity is the decoder's own with-replacement bound for data.len() bytes
                dstv = d[5] if len(d) > 5 else None
                cap = dstv.prov[1] if isinstance(dstv, StrV) and isinstance(dstv.prov, tuple) and dstv.prov and dstv.prov[0] == 'with_capacity' else None
                capdef = st.vn.get(('def', cap.sym)) if isinstance(cap, NumV) and cap.sym is not None else None
                if 'without_replacement' not in name:
                    if isinstance(capdef, tuple) and capdef[0] == 'max_utf8_len':
                        if capdef[1] != 'with_replacement':
                            probs_utf8.append('the output buffer is sized with max_utf8_buffer_length_without_replacement although malformed input is replaced by U+FFFD (3 bytes each): '
                                              'the decoder stops with OutputFull and the rest of the chunk is dropped')
                        elif not (isinstance(capdef[2], NumV) and isinstance(srcv, CollV) and isinstance(srcv.length, NumV) and eng.prove_cmp(st, 'eq', capdef[2], srcv.length) is True):
                            probs_utf8.append('the output buffer is sized for %r bytes, not for data.len()' % (capdef[2],))
                    elif isinstance(cap, NumV) and isinstance(srcv, CollV) and isinstance(srcv.length, NumV) and eng.prove_cmp(st, 'eq', cap, srcv.length) is True \
                            and any(k_[0] == 'max_utf8_opt' and st.vn.get(('tagof', k_[1])) == 0 for k_ in st.vn if isinstance(k_, tuple) and k_):
                        pass      # the bound overflowed (None): the fallback of the code under analysis, unchanged behaviour
                    else:
                        probs_utf8.append('the capacity of the output buffer (%r) is not the decoder\'s with-replacement bound for the chunk' % (cap,))
                # the decoder is a field of self (state carried between feeds)
                dref = args[0] if args else None
                if not (isinstance(dref, RefV) and any(e[0] == 'f' for e in dref.path[1])):
                    probs_utf8.append('decoder object is not a field of the ByteParser (no state carried between feeds)')
            if len(feeds) != 1:
                probs_utf8.append('%d calls of Parser::feed (documented: the decoded text is passed on exactly once)' % len(feeds))
            else:
                a = feeds[0][2][1] if len(feeds[0][2]) > 1 else None
                if not (isinstance(a, StrV) and a.prov == ('decoded',)):
                    probs_utf8.append('text passed to Parser::feed is not the decoder output (%r)' % (a,))
            # capacity: reserved from max_utf8_buffer_length
            caps = [symname(k[1]) for k in st.vn if isinstance(k, tuple) and k and k[0] == 'def' and False]
        else:
            raw_paths += 1
            if utf8 is True:
                probs_raw.append('no decoder call although the parser is in UTF-8 mode')
            if len(feeds) != 1:
                probs_raw.append('%d calls of Parser::feed on the 8-bit path' % len(feeds))
            else:
                a = feeds[0][2][1] if len(feeds[0][2]) > 1 else None
                okp, whyp = bytes_as_code_points(eng, st, a, pr)
                if not okp:
                    probs_raw.append(whyp)
    if not only_8bit:
      chk.instance('R-STREAM', 'ByteParser::feed', 'UTF-8 branch obeys the streaming-decoder protocol', utf8_paths > 0 and not probs_utf8,
                 detail='; '.join(sorted(set(probs_utf8))) or '%d UTF-8 paths: one decode_to_string(data, last=false) on a decoder field, output fed once' % utf8_paths,
                 span=body.span, what='; '.join(sorted(set(probs_utf8))) or 'no UTF-8 path found')
    chk.instance('R-STREAM', 'ByteParser::feed', '8-bit branch is an element-wise byte -> code point map', raw_paths > 0 and not probs_raw,
                 detail='; '.join(sorted(set(probs_raw))) or '%d 8-bit paths; the text fed is data.iter().map(f).collect() and f(b) = char(b) for an arbitrary byte b' % raw_paths, span=body.span,
                 what='; '.join(sorted(set(probs_raw))))
    if only_8bit:
        return
    # decoder constructed only in new / select_other_charset
    ctor_sites = []
    sniffing = []
    for f, b in prog.bodies.items():
        for bi, t in prog.calls(b):
            n = cname(prog, t) or ''
            if 'encoding_rs::Encoding::new_decoder' in n:
                ctor_sites.append(f)
                if not (n.endswith('new_decoder_with_bom_removal') or n.endswith('new_decoder_without_bom_handling')):
                    sniffing.append((short(f), n.split('::')[-1], t['span'].get('line')))
    # .. and it never sniffs a byte-order mark: `new_decoder()` / `.._with_bom_handling()` turn the
    # decoder into a UTF-16 one when the stream starts with FF FE / FE FF
    chk.instance('R-STREAM', 'ByteParser', 'the decoder does not sniff a byte-order mark', bool(ctor_sites) and not sniffing,
                 detail=str(sniffing) if sniffing else 'constructors used: with_bom_removal / without_bom_handling only',
                 what='a decoder built with %s switches to UTF-16 when the input starts with FF FE or FE FF: the bytes are no longer decoded as UTF-8' % (
                     ', '.join('%s in %s (line %s)' % (c_, f_, l_) for f_, c_, l_ in sniffing)))
    bad = [f for f in ctor_sites if f not in (BNEW, BSEL)]
    chk.instance('R-STREAM', 'ByteParser', 'decoder constructed only at construction / mode switch', bool(ctor_sites) and not bad,
                 detail='constructed in %s' % sorted(short(f) for f in set(ctor_sites)),
                 what='the streaming decoder is re-created in %s: carried bytes are lost' % sorted(short(f) for f in bad) if bad else 'no streaming decoder is constructed anywhere')
    # no whole-buffer decoding anywhere in the byte parser
    whole = []
    for f in BYTE_FNS:
        b = prog.bodies.get(f)
        if not b:
            continue
        for bi, t in prog.calls(b):
            n = cname(prog, t) or ''
            if n.startswith('encoding_rs::Encoding::decode') or 'from_utf8' in n:
                whole.append((short(f), n.split('::')[-1]))
    chk.instance('R-STREAM', 'ByteParser', 'no whole-buffer decode', not whole, detail=str(whole),
                 what='whole-buffer decoding %s cannot hold an incomplete sequence for the next feed' % whole)


def select_table(ctx, chk):
    prog = ctx.prog
    body = prog.bodies.get(BSEL)
    if body is None:
        chk.instance('R-DISPATCH', 'select_other_charset', 'exists', False, what='select_other_charset not found', undischarged=True)
        return
    n = 0
    for code, want in (('@', False), ('G', True), ('8', True), ('A', None), ('', None), ('g', None), ('@@', None)):
        eng = Engine(prog, ctx.eff, config=dict(max_steps=50000, check_inv=False))
        st = State()
        inv.screen_init(eng, st)
        log = []

        def hook(kind, st_, fr, bi, *a):
            if kind == 'decoder-new':
                st_.log(('decoder-new', a[0]))
            return None
        eng.hooks = [hook]
        self_ = eng.mk_default(st, body.locals[1]['ty'], name='self')
        st.store[('H', 'PS')] = StructV('parser::ParserState', {'use_utf8': BoolV(None, ('fact', ('init-utf8', 0)))})
        eng.entry_name = 'select_other_charset(%r)' % code
        try:
            res = eng.exec_body(st, BSEL, [self_, StrV(code)])
        except Budget as e:
            chk.instance('R-DISPATCH', 'select_other_charset', 'code %r' % code, False, detail=str(e), undischarged=True)
            continue
        probs = []
        for (s2, ret) in res:
            ps = s2.store.get(('H', 'PS'))
            v = ps.fields.get('use_utf8') if isinstance(ps, StructV) else None
            val = v.val if isinstance(v, BoolV) else None
            changed = not (isinstance(v, BoolV) and v.atom == ('fact', ('init-utf8', 0)))
            resets = [e for e in s2.event_list() if e[0] == 'decoder-new']
            if want is None:
                if changed or resets:
                    probs.append('changes the mode or the decoder (documented: ignored)')
            else:
                if not changed or val is not want:
                    probs.append('use_utf8 becomes %r (documented %r)' % (val if changed else 'unchanged', want))
                if want is False and not resets and not any(e[0] == 'coll.clear' for e in s2.event_list()):
                    probs.append('carried bytes are not discarded when leaving UTF-8')
                if want is True and resets:
                    was = s2.vn.get(('fact', ('init-utf8', 0)))
                    if was is not False:
                        probs.append('the streaming decoder is re-created although the parser may already be in UTF-8 mode: the bytes of an incomplete sequence carried from the previous feed are dropped')
        n += 1
        chk.instance('R-DISPATCH', 'select_other_charset', 'code %r' % code, bool(res) and not probs, detail='; '.join(probs) or 'as documented',
                     span=body.span, what='select_other_charset(%r): %s' % (code, '; '.join(probs)))
    chk.floor('select_other_charset entries', n, 6)


def run(ctx, chk):
    """C02"""
    chk.assume('A-GEN', 'A-LIB', 'A-TOOL')
    r_fold(ctx, chk)
    r_stream(ctx, chk, 'C02')
    # the coroutine position and the fast-path flag are the only state between characters: every
    # other local of Parser::feed is re-created per iteration (no local of feed is live across the back edge
    # except the iterator) - decided by R-FOLD; the lock discipline that lets the coroutine run is C01/R-LOCK
    chk.trust('encoding_rs streaming Decoder contract (A-LIB)', 'generator-rs (A-GEN)')


def run_c11(ctx, chk):
    chk.assume('A-LIB', 'A-TOOL')
    r_stream(ctx, chk, 'C11')
    select_table(ctx, chk)
    # D4: panic-freedom of the byte parser (same obligations as C01)
    from .rules_c01 import panic_obligations
    pr = ctx.parser_run()
    # (the byte parser's entry points and whatever private helpers of its module they were split into)
    n = panic_obligations(chk, 'C11', pr['engine'], only_funcs=set(BYTE_FNS) | {f_ for f_ in ctx.prog.bodies if f_.startswith('byte_parser::')})
    chk.floor('byte parser panic obligations', n, 1)
    chk.trust('encoding_rs streaming Decoder contract (A-LIB): WHATWG UTF-8 decoding incl. maximal-subpart replacement')
