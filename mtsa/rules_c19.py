"""C19: OSC 0/1/2 set title and icon name to exactly the payload."""
from . import rules_c03 as r3
from .ctx import CLOSURE
from .model import short
from .rules_common import LP, each_final, ep, get
from .values import StrV


def _skip_only(prov):
    """is the string `collect` of chars().skip(1) and nothing else?  (prov built by the collect summary)"""
    if not (isinstance(prov, tuple) and prov and prov[0] == 'collect'):
        return False, 'not a collect of the payload: %r' % (prov,)
    ops = prov[2] if len(prov) > 2 else ()
    if tuple(ops) != ('skip',):
        return False, 'adaptors %r (documented: drop exactly the first character)' % (ops,)
    key = prov[1]
    # iterator key = ('it', kind, iid, args, opskey) ; opskey contains ('skip', ('n', None, k))
    try:
        opskey = key[4]
        k = opskey[0][1][2]
        if k != 1:
            return False, 'skips %r characters' % (k,)
    except Exception:
        return False, 'skip count not constant'
    if key[1] != 'chars':
        return False, 'source is not the character sequence of the payload'
    return True, 'payload.chars().skip(1).collect()'


def run(ctx, chk):
    chk.assume('A-GEN', 'A-LIB', 'A-TOOL')
    r3.check_constants(ctx, chk, names={'ST', 'ST_C0', 'ST_C1', 'OSC_TERMINATORS', 'OSC', 'BEL', 'ESC'})
    tables = r3.dispatch_tables(ctx, chk, quiet=True)
    F = r3.run_fsm(ctx, chk, tables, focus='osc')
    if not getattr(F, 'pairs', None):
        return
    name = short(CLOSURE)
    os_sites = sorted({s for (r, s) in F.pairs if r == r3.OS})
    oe_sites = sorted({s for (r, s) in F.pairs if r == r3.OE})
    esc_sites = sorted({s for (r, s) in F.pairs if r == r3.E})
    chk.floor('OSC string states found', len(os_sites), 1)
    n = 0

    def lcalls(evs):
        return [e for e in evs if e[0] not in ('<-', 'push', 'strpush')]

    def spushes(evs):
        return [e for e in evs if e[0] == 'strpush']
    for s in os_sites:
        for c in ('x', ';', '\\', ' ', 'é', ']', '0'):
            outs = F.step(s, [c])
            bad = [o for o in outs if spushes(o[1]) != [('strpush', c)] or lcalls(o[1]) or F.sites[o[0]] != s]
            n += 1
            chk.instance('R-FSM', name, 'OSC payload: %r is appended once, no listener call' % c, not bad and bool(outs),
                         detail='outcomes %s' % sorted(outs, key=str)[:2],
                         what='payload character %r must be appended exactly once and stay in the string state: %s' % (c, sorted(bad, key=str)[:2]))
        outs = F.step(s, ['\x1b'])
        bad = [o for o in outs if spushes(o[1]) or lcalls(o[1])]
        n += 1
        chk.instance('R-FSM', name, 'OSC payload: ESC is not appended', not bad and bool(outs), detail='outcomes %s' % sorted(outs, key=str)[:2],
                     what='ESC inside an OSC string must be held for pairing, not appended: %s' % sorted(bad, key=str)[:2])
        for term, script in (('BEL', ['\x07']), ('ST', ['\x9c']), ('ESC \\', ['\x1b', '\\'])):
            outs = F.step(s, script, want_facts=True)
            probs = []
            shapes = set()
            for o in outs:
                calls = lcalls(o[1])
                facts = dict(o[3])
                shapes.add(tuple(c[0] for c in calls))
                for c in calls:
                    if c[0] not in ('set_icon_name', 'set_title'):
                        probs.append('unexpected call %s' % (c,))
                        continue
                    arg = c[1]
                    if isinstance(arg, tuple) and arg and arg[0] == 'str?':
                        ok, why = _skip_only(arg[1])
                        if not ok:
                            probs.append('%s argument: %s' % (c[0], why))
                    elif not isinstance(arg, str):
                        probs.append('%s argument not derived from the payload: %r' % (c[0], arg))
                if o[0] != F.sites.index(F.ground):
                    probs.append('does not return to ground')
            # (which code selects which setter is decided below on every code, however the code is tested)
            n += 1
            chk.instance('R-FSM', name, 'OSC finish on %s: payload tail to the selected setters' % term, not probs and bool(outs),
                         detail='; '.join(sorted(set(probs))) or '%d outcomes' % len(outs),
                         what='terminator %s: %s' % (term, '; '.join(sorted(set(probs)))))
    for es in esc_sites:
        for (script, want, what) in (
                ([']', '0', ';', 'a', 'b', '\x07'], [('set_icon_name', 'ab'), ('set_title', 'ab')], 'code 0 sets both'),
                ([']', '2', ';', 'C', ':', '\\', 'd', ';', ' ', 'é', '\x1b', '\\'], [('set_title', 'C:\\d; é')], 'code 2, backslash / ; / space / non-ASCII kept, ESC \\ terminates'),
                ([']', '1', ';', 'x', '\x9c'], [('set_icon_name', 'x')], 'code 1, C1 ST terminates'),
                ([']', '0', ';', '\x07'], [('set_icon_name', ''), ('set_title', '')], 'empty payload sets the empty string'),
                ([']', '7', ';', 'x', '\x07'], [], 'other codes have no effect')):
            outs = F.step(es, script)
            got = [lcalls(o[1]) for o in outs]
            ok = bool(outs) and all([tuple(c[:2]) for c in g] == want for g in got) and all(o[0] == F.sites.index(F.ground) for o in outs)
            n += 1
            chk.instance('R-FSM', name, 'OSC witness: %s' % what, ok, detail='script ESC %r -> %s' % (''.join(script), got),
                         what='ESC %r must produce %s and return to ground, extracted %s' % (''.join(script), want, got))
    # code -> setters, for every code character the statement quantifies over and every terminator
    for es in esc_sites:
        for term, tail in (('BEL', ['\x07']), ('ST', ['\x9c']), ('ESC \\', ['\x1b', '\\'])):
            bad = []
            for code in '0123456789abxzAZ':
                want = {'0': [('set_icon_name', 'q'), ('set_title', 'q')], '1': [('set_icon_name', 'q')], '2': [('set_title', 'q')]}.get(code, [])
                outs = F.step(es, [']', code, ';', 'q'] + tail)
                got = [[tuple(c[:2]) for c in lcalls(o[1])] for o in outs]
                if not outs or any(g_ != want for g_ in got) or any(o[0] != F.sites.index(F.ground) for o in outs):
                    bad.append('OSC %s;q %s calls %s, documented %s' % (code, term, got[:2], want))
            n += 1
            chk.instance('R-FSM', name, 'OSC code -> setters on %s (codes 0-9 and letters)' % term, not bad, detail='; '.join(bad[:3]) or '16 codes as documented',
                         what='; '.join(bad[:2]))
    chk.floor('OSC data clauses', n, 10)
    # setters store verbatim and write only their field
    sr = ctx.screen_run()
    eng = sr['engine']
    for meth, field in (('set_title', 'title'), ('set_icon_name', 'icon_name')):
        f = ep(meth)
        w = ctx.eff.maywrite.get(f, None)
        chk.instance('R-FRAME', short(f), 'writes only %s' % field, w == {(field,)}, detail='may-write set %s' % sorted(w or []),
                     what='%s writes %s' % (meth, sorted(w or [])))
        bad = []
        cnt = 0
        for r, st, ret in each_final(sr, f):
            cnt += 1
            a = st.vn.get(('entry-arg', 0))
            v = get(eng, st, field)
            if not (isinstance(a, StrV) and isinstance(v, StrV) and a.key() == v.key()):
                bad.append('%r vs argument %r' % (v, a))
        chk.instance('R-COPY', short(f), '%s := argument verbatim' % field, cnt > 0 and not bad, detail='; '.join(bad[:2]) or '%d exit states' % cnt,
                     what='%s does not store its argument verbatim: %s' % (meth, bad[:1]))
    # non-ASCII payloads and terminators (U+009C) under arbitrary chunking reach the recogniser only if
    # the byte front end decodes the stream independently of where it is cut: the streaming clause of C02 / C11
    from .rules_c02 import r_stream
    r_stream(ctx, chk, 'C19')
    chk.trust('generator-rs send/yield_ contract (A-GEN)', 'string summaries (eq, contains, chars, skip, collect)')
