"""Pretty printer for the MIR facts (debug aid and report text)."""
import json, sys

def pl(p):
    s = '_%d' % p['local']
    for e in p['proj']:
        k = e['k']
        if k == 'deref': s = '(*%s)' % s
        elif k == 'field': s = '%s.%s' % (s, e['name'])
        elif k == 'index': s = '%s[_%d]' % (s, e['local'])
        elif k == 'downcast': s = '(%s as %s)' % (s, e['name'])
        elif k == 'constindex': s = '%s[%s%d]' % (s, '-' if e['from_end'] else '', e['offset'])
        else: s = '%s.<%s>' % (s, k)
    return s

def cv(v):
    if isinstance(v, dict):
        if 'char' in v: return repr(chr(v['char']))
        if 'zst' in v: return '<zst>'
        if 'tuple' in v: return '(' + ','.join(cv(x) for x in v['tuple']) + ')'
        return json.dumps(v)[:60]
    if isinstance(v, list):
        if len(v) > 12: return '[%s, ..%d]' % (','.join(cv(x) for x in v[:4]), len(v))
        return '[' + ','.join(cv(x) for x in v) + ']'
    return json.dumps(v, ensure_ascii=True)

def op(o):
    k = o['k']
    if k == 'copy': return pl(o['place'])
    if k == 'move': return 'move ' + pl(o['place'])
    if k == 'const':
        if 'fn' in o: return 'fn:' + o['fn']['full']
        return 'const ' + cv(o['value']) + (('{%s}' % o['origin']) if o.get('origin') else '')
    return '<%s>' % k

def rv(r):
    k = r['k']
    if k == 'use': return op(r['op'])
    if k == 'ref': return ('&mut ' if r['mut'] else '&') + pl(r['place'])
    if k == 'binop': return '%s(%s, %s)' % (r['op'], op(r['a']), op(r['b']))
    if k == 'unop': return '%s(%s)' % (r['op'], op(r['a']))
    if k == 'cast': return '%s as %s [%s]' % (op(r['op']), r['ty'], r['kind'])
    if k == 'discr': return 'discr(%s)' % pl(r['place'])
    if k == 'aggregate':
        a = r['agg']
        head = {'adt': lambda: '%s::%s' % (r['adt'], r['variant_name']), 'closure': lambda: 'closure ' + r['closure'],
                'coroutine': lambda: 'coroutine ' + r['closure']}.get(a, lambda: a)()
        return '%s{%s}' % (head, ', '.join(((n + ':') if n else '') + op(o) for n, o in zip(r['names'] + [''] * len(r['ops']), r['ops'])))
    if k == 'rawptr': return '&raw ' + pl(r['place'])
    if k == 'repeat': return '[%s; %s]' % (op(r['op']), r['n'])
    return '<%s>' % k

def body(b, out=sys.stdout):
    w = out.write
    w('fn %s  [%s:%d] args=%d\n' % (b['path'], b['span']['file'], b['span']['line'], b['arg_count']))
    names = {}
    for d in b['debug']:
        if not d['place']['proj']: names[d['place']['local']] = d['name']
        else: w('  debug %s => %s\n' % (d['name'], pl(d['place'])))
    for i, l in enumerate(b['locals']):
        w('  let _%d: %s%s\n' % (i, l['ty'], ('  // ' + names[i]) if i in names else ''))
    for i, bb in enumerate(b['blocks']):
        w(' bb%d%s:\n' % (i, ' (cleanup)' if bb['cleanup'] else ''))
        for s in bb['stmts']:
            if s['k'] == 'assign': w('    %s = %s   // L%d\n' % (pl(s['place']), rv(s['rv']), s['span']['line']))
            elif s['k'] == 'setdiscr': w('    discr(%s) = %d\n' % (pl(s['place']), s['variant']))
            elif s['k'] in ('live', 'dead'): pass
            else: w('    <%s>\n' % s['k'])
        t = bb['term']; k = t['k']; ln = t['span']['line']
        if k == 'goto': w('    goto bb%d\n' % t['target'])
        elif k == 'switch': w('    switch %s [%s, else bb%d]  // L%d\n' % (op(t['discr']), ', '.join('%d:bb%d' % (v, x) for v, x in t['targets']), t['otherwise'], ln))
        elif k == 'call':
            w('    %s = %s(%s) -> %s unwind %s  // L%d%s\n' % (pl(t['dest']), op(t['func']), ', '.join(op(a) for a in t['args']),
              'bb%d' % t['target'] if t['target'] is not None else '!', t['unwind'], ln, ' exp' if t['span']['exp'] else ''))
        elif k == 'assert': w('    assert(%s == %s, %s) -> bb%d  // L%d\n' % (op(t['cond']), t['expected'], t['msg'], t['target'], ln))
        elif k == 'drop': w('    drop(%s) -> bb%d unwind %s\n' % (pl(t['place']), t['target'], t['unwind']))
        else: w('    %s\n' % k)

if __name__ == '__main__':
    f = json.load(open(sys.argv[1]))
    for b in f['bodies']:
        if any(a in b['path'] for a in sys.argv[2:]): body(b); print()
