"""Generic rules over the E4 event log of the Screen run: R-GRID, R-ABSENT, R-DIRTY, R-ZERO1,
R-FRAME / R-NOREAD (E3), palette index guard."""
import re

from . import inv, plt, runner
from .model import short
from .rules_c09 import site_ord
from .rules_common import LP, each_final, ep, get, opt_payload
from .values import BoolV, CollV, EnumV, NumV, OpaqueV, RefV, StrV, StructV, symname, V

ROW_MAP = 'std::collections::HashMap<u32, std::collections::HashMap<u32, screen::CharOpts>>'
CELL_MAP = 'std::collections::HashMap<u32, screen::CharOpts>'


class Cnt(int):
    """an instance count that also knows during which entry points (methods) instances were seen"""
    def __new__(cls, n, eps=()):
        o = int.__new__(cls, n)
        o.eps = {x.split('::')[-1] for x in eps if x}
        return o


def level_of(e):
    """'row' if the operation is on a row map (u32 -> row), 'cell' if on a row (u32 -> CharOpts)"""
    path = e['ev'][1] if len(e['ev']) > 1 else None
    if path and path[0] == 'S' and len(path) >= 2 and path[1] == 'buffer':
        return 'row' if len(path) == 2 else 'cell'
    ty = e.get('recv_ty', '').replace('std::collections::BTreeMap<', 'std::collections::HashMap<').replace('btree_map::', 'hash_map::')
    if 'Entry<' in ty:
        if CELL_MAP in ty:
            return 'row'
        return 'cell' if 'screen::CharOpts>' in ty else None
    if ROW_MAP in ty:
        return 'row'
    if CELL_MAP in ty:
        return 'cell'
    return None


def norm_term(s):
    s = re.sub(r'\bit\d+\b', 'it', s)
    s = re.sub(r'\belem\b', 'elem', s)
    s = re.sub(r's\d+', 's#', s)
    return s


def term(eng, st, v):
    if isinstance(v, NumV):
        return norm_term(plt.term_str(eng, st, plt.reeval(eng, st, v)))
    if isinstance(v, EnumV):
        return 'enum%s' % sorted(v.tags)
    return type(v).__name__


# ---------------------------------------------------------------------------
# R-FRAME / R-NOREAD on E3 sets
def frame(ctx, chk, meth, allowed, rule='R-FRAME', func=None):
    f = func or ep(meth)
    w = ctx.eff.maywrite.get(f)
    if w is None:
        chk.instance(rule, short(f), 'may-write set', False, what='%s not found' % meth, undischarged=True)
        return
    allowed = {tuple(a.split('.')) for a in allowed}

    def covered(p):
        return any(p[:len(a)] == a for a in allowed)
    extra = sorted('.'.join(p) for p in w if not covered(p))
    body = ctx.prog.bodies[f]
    chk.instance(rule, short(f), 'writes within {%s}' % ', '.join(sorted('.'.join(a) for a in allowed)), not extra,
                 detail='may-write set {%s}' % ', '.join(sorted('.'.join(p) for p in w)), span=body.span,
                 what='%s may write %s, documented to change only {%s}' % (meth, extra, ', '.join(sorted('.'.join(a) for a in allowed))))


def noread(ctx, chk, meth, forbidden, rule='R-NOREAD'):
    f = ep(meth)
    r = ctx.eff.mayread.get(f)
    if r is None:
        return
    forb = {tuple(a.split('.')) for a in forbidden}
    hit = sorted('.'.join(p) for p in r if any(p[:len(a)] == a for a in forb))
    chk.instance(rule, short(f), 'does not read {%s}' % ', '.join(forbidden), not hit, detail='may-read set {%s}' % ', '.join(sorted('.'.join(p) for p in r if p)),
                 span=ctx.prog.bodies[f].span, what='%s reads %s, which the documented behaviour does not depend on' % (meth, hit))


# ---------------------------------------------------------------------------
# R-GRID
def r_grid(ctx, chk, funcs=None, rule='R-GRID'):
    """every key put into a row map is < lines, every key put into a row is < columns (at the time of
    the operation).  funcs: restrict to operations executed (innermost) in these functions"""
    sr = ctx.screen_run()
    eng = sr['engine']
    prog = ctx.prog
    sites = {}
    eps_seen = set()
    for e in sr['events']:
        ev = e['ev']
        if ev[0] not in ('map.insert', 'map.entry_or_insert'):
            continue
        lvl = level_of(e)
        if lvl is None:
            continue
        if funcs is not None and e['func'] not in funcs:
            continue
        st = e['st']
        key = ev[2]
        bound = get(eng, st, 'lines' if lvl == 'row' else 'columns')
        ok = isinstance(key, NumV) and isinstance(bound, NumV) and eng.prove_cmp(st, 'lt', key, bound) is True
        why = ''
        if not ok and isinstance(key, NumV) and isinstance(bound, NumV):
            # try the orderings of min/max terms
            ok2, w = plt.prove_rel(eng, st, 'lt', key, lambda s: get(eng, s, 'lines' if lvl == 'row' else 'columns'))
            ok = ok2
            why = w
        k = (short(e['func']), '%s key < %s @%s' % (lvl, 'lines' if lvl == 'row' else 'columns', site_ord(prog, e)))
        eps_seen.add(e['ep'])
        a = sites.setdefault(k, dict(ok=True, n=0, why='', span=e['span']))
        a['n'] += 1
        if not ok and a['ok']:
            a['ok'] = False
            a['why'] = 'key %s with bounds %s; %s = %r; %s | entry %s' % (
                term(eng, st, key) if isinstance(key, NumV) else key, eng.bounds(st, key) if isinstance(key, NumV) else '?',
                'lines' if lvl == 'row' else 'columns', bound, why, e['entry'])
    for (f, c), a in sorted(sites.items()):
        chk.instance(rule, f, c, a['ok'], detail=a['why'] or '%d visits, key always inside the grid' % a['n'], span=a['span'],
                     what='a cell / row can be stored outside the visible grid (hidden state that later edits or a resize can bring back): ' + a['why'])
    return Cnt(len(sites), eps_seen)


# ---------------------------------------------------------------------------
# segments: every explored path piece that ends at a function exit or at a back edge
def all_segments(sr, func_filter=None):
    for epn, rs in sr['results'].items():
        if func_filter and epn not in func_filter:
            continue
        for r in rs:
            for (st, ret) in r.finals:
                yield dict(ep=epn, kind='exit', st=st, label=r.label, head=None, func=epn)
    for s in sr['segments']:
        if func_filter and s['ep'] not in func_filter:
            continue
        yield dict(ep=s['ep'], kind='backedge', st=s['st'], label=s['entry'], head=s['head'], func=s['func'])


def seg_events(seg):
    """events of the segment: since the last loop-head marker of *this* loop for back-edge segments
    (the path prefix before the loop is kept separately), whole path for exit segments"""
    evs = seg['st'].event_list()
    if seg['kind'] == 'backedge':
        last = None
        for i, ev in enumerate(evs):
            if ev[0] == 'loop-head' and ev[1] == seg['func'] and ev[2] == seg['head']:
                last = i
        if last is not None:
            return evs[:last], evs[last + 1:]
    return [], evs


def row_of_path(p):
    """row key of a cell-level collection path ('S','buffer',('e',row))"""
    if p and len(p) >= 3 and p[0] == 'S' and p[1] == 'buffer' and isinstance(p[2], tuple) and p[2][0] == 'e':
        return p[2][1]
    return None


# ---------------------------------------------------------------------------
# value comparison against the code's own blank (default_char()) and against the cursor rendition
FLAGS = ('bold', 'italics', 'underscore', 'strikethrough', 'reverse', 'blink')
DEFAULT_CHAR = 'screen::Screen::default_char'


def same_value(eng, s, a, b):
    """are abstract values a and b the same value in state s (field-wise for structs)"""
    if isinstance(a, RefV) or isinstance(b, RefV):
        return a.key() == b.key()
    if isinstance(a, StructV) and isinstance(b, StructV):
        if a.ty != b.ty:
            return False
        if not a.fields and not b.fields:
            return a.key() == b.key()
        names = set(a.fields) | set(b.fields)
        for n in names:
            x, y = a.fields.get(n), b.fields.get(n)
            if x is None or y is None:
                return False
            if not same_value(eng, s, x, y):
                return False
        return True
    if isinstance(a, BoolV) and isinstance(b, BoolV):
        ta, tb = eng.eval_bool(s, a), eng.eval_bool(s, b)
        if ta is not None and tb is not None:
            return ta == tb
        return a.key() == b.key()
    if isinstance(a, NumV) and isinstance(b, NumV):
        return eng.prove_cmp(s, 'eq', a, b) is True
    if isinstance(a, StrV) and isinstance(b, StrV):
        ka = a.known if a.known is not None else (s.vn.get(('strval', a.oid)) if a.oid is not None else None)
        kb = b.known if b.known is not None else (s.vn.get(('strval', b.oid)) if b.oid is not None else None)
        if ka is not None and kb is not None:
            return ka == kb
        return a.oid is not None and a.oid == b.oid
    if type(a) is not type(b):
        return False
    return a.key() == b.key()


def full_cell(eng, s, v):
    """CharOpts value with every flag field present (absent flag fields of a partially known struct
    are unknown, so they are left out and compare unequal to anything but themselves)"""
    return v


def is_default_char(eng, st, v):
    """is v the value `default_char()` returns in state st (the function's own body is the reference;
    its correctness is instance `default_char is the canonical blank`)"""
    if not isinstance(v, StructV):
        return False, 'not a cell value: %r' % (v,)
    pv = getattr(v, 'prov', None)
    if isinstance(pv, tuple) and pv[:2] == ('literal', DEFAULT_CHAR):
        return True, ''
    if DEFAULT_CHAR not in eng.prog.bodies:
        return False, 'Screen::default_char not found'
    s = st.fork()
    hooks, eh = eng.hooks, eng.event_hook
    eng.hooks, eng.event_hook = [], None
    try:
        res = eng.exec_body(s, DEFAULT_CHAR, [RefV((inv.S_ROOT, ()), False)])
    except Exception as ex:      # fail closed
        return False, 'default_char() could not be evaluated: %s' % ex
    finally:
        eng.hooks, eng.event_hook = hooks, eh
    if not res:
        return False, 'default_char() has no exit'
    for (s2, r) in res:
        if not (isinstance(r, StructV) and same_value(eng, s2, v, r)):
            return False, '%r (built in %s) differs from %r' % (v, pv[1] if isinstance(pv, tuple) and len(pv) > 1 else pv, r)
    return True, ''


def is_materialising_insert(eng, e):
    """a snapshot event `map.insert` on the grid that only materialises: the key is known to be absent
    (`if !m.contains_key(&k) { m.insert(k, blank) }`) and the value is what absence means (an empty
    row / default_char() in that state) - the same thing as `entry(k).or_insert(blank)`"""
    ev = e['ev']
    if ev[0] != 'map.insert' or not e['st'].vn.get('ins-absent'):
        return False
    lvl = level_of(e)
    v = ev[3]
    if lvl == 'row':
        return isinstance(v, CollV) and v.known == ()
    if lvl == 'cell':
        return is_default_char(eng, e['st'], v)[0]
    return False


def materialising_indices(eng, st, evs):
    """indices in an event list of `map.insert`s on the grid that only materialise (see
    is_materialising_insert): preceded by the engine's note that the key was known to be absent, and
    storing the value absence stands for"""
    out = set()
    for i, ev in enumerate(evs):
        if ev[0] != 'map.insert' or i == 0:
            continue
        p = evs[i - 1]
        if not (p[0] == 'note' and p[1] == 'absent-before-insert' and p[2] == ev[1] and isinstance(p[3], V) and isinstance(ev[2], V) and p[3].key() == ev[2].key()):
            continue
        v = ev[3]
        if not (ev[1] and ev[1][0] == 'S' and len(ev[1]) >= 2 and ev[1][1] == 'buffer'):
            continue
        if len(ev[1]) == 2:
            if isinstance(v, CollV) and v.known == ():
                out.add(i)
        elif is_default_char(eng, st, v)[0]:
            out.add(i)
    return out


_ENTRY = {}


def own_stack(prog, stack, ep_func):
    """is the innermost operation on the call stack the entry point itself?  (a shared private helper
    - `row.put(..)` - is reached both from draw and, inside draw, from insert_characters: what ICH
    stores through it is ICH's business, not draw's)"""
    from . import runner
    key = id(prog)
    if key not in _ENTRY:
        _ENTRY[key] = set(runner.SCREEN_FNS) | set(runner.listener_entry_points(prog))
    ent = _ENTRY[key]
    last = None
    for f in stack:
        if f in ent:
            last = f
    return last is None or last == ep_func


def is_cursor_attr(eng, st, v):
    pv = getattr(v, 'prov', None)
    if isinstance(pv, tuple) and pv == ('cursor.attr',):
        return True
    cur = get(eng, st, 'cursor', 'attr')
    return isinstance(v, StructV) and isinstance(cur, StructV) and bool(cur.fields) and set(v.fields) == set(cur.fields) and same_value(eng, st, v, cur)


def default_char_canonical(ctx, chk, rule='R-ABSENT'):
    """default_char() itself: data ' ', fg/bg 'default', flags off, reverse == (DECSCNM in mode);
    decided on exactly known mode sets"""
    from .engine import Engine, State
    prog = ctx.prog
    bad = []
    n = 0
    for modes in ((), (160,), (32, 160, 224), (32,), (4, 20, 192, 224, 800)):
        eng = Engine(prog, ctx.eff, config=dict(max_steps=50000, check_inv=False))
        st = State()
        inv.screen_init(eng, st)
        scr = st.store[inv.S_ROOT]
        st.store[inv.S_ROOT] = scr.with_field('mode', CollV('set', 'std::collections::HashSet<u32>', 'md', known=tuple(NumV(None, m, 'u32') for m in modes)))
        try:
            res = eng.exec_body(st, DEFAULT_CHAR, [RefV((inv.S_ROOT, ()), False)])
        except Exception as ex:
            bad.append('mode %s: %s' % (list(modes), ex))
            continue
        for (s2, r) in res:
            n += 1
            if not isinstance(r, StructV):
                bad.append('mode %s: returns %r' % (list(modes), r))
                continue
            want = {'data': ' ', 'fg': 'default', 'bg': 'default'}
            for k, w in want.items():
                x = r.fields.get(k)
                if not (isinstance(x, StrV) and x.known == w):
                    bad.append('mode %s: %s is %r, documented %r' % (list(modes), k, x, w))
            for k in FLAGS:
                x = r.fields.get(k)
                w = (160 in modes) if k == 'reverse' else False
                t = eng.eval_bool(s2, x) if isinstance(x, BoolV) else None
                if t is not w:
                    bad.append('mode %s: %s is %r, documented %s' % (list(modes), k, x, w))
        if eng.summ.unknown_seen:
            bad.append('unmodelled callee in default_char: %s' % sorted(eng.summ.unknown_seen))
    body = prog.bodies.get(DEFAULT_CHAR)
    chk.instance(rule, 'Screen::default_char', 'default_char is the canonical blank', n > 0 and not bad,
                 detail='; '.join(bad[:3]) or '%d exit states over 5 mode sets: space, default colours, flags off, reverse iff DECSCNM' % n,
                 span=body.span if body else None, what='default_char() is not the documented blank: ' + '; '.join(bad[:2]))


# ---------------------------------------------------------------------------
# R-ABSENT
def r_absent(ctx, chk, funcs, rule='R-ABSENT'):
    """(a) every materialisation `entry(k).or_insert*(v)` on the grid inserts the canonical default
    (empty row / default_char()); (b) for every Option-returning lookup on the grid whose result is
    branched on, the None continuation touches (puts or removes) every key the Some continuation puts."""
    sr = ctx.screen_run()
    eng = sr['engine']
    prog = ctx.prog
    default_char_canonical(ctx, chk, rule)
    # (a)
    sites = {}
    eps_a, eps_b = set(), set()
    for e in sr['events']:
        ev = e['ev']
        if ev[0] != 'map.entry_or_insert' or e['func'] not in funcs:
            continue
        lvl = level_of(e)
        if lvl is None:
            continue
        eps_a.add(e['ep'])
        v = ev[3]
        if lvl == 'row':
            ok = isinstance(v, CollV) and v.known == ()
            why = 'materialises %r' % (v,)
        else:
            ok, why0 = is_default_char(eng, e['st'], v)
            why = 'materialises a cell that is not default_char() (which follows the DECSCNM state): %s' % why0
        k = (short(e['func']), 'materialise %s @%s' % (lvl, site_ord(prog, e)))
        a = sites.setdefault(k, dict(ok=True, why=why, span=e['span'], n=0))
        a['n'] += 1
        if not ok and a['ok']:
            a['ok'] = False
            a['why'] = why
    for (f, c), a in sorted(sites.items()):
        chk.instance(rule, f, c, a['ok'], detail='%s (%d visits)' % (a['why'], a['n']), span=a['span'],
                     what='an absent cell/row is materialised with a value that differs from what absence means: ' + a['why'])
    na = len(sites)
    # (b)
    look = {}
    for seg in all_segments(sr, funcs):
        pre, evs = seg_events(seg)
        st = seg['st']
        for i, ev in enumerate(evs):
            if ev[0] != 'branch':
                continue
            kind = ev[1]           # map.get.some / map.get.none / map.remove.some ...
            path = ev[2]
            if not (path and path[0] == 'S' and len(path) >= 2 and path[1] == 'buffer'):
                continue
            func = ev[5] if len(ev) > 5 else seg['func']
            if func not in funcs:
                continue
            eps_b.add(seg['ep'])
            tag = kind.rsplit('.', 1)[1]
            op = kind.rsplit('.', 1)[0]
            lvl = 'row' if len(path) == 2 else 'cell'
            puts = set()
            dels = set()
            for ev2 in evs[i + 1:]:
                if ev2[0] in ('map.insert', 'map.entry_or_insert') and ev2[1] and ev2[1][0] == 'S' and ev2[1][1] == 'buffer':
                    l2 = 'row' if len(ev2[1]) == 2 else 'cell'
                    if l2 == lvl and (lvl == 'row' or row_sig(eng, st, ev2[1]) == row_sig(eng, st, path)):
                        puts.add(term(eng, st, ev2[2]))
                elif ev2[0] == 'map.remove' and ev2[1] and ev2[1][0] == 'S' and ev2[1][1] == 'buffer':
                    l2 = 'row' if len(ev2[1]) == 2 else 'cell'
                    if l2 == lvl:
                        dels.add(term(eng, st, ev2[2]))
                elif ev2[0] == 'w' and ev2[1] and ev2[1][0] == 'buffer':
                    # write through a looked-up element reference
                    keys = [x for x in ev2[1] if isinstance(x, tuple) and x[0] == 'e']
                    want = 1 if lvl == 'row' else 2
                    if len(keys) >= want and isinstance(keys[want - 1][1], NumV):
                        puts.add(term(eng, st, keys[want - 1][1]))
                elif ev2[0] == 'branch':
                    pass
            site = (short(func), '%s lookup line-ordinal %s' % (lvl, lookup_ord(prog, func, ev[4], op)))
            d = look.setdefault(site, dict(some_puts=set(), none_touch=set(), none_seen=False, some_seen=False, key=term(eng, st, ev[3]), line=ev[4], func=func))
            if tag == 'some':
                d['some_seen'] = True
                d['some_puts'] |= puts
            else:
                d['none_seen'] = True
                d['none_touch'] |= puts | dels
    for site, d in sorted(look.items()):
        missing = sorted(d['some_puts'] - d['none_touch'])
        body = prog.bodies[d['func']]
        chk.instance(rule, site[0], site[1], not missing,
                     detail=('lookup of key %s: the present-branch stores at %s, the absent-branch touches %s' % (d['key'], sorted(d['some_puts']), sorted(d['none_touch']))),
                     span=dict(file=body.span['file'], line=d['line']),
                     what='absent and materialised-default cells/rows are treated differently: when the looked-up %s is absent nothing is stored/removed at %s '
                          '(a stale value survives there), while a present one is stored' % ('row' if 'row' in site[1] else 'cell', missing))
    return Cnt(na, eps_a), Cnt(len(look), eps_b)


def row_sig(eng, st, path):
    r = row_of_path(path)
    return term(eng, st, r) if isinstance(r, NumV) else None


def lookup_ord(prog, func, line, op):
    """ordinal (source order) of the lookup call at `line` among the lookups of the same kind in func"""
    body = prog.bodies[func]
    suffix = {'map.get': ('::get', '::get_mut'), 'map.remove': ('::remove',), 'map.insert': ('::insert',)}[op]
    lines = sorted({t['span']['line'] for bi, t in prog.calls(body)
                    if ((t['func'].get('fn') or {}).get('path', '')).endswith(suffix)
                    and ('HashMap' in ((t['func'].get('fn') or {}).get('path', '')) or 'BTreeMap' in ((t['func'].get('fn') or {}).get('path', '')))})
    return '%s#%d' % (op.split('.')[1], lines.index(line)) if line in lines else op


# ---------------------------------------------------------------------------
# loops that are a spelled-out `set.extend(range)`
def loop_exits_only_at_head(body, h, eng=None, func=None):
    """the loop with head h is left only where it tests its iterator / its guard (at the head, or at
    the block that matches on next()'s result): it always runs until the iteration is exhausted.  An
    exit from the middle of the body is accepted when the engine showed, every time it was taken, that
    the element in hand is the last one of the range a counting loop walks (`if y == last { break }`);
    such an iteration is reported to the rules as one more iteration segment."""
    loops = body.loops()[0]
    if not isinstance(h, int) or h not in loops:
        return False
    if eng is None:
        blocks = loops[h]
        hs = body.succs(h)
        ok_src = {h} | ({hs[0]} if body.blocks[h]['term']['k'] == 'call' and len(hs) == 1 and body.blocks[hs[0]]['term']['k'] == 'switch' else set())
        for b in blocks:
            if b in ok_src:
                continue
            for s2 in body.succs(b):
                if s2 not in blocks and not body.blocks[s2].get('cleanup') and body.blocks[s2]['term']['k'] != 'unreachable':
                    return False
        return True
    for (b, s2), hs in eng.exit_edges(body).items():
        if h not in hs:
            continue
        cls = eng.exit_class.get((func, h, b, s2))
        if cls is None:
            continue          # never taken on any abstract path
        if cls != {True}:
            return False
    return True


def range_insert_loops(ctx, sr, target=('S', 'dirty')):
    """set of (func, head) of loops `for v in <range> { target.insert(v) }` (whatever else the body
    does): every iteration inserts exactly the element of the (unadapted) range the loop iterates,
    and the loop cannot be left early; the range itself is recorded in the loop-head event"""
    cache = sr.setdefault('_range_loops', {})
    if target in cache:
        return cache[target]
    from .values import IterV
    prog = ctx.prog
    by = {}
    for sg in sr['segments']:
        by.setdefault((sg['func'], sg['head']), []).append(sg)
    out = set()
    for (func, head), sgs in by.items():
        body = prog.bodies.get(func)
        if body is None:
            continue
        if isinstance(head, int):
            if not loop_exits_only_at_head(body, head, sr['engine'], func):
                continue
        elif not (isinstance(head, tuple) and head and head[0] == 'for_each'):
            continue          # (`(a..b).for_each(|y| { set.insert(y); })` always walks the whole range)
        ok = True
        for sg in sgs:
            pre, lev = seg_events(dict(sg, kind='backedge'))
            # (the same field of a Screen that is still a local of its constructor - `new` calls reset on it - counts)
            ins = [ev for ev in lev if ev[0] == 'set.insert' and ev[1] and (ev[1] == target or (
                len(ev[1]) == len(target) and isinstance(ev[1][0], str) and ev[1][0].startswith('_') and tuple(ev[1][1:]) == tuple(target[1:])))]
            if len(ins) != 1 or not isinstance(ins[0][2], NumV) or ins[0][2].sym is None or ins[0][2].k != 0:
                ok = False
                break
            it = sg['st'].vn.get(('itersym', ins[0][2].sym))
            if not isinstance(it, IterV) or it.kind != 'range' or it.ops:
                ok = False
                break
        if ok:
            out.add((func, head))
    cache[target] = out
    return out


def loop_desc_in(evs, func, head):
    """range description recorded when the loop (func, head) was entered on this event list (last entry)"""
    d = None
    for ev in evs:
        if ev[0] == 'loop-head' and ev[1] == func and ev[2] == head and len(ev) > 4:
            d = ev[4]
    return d


def cell_store_loops(ctx, sr, touch=False):
    """{(func, head): set of row descriptors} for loops (MIR loops that can only be left when the
    iterator is exhausted, and for_each-style closure loops) in which EVERY iteration stores a cell
    (map.insert at cell level on the grid) at the column given by the element of the unadapted range
    the loop iterates.  Row descriptor: 'cursor-row' (the cursor row at entry of the method) or
    ('elem', lo key, hi key, incl) (the element of an enclosing range loop)."""
    ckey = '_cell_touch_loops' if touch else '_cell_store_loops'
    if ckey in sr:
        return sr[ckey]
    from .values import IterV
    prog = ctx.prog
    eng = sr['engine']
    by = {}
    for sg in sr['segments']:
        by.setdefault((sg['ep'], sg['func'], sg['head']), []).append(sg)
    out = {}
    for (epn_, func, head), sgs in by.items():
        body = prog.bodies.get(func)
        if body is None:
            continue
        if isinstance(head, int):
            if not loop_exits_only_at_head(body, head, sr['engine'], func):
                continue
        elif not (isinstance(head, tuple) and head and head[0] == 'for_each'):
            continue
        rows = set()
        ok = True
        for sg in sgs:
            st = sg['st']
            pre, lev = seg_events(dict(sg, kind='backedge'))
            d = loop_desc_in(pre + lev[:0], func, head) or loop_desc_in(st.event_list(), func, head)
            if d is None or not elementwise(d[4]) or not (isinstance(d[1], NumV) and isinstance(d[2], NumV)):
                ok = False
                break
            hit = False
            for ev in lev:
                if ev[0] not in (('map.insert', 'map.remove') if touch else ('map.insert',)) or not ev[1] or ev[1][0] != 'S' or len(ev[1]) != 3 or ev[1][1] != 'buffer':
                    continue
                col = ev[2]
                if not (isinstance(col, NumV) and col.sym is not None and col.k == 0):
                    continue
                it = st.vn.get(('itersym', col.sym))
                if not (isinstance(it, IterV) and it.kind == 'range' and elementwise(tuple(o[0] for o in it.ops)) and isinstance(it.args[0], NumV) and isinstance(it.args[1], NumV)):
                    continue
                if (it.args[0].key(), it.args[1].key(), bool(it.args[2])) != (d[1].key(), d[2].key(), bool(d[3])):
                    continue
                row = row_of_path(ev[1])
                y0 = st.vn.get(('entry', 'y'))
                if isinstance(row, NumV) and isinstance(y0, NumV) and eng.prove_cmp(st, 'eq', row, y0) is True:
                    rows.add('cursor-row')
                    hit = True
                elif isinstance(row, NumV) and row.sym is not None and row.k == 0:
                    it2 = st.vn.get(('itersym', row.sym))
                    if isinstance(it2, IterV) and it2.kind == 'range' and not it2.ops and isinstance(it2.args[0], NumV) and isinstance(it2.args[1], NumV):
                        rows.add(('elem', it2.args[0].key(), it2.args[1].key(), bool(it2.args[2])))
                        hit = True
            if not hit:
                ok = False
                break
        if ok and rows:
            out[(epn_, func, head)] = rows
    sr[ckey] = out
    return out


def row_touch_loops(ctx, sr):
    """set of (entry point, func, head): loops (no early exit / for_each style) in which every
    iteration inserts or removes the ROW whose key is the element of the range the loop iterates"""
    if '_row_touch_loops' in sr:
        return sr['_row_touch_loops']
    from .values import IterV
    prog = ctx.prog
    by = {}
    for sg in sr['segments']:
        by.setdefault((sg['ep'], sg['func'], sg['head']), []).append(sg)
    out = set()
    for (epn_, func, head), sgs in by.items():
        body = prog.bodies.get(func)
        if body is None:
            continue
        if isinstance(head, int):
            if not loop_exits_only_at_head(body, head, sr['engine'], func):
                continue
        elif not (isinstance(head, tuple) and head and head[0] == 'for_each'):
            continue
        ok = True
        for sg in sgs:
            st = sg['st']
            pre, lev = seg_events(dict(sg, kind='backedge'))
            d = loop_desc_in(st.event_list(), func, head)
            if d is None or d[0] != 'range' or not elementwise(d[4]) or not (isinstance(d[1], NumV) and isinstance(d[2], NumV)):
                ok = False
                break
            hit = False
            for ev in lev:
                if ev[0] not in ('map.insert', 'map.remove') or not ev[1] or ev[1] != ('S', 'buffer'):
                    continue
                key = ev[2]
                if not (isinstance(key, NumV) and key.sym is not None and key.k == 0):
                    continue
                it = st.vn.get(('itersym', key.sym))
                if isinstance(it, IterV) and it.kind == 'range' and elementwise(tuple(o[0] for o in it.ops)) and isinstance(it.args[0], NumV) and isinstance(it.args[1], NumV) \
                        and (it.args[0].key(), it.args[1].key(), bool(it.args[2])) == (d[1].key(), d[2].key(), bool(d[3])):
                    hit = True
            if not hit:
                ok = False
                break
        if ok:
            out.add((epn_, func, head))
    sr['_row_touch_loops'] = out
    return out


def elementwise(opnames):
    """adaptors that keep one output per source element, in order or reversed"""
    return all(o in ('map', 'cloned', 'rev') for o in (opnames or ()))


def range_covers(eng, st, d, lo_d, hi_d):
    """does the iterated range d = ('range', lo, hi, incl, ops) contain [lo_d, hi_d) (hi_d exclusive)"""
    if d is None or not elementwise(d[4]) or not (isinstance(d[1], NumV) and isinstance(d[2], NumV)):
        return False, 'not a plain range'
    lo, hi, incl = d[1], d[2], bool(d[3])
    ok1, w1 = plt.prove_rel(eng, st, 'le', lo, lambda s: lo_d(s) if callable(lo_d) else lo_d)
    hi_x = NumV(hi.sym, hi.k + 1, hi.ty) if incl else hi
    ok2, w2 = plt.prove_rel(eng, st, 'ge', hi_x, lambda s: hi_d(s) if callable(hi_d) else hi_d)
    return (ok1 and ok2), (w1 or w2)


def collected_range(v):
    """(lo, hi, incl, adaptor ops) when v is a collection collected from a range iterator"""
    pv = getattr(v, 'prov', None)
    if isinstance(v, CollV) and isinstance(pv, tuple) and pv and pv[0] == 'collect-range' and len(pv) >= 5 \
            and isinstance(pv[1], NumV) and isinstance(pv[2], NumV):
        return pv[1], pv[2], bool(pv[3]), tuple(pv[4])
    return None


def dirty_marks(ctx, sr, evs):
    """dirty marks on an event list: ('one', row) / ('range', lo, hi, incl); a loop that inserts every
    element of a range counts as the range"""
    marks = []
    rl = None
    for ev in evs:
        if ev[0] == 'coll.clear' and ev[1] == ('S', 'dirty'):
            marks = []          # what was marked before is gone
        elif ev[0] == 'w' and ev[1] == ('dirty',):
            # the whole set is replaced: `dirty = (a..b).collect()` marks exactly that range
            marks = []
            r = collected_range(ev[2])
            if r is not None and not r[3]:
                marks.append(('range', r[0], r[1], r[2]))
        elif ev[0] in ('set.insert', 'set.member') and ev[1] == ('S', 'dirty'):
            marks.append(('one', ev[2]))
        elif ev[0] == 'set.extend' and ev[1] == ('S', 'dirty') and isinstance(ev[2], tuple) and ev[2][0] == 'range':
            marks.append(('range', ev[2][1], ev[2][2], bool(ev[2][3])))
        elif ev[0] == 'loop-head' and len(ev) > 4 and ev[4] is not None and not ev[4][4]:
            if rl is None:
                rl = range_insert_loops(ctx, sr)
            if (ev[1], ev[2]) in rl:
                marks.append(('range', ev[4][1], ev[4][2], bool(ev[4][3])))
    return marks


# ---------------------------------------------------------------------------
# R-DIRTY
def r_dirty(ctx, chk, funcs, rule='R-DIRTY'):
    """every row written (cell put / removed, row put / removed, write through an element reference,
    whole-buffer replacement) is covered by a dirty mark: on exit every written row is marked; inside a
    loop a written row may stay pending only while it is the current cursor row"""
    sr = ctx.screen_run()
    eng = sr['engine']
    prog = ctx.prog
    results = {}
    eps_d = set()
    pend_ranges = set()
    for seg in all_segments(sr, funcs):
        st = seg['st']
        pre, evs = seg_events(seg)
        allev = pre + evs
        writes = []      # (row key NumV or 'ALL', description, line, func)
        for ev in evs:
            if ev[0] in ('map.insert', 'map.entry_or_insert', 'map.remove') and ev[1] and ev[1][0] == 'S' and len(ev[1]) >= 2 and ev[1][1] == 'buffer':
                if ev[0] == 'map.entry_or_insert':
                    continue      # materialising a default changes no appearance (R-ABSENT (a) checks the value)
                if len(ev[1]) == 2:
                    writes.append((ev[2], '%s row' % ev[0], ev[-2], ev[-1]))
                else:
                    r = row_of_path(ev[1])
                    writes.append((r if isinstance(r, NumV) else 'ALL', '%s cell' % ev[0], ev[-2], ev[-1]))
            elif ev[0] == 'w' and ev[1] and ev[1][0] == 'buffer':
                keys = [x for x in ev[1] if isinstance(x, tuple) and x[0] == 'e']
                if not keys:
                    writes.append(('ALL', 'buffer replaced', None, seg['func']))
                else:
                    r = keys[0][1]
                    known_row = isinstance(r, NumV) and (r.sym is None or symname(r.sym) != 's%d' % r.sym)
                    writes.append((r if isinstance(r, NumV) and not is_anon(r) else 'ALL', 'write through an element reference', None, seg['func']))
            elif ev[0] in ('coll.clear', 'map.extend', 'coll.retain') and ev[1] and ev[1][0] == 'S' and len(ev[1]) >= 2 and ev[1][1] == 'buffer':
                if ev[0] == 'coll.retain':
                    continue      # pruning outside the visible grid (checked by R-GRID / C16)
                r_ = row_of_path(ev[1]) if len(ev[1]) >= 3 else None
                writes.append((r_ if isinstance(r_, NumV) else 'ALL', ev[0], ev[-2], ev[-1]))
        if not writes:
            continue
        marks = dirty_marks(ctx, sr, allev)
        # marks that follow in the same function after a loop are not visible on a back-edge segment:
        # a pending row is allowed there only if it is the current cursor row (deferred mark)
        cur_y = get(eng, st, 'cursor', 'y')
        lines = get(eng, st, 'lines')
        for (row, what, line, func) in writes:
            if func not in funcs:
                continue
            eps_d.add(seg['ep'])
            covered = False
            if row == 'ALL':
                for m in marks:
                    if m[0] == 'range' and isinstance(m[1], NumV) and isinstance(m[2], NumV) and isinstance(lines, NumV):
                        if eng.prove_le(st, m[1], NumV(None, 0, 'u32')) is True and eng.prove_le(st, lines, m[2]) is True:
                            covered = True
            else:
                for m in marks:
                    if m[0] == 'one' and isinstance(m[1], NumV) and eng.prove_cmp(st, 'eq', m[1], row) is True:
                        covered = True
                    elif m[0] == 'range' and isinstance(m[1], NumV) and isinstance(m[2], NumV):
                        lo_ok = eng.prove_le(st, m[1], row) is True
                        hi_ok = eng.prove_cmp(st, 'le' if m[3] else 'lt', row, m[2]) is True
                        if lo_ok and hi_ok:
                            covered = True
                        elif isinstance(lines, NumV) and eng.prove_le(st, m[1], NumV(None, 0, 'u32')) is True and \
                                eng.prove_le(st, lines, NumV(m[2].sym, m[2].k + (1 if m[3] else 0), m[2].ty)) is True:
                            covered = True      # every row of the screen as it is now is marked
                if not covered and seg['kind'] == 'backedge' and isinstance(cur_y, NumV) and eng.prove_cmp(st, 'eq', cur_y, row) is True:
                    covered = 'deferred'
                if not covered and seg['kind'] == 'backedge' and isinstance(row, NumV) and row.sym is not None and row.k == 0:
                    # the row is the element of an enclosing range loop: fine if the whole range is marked after that loop
                    from .values import IterV as _IterV
                    it_ = st.vn.get(('itersym', row.sym))
                    if isinstance(it_, _IterV) and it_.kind == 'range' and not it_.ops and isinstance(it_.args[0], NumV) and isinstance(it_.args[1], NumV):
                        covered = 'deferred-range'
                        pend_ranges.add((seg['ep'], it_.args[0].key(), it_.args[1].key(), bool(it_.args[2])))
            key = (short(func), '%s (line-ordinal %s)' % (what, line_ord(prog, func, line)))
            d = results.setdefault(key, dict(ok=True, n=0, why='', line=line, func=func, deferred=False))
            d['n'] += 1
            if covered == 'deferred':
                d['deferred'] = True
                d.setdefault('loopfuncs', set()).add(seg['func'])      # the function whose loop carries the pending row
            if not covered and d['ok']:
                d['ok'] = False
                d['why'] = 'row %s written, dirty marks on the path: %s | %s' % (
                    'ALL ROWS' if row == 'ALL' else term(eng, st, row),
                    [('row ' + term(eng, st, m[1])) if m[0] == 'one' else 'rows %s..%s%s' % (term(eng, st, m[1]), '=' if m[3] else '', term(eng, st, m[2])) for m in marks] or 'none',
                    seg['label'])
    # deferred rows: the function must mark the cursor row on every exit path after the loop
    for key, d in sorted(results.items()):
        body = prog.bodies[d['func']]
        chk.instance(rule, key[0], key[1], d['ok'], detail=d['why'] or '%d visits, every written row covered%s' % (d['n'], ' (cursor row deferred to the mark after the loop)' if d['deferred'] else ''),
                     span=dict(file=body.span['file'], line=d['line'] or body.span['line']),
                     what='a row whose appearance changes is not in the dirty set: ' + d['why'])
    # rows written in a loop over a range and marked only after it: every exit path that went through
    # such a loop must mark the whole range afterwards
    by_ep = {}
    for (epn, lok, hik, incl) in pend_ranges:
        by_ep.setdefault(epn, []).append((lok, hik, incl))
    for epn, rngs in sorted(by_ep.items()):
        bad = []
        cnt = 0
        for seg in all_segments(sr, {epn}):
            if seg['kind'] != 'exit' or seg['ep'] != epn:
                continue
            st = seg['st']
            evs = st.event_list()
            for i, ev in enumerate(evs):
                if ev[0] != 'loop-head' or len(ev) < 5 or ev[4] is None or ev[4][4]:
                    continue
                lo, hi, incl = ev[4][1], ev[4][2], bool(ev[4][3])
                if not (isinstance(lo, NumV) and isinstance(hi, NumV)) or (lo.key(), hi.key(), incl) not in rngs:
                    continue
                cnt += 1
                okc = False
                for m in dirty_marks(ctx, sr, evs[i + 1:]):
                    if m[0] == 'range' and isinstance(m[1], NumV) and isinstance(m[2], NumV) and eng.prove_le(st, m[1], lo) is True:
                        if bool(m[3]) == incl or (m[3] and not incl):
                            okh = eng.prove_le(st, hi, m[2]) is True
                        else:       # the mark excludes its end, the loop includes it
                            okh = eng.prove_cmp(st, 'lt', hi, m[2]) is True
                        if okh:
                            okc = True
                if not okc:
                    bad.append('[%s] rows %s..%s written in a loop are not all marked after it' % (seg['label'], term(eng, st, lo), term(eng, st, hi)))
                break
        chk.instance(rule, short(epn), 'rows written in a range loop are marked after the loop', cnt > 0 and not bad,
                     detail='; '.join(sorted(set(bad))[:2]) or '%d exit paths through such a loop' % cnt, span=prog.bodies[epn].span,
                     what='; '.join(sorted(set(bad))[:2]) or 'no exit path through the loop was found')
    # exit clause for deferred marks
    ndef = 0
    for f in sorted({lf for d in results.values() if d['deferred'] for lf in d.get('loopfuncs', {d['func']})}):
        bad = []
        cnt = 0
        eps_using = [e for e in sr['results'] if e in funcs]
        for seg in all_segments(sr, funcs):
            if seg['kind'] != 'exit':
                continue
            st = seg['st']
            evs = st.event_list()
            if not any(ev[0] == 'loop-head' and ev[1] == f for ev in evs):
                continue
            cnt += 1
            # after the last loop-head of f, the cursor row current at exit must be marked
            last = max(i for i, ev in enumerate(evs) if ev[0] == 'loop-head' and ev[1] == f)
            cy = get(eng, st, 'cursor', 'y')
            # the row that was pending when the loop was left is the cursor row at the loop head
            # (the exit path runs from the cut head): it must be covered by a mark that follows
            hd = evs[last]
            yh = st.vn.get(('lh', hd[1], hd[2], 'y'))
            if not mark_covers(eng, st, dirty_marks(ctx, sr, evs[last + 1:]), yh if isinstance(yh, NumV) else cy):
                bad.append(seg['label'])
        ndef += 1
        chk.instance(rule, short(f), 'cursor row marked after the loop', cnt > 0 and not bad, detail='%d exit paths through the loop; unmarked: %s' % (cnt, bad[:2]),
                     span=prog.bodies[f].span, what='rows written inside the loop are left unmarked on exit (%s)' % bad[:1])
        # the pending row is always the current cursor row: an iteration that may move the cursor to
        # another row must mark the row it leaves (the cursor row at the loop head) before the back edge
        badm = []
        nseg = 0
        for sg in sr['segments']:
            if sg['func'] != f or sg['ep'] not in funcs:
                continue
            st = sg['st']
            yh = st.vn.get(('lh', f, sg['head'], 'y'))
            ye = get(eng, st, 'cursor', 'y')
            if not (isinstance(yh, NumV) and isinstance(ye, NumV)):
                continue
            nseg += 1
            if eng.prove_cmp(st, 'eq', yh, ye) is True:
                continue
            pre, lev = seg_events(dict(sg, kind='backedge'))
            if not mark_covers(eng, st, dirty_marks(ctx, sr, lev), yh):
                badm.append('[%s] the cursor leaves row %s for row %s without marking it' % (sg['entry'], term(eng, st, yh), term(eng, st, ye)))
        chk.instance(rule, short(f), 'a row left by the cursor inside the loop is marked before the next iteration', nseg > 0 and not badm,
                     detail='; '.join(sorted(set(badm))[:2]) or '%d iteration paths' % nseg, span=prog.bodies[f].span,
                     what='rows written in earlier iterations stay unmarked: ' + '; '.join(sorted(set(badm))[:2]))
    return Cnt(len(results), eps_d)


def mark_covers(eng, st, marks, row):
    if not isinstance(row, NumV):
        return False
    lines = get(eng, st, 'lines')
    for m in marks:
        if m[0] == 'one' and isinstance(m[1], NumV) and eng.prove_cmp(st, 'eq', m[1], row) is True:
            return True
        if m[0] == 'range' and isinstance(m[1], NumV) and isinstance(m[2], NumV):
            if eng.prove_le(st, m[1], row) is True and eng.prove_cmp(st, 'le' if m[3] else 'lt', row, m[2]) is True:
                return True
            if isinstance(lines, NumV) and eng.prove_le(st, m[1], NumV(None, 0, 'u32')) is True and eng.prove_le(st, lines, m[2]) is True:
                return True
    return False


def is_anon(v):
    return isinstance(v, NumV) and v.sym is not None and symname(v.sym).startswith('s') and symname(v.sym)[1:].isdigit()


def line_ord(prog, func, line):
    if line is None:
        return '-'
    body = prog.bodies[func]
    lines = sorted({t['span']['line'] for bi, t in prog.calls(body)})
    return str(lines.index(line)) if line in lines else '?'


# ---------------------------------------------------------------------------
# R-ZERO1
def path_sig(eng, st, evs):
    x = get(eng, st, 'cursor', 'x')
    y = get(eng, st, 'cursor', 'y')
    sig = [('x', term(eng, st, x)), ('y', term(eng, st, y))]
    for ev in evs:
        if ev[0] in ('map.insert', 'map.remove', 'map.entry_or_insert', 'set.insert') and ev[1] and ev[1][0] == 'S':
            pth = tuple(p if isinstance(p, str) else ('e', term(eng, st, p[1]) if isinstance(p[1], NumV) else '?') for p in ev[1])
            sig.append((ev[0], pth, term(eng, st, ev[2]) if isinstance(ev[2], NumV) else type(ev[2]).__name__))
        elif ev[0] == 'set.extend' and ev[1] and ev[1][0] == 'S' and isinstance(ev[2], tuple) and ev[2][0] == 'range':
            sig.append((ev[0], ev[1], term(eng, st, ev[2][1]), term(eng, st, ev[2][2])))
        elif ev[0] == 'w' and ev[1] and ev[1][0] not in ('buffer',):
            sig.append(('w', tuple(p for p in ev[1] if isinstance(p, str)), term(eng, st, ev[2]) if isinstance(ev[2], NumV) else type(ev[2]).__name__))
        elif ev[0] == 'loop-head':
            sig.append(('loop', short(ev[1])))
    return tuple(sig)


def r_zero1(ctx, chk, meths, rule='R-ZERO1'):
    """a count of 0 behaves exactly like an absent count: the abstract path set (final cursor terms and
    the symbolic grid operations) of the partition Some(0) equals that of the partition None"""
    sr = ctx.screen_run()
    eng = sr['engine']
    prog = ctx.prog
    n = 0
    for meth, argidx in meths:
        f = ep(meth)
        rs = sr['results'].get(f)
        if not rs:
            chk.instance(rule, short(f), 'analysed', False, what='%s not analysed' % meth, undischarged=True)
            continue
        groups = {}
        for r in rs:
            combo = r.combo
            kind = combo[argidx][1][0]
            zero = combo[argidx][1][0] == 'some_num' and combo[argidx][1][2] == 0 and combo[argidx][1][3] == 0
            if kind == 'none' or zero:
                other = tuple(c[0] for i, c in enumerate(combo) if i != argidx)
                g = groups.setdefault((r.margins, other), {})
                sigs = set()
                for (st, ret) in r.finals:
                    sigs.add(path_sig(eng, st, st.event_list()))
                for s in sr['segments']:
                    if s['ep'] == f and s['entry'].endswith('[%s]' % r.label):
                        sigs.add(('seg', s['func'], path_sig(eng, s['st'], s['st'].event_list())))
                g['none' if kind == 'none' else 'zero'] = sigs
        for (mg, other), g in sorted(groups.items(), key=str):
            if 'none' not in g or 'zero' not in g:
                continue
            ok = g['none'] == g['zero']
            n += 1
            diff = ''
            if not ok:
                a = sorted(g['zero'] - g['none'], key=str)[:1]
                b = sorted(g['none'] - g['zero'], key=str)[:1]
                diff = 'with 0: %s ; absent: %s' % (a, b)
            chk.instance(rule, short(f), 'parameter %d: 0 == absent [margins=%s%s]' % (argidx, mg, (' ' + ' '.join(other)) if other else ''), ok,
                         detail=diff[:600] or 'identical path sets (%d)' % len(g['none']), span=prog.bodies[f].span,
                         what='a zero parameter does not behave like an absent one (documented: both mean 1): ' + diff[:400])
    return n


# ---------------------------------------------------------------------------
def palette_guard(ctx, chk, rule='R-GUARD'):
    """the index used on the 256-colour palette ranges over exactly 0..=255 (length 256)"""
    sr = ctx.screen_run()
    eng = sr['engine']
    prog = ctx.prog
    agg = {}
    for e in sr['events']:
        ev = e['ev']
        if ev[0] != 'vec.index':
            continue
        prov = ev[3]
        if not (isinstance(prov, tuple) and 'FG_BG_256' in str(prov)):
            continue
        st = e['st']
        idx = ev[2]
        lo, hi = eng.bounds(st, idx) if isinstance(idx, NumV) else (None, None)
        k = (short(e['func']), 'palette index @%s' % site_ord(prog, e))
        a = agg.setdefault(k, dict(lo=lo, hi=hi, span=e['span']))
        a['lo'] = min(a['lo'], lo)
        a['hi'] = max(a['hi'], hi)
    from .tables import static_value
    pv = static_value(eng, 'graphics::FG_BG_256')
    ln = len(pv.known) if isinstance(pv, CollV) and pv.known is not None else None
    chk.instance(rule, 'graphics::FG_BG_256', 'palette has 256 entries', ln == 256, detail='length %s (vec! of 16 + pushes in two constant loops, counted by the interpreter)' % ln,
                 what='the 256-colour palette has %s entries' % ln)
    for (f, c), a in sorted(agg.items()):
        ok = a['lo'] == 0 and a['hi'] == 255
        chk.instance(rule, f, c, ok, detail='index ranges over [%s, %s] at the lookup' % (a['lo'], a['hi']), span=a['span'],
                     what='palette entries selectable by 38/48;5;n are [%s, %s], documented 0..=255' % (a['lo'], a['hi']))
    return len(agg)
