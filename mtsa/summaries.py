"""Library summaries for engine E4 (the trusted base; listed in every evidence file).

Each summary models one library function by its documented contract on the
abstract values of values.py.  A summary returns a list of (state, result)
successors (empty list = the call diverges).  Preconditions that can panic
are registered as obligations through ctx.oblige().

A callee that has no summary is handled by `unknown`: result is an unknown of
the result type, every collection reachable through a `&mut` argument is
forgotten, and an obligation `unknown-callee` is recorded as NOT discharged,
so that nothing unmodelled can pass silently.
"""
import itertools
import os
import sys
import re

from .values import (UNIT, BoolV, CharV, ClosureV, CollV, EnumV, FnV, INT_RANGES, IterV, NumV,
                     OpaqueV, RefV, StrV, StructV, V, none, opt_either, path_str, some)
from .zone import INF

_c = itertools.count(1)

# callees that never panic and whose result is just "unknown of the return type"
TOTAL_OPAQUE = {
    'unicode_normalization::char::is_combining_mark',
    'core::fmt::rt::Argument::<\'_>::new_debug',
    'std::io::_print',
    'std::hint::must_use',
}


def _norm(path):
    return path


class Summaries:
    def __init__(self, eng):
        self.eng = eng
        self.table = {}
        self.patterns = []
        self.used = {}
        self.unknown_seen = {}
        self._register()

    # ------------------------------------------------------------------
    # ordered maps / sets: for everything the properties speak about (membership, lookup, insertion, removal,
    # per-element iteration) `BTreeMap` / `BTreeSet` behave as `HashMap` / `HashSet`; their calls are decided by
    # the same summaries (methods only the ordered ones have - range, first_key_value, .. - keep their own name
    # and fall to the generic model)
    BTREE_RX = None

    @staticmethod
    def norm_btree(name):
        if 'BTree' not in name and 'btree_' not in name:
            return name
        n = name
        n = n.replace('std::collections::BTreeMap::<K, V, A>::', 'std::collections::HashMap::<K, V, S, A>::')
        n = n.replace('std::collections::BTreeMap::<K, V>::', 'std::collections::HashMap::<K, V>::')
        n = n.replace('std::collections::BTreeSet::<T, A>::', 'std::collections::HashSet::<T, S, A>::')
        n = n.replace('std::collections::BTreeSet::<T>::', 'std::collections::HashSet::<T>::')
        n = n.replace('std::collections::BTreeMap<K, V, A>', 'std::collections::HashMap<K, V, S, A>')
        n = n.replace('std::collections::BTreeSet<T, A>', 'std::collections::HashSet<T, S, A>')
        n = n.replace('std::collections::BTreeMap<K, V>', 'std::collections::HashMap<K, V>')
        n = n.replace('std::collections::BTreeSet<T>', 'std::collections::HashSet<T>')
        n = n.replace("std::collections::btree_map::Entry::<'a, K, V, A>::", "std::collections::hash_map::Entry::<'a, K, V>::")
        n = n.replace('std::collections::btree_map::', 'std::collections::hash_map::').replace('std::collections::btree_set::', 'std::collections::hash_set::')
        return n

    def apply(self, ctx):
        name = ctx.callee or '<indirect>'
        if 'BTree' in name or 'btree_' in name:
            n2 = self.norm_btree(name)
            if n2 != name and (n2 in self.table or any(rx.search(n2) for rx, _g in self.patterns)):
                name = n2
                ctx.callee = n2
        f = self.table.get(name)
        if f is None:
            for rx, g in self.patterns:
                if rx.search(name):
                    f = g
                    break
        if f is None:
            # a std adaptor's own implementation of an Iterator method (`<Copied<I> as Iterator>::nth`): it is
            # specified to behave like the provided method of the trait
            m_ = re.match(r'^<(std|core)::[^ ]* as (std::iter::(?:DoubleEnded)?Iterator)>::(\w+)$', name)
            if m_:
                n3 = '%s::%s' % (m_.group(2), m_.group(3))
                f = self.table.get(n3)
                if f is None:
                    for rx, g in self.patterns:
                        if rx.search(n3):
                            f = g
                            break
                if f is not None:
                    name = n3
                    ctx.callee = n3
        if f is None and name.endswith('::ne'):
            # PartialEq::ne is the negation of eq
            eqn = name[:-2] + 'eq'
            g = self.table.get(eqn)
            if g is None:
                for rx, g2 in self.patterns:
                    if rx.search(eqn):
                        g = g2
                        break
            if g is not None:
                self.used[name] = self.used.get(name, 0) + 1
                r = g(ctx)
                rs = [(ctx.st, r)] if isinstance(r, V) else r
                out = []
                for (s, b) in rs:
                    if isinstance(b, BoolV):
                        out.append((s, BoolV(not b.val) if b.val is not None else BoolV(None, ('not', b))))
                    else:
                        out.append((s, BoolV(None, ('fact', ('ne?', next(_c))))))
                return out
        if f is None:
            if self.total_std(name):
                return self.total(ctx)
            return self.unknown(ctx)
        self.used[name] = self.used.get(name, 0) + 1
        r = f(ctx)
        if r is None:
            return [(ctx.st, UNIT)]
        if isinstance(r, V):
            return [(ctx.st, r)]
        return r

    # ------------------------------------------------------------------
    # library functions that are documented never to panic (for any arguments): modelled generically
    # as "unknown result of the return type; everything reachable through a `&mut` argument is
    # forgotten; closure arguments are analysed once on arbitrary inputs".  Functions that CAN panic
    # (indexing, slicing, unwrap/expect, insert/remove by index, split_at, chunks(0), clamp, sum/product,
    # pow, borrow_mut, ...) are deliberately absent: they need a real summary with an obligation.
    TOTAL_METHODS = (
        # Option / Result
        'is_some|is_none|is_ok|is_err|ok|err|as_ref|as_mut|as_deref|as_deref_mut|take|replace|cloned|copied|filter|or_else|or|and|and_then|xor|zip|'
        'unwrap_or_else|unwrap_or_default|unwrap_or|map_or|map_or_else|map|map_err|ok_or|ok_or_else|iter|iter_mut|get_or_insert|get_or_insert_with|insert|flatten|transpose|is_some_and|is_none_or|is_ok_and|'
        # strings
        'new|with_capacity|len|is_empty|clear|push|push_str|pop|as_str|as_bytes|chars|bytes|char_indices|to_lowercase|to_uppercase|to_ascii_lowercase|to_ascii_uppercase|'
        'trim|trim_start|trim_end|trim_matches|trim_start_matches|trim_end_matches|strip_prefix|strip_suffix|starts_with|ends_with|contains|find|rfind|matches|split|rsplit|splitn|split_once|rsplit_once|'
        'split_whitespace|split_terminator|lines|is_char_boundary|from_utf8_lossy|from_utf8|to_string|to_owned|into_owned|into_boxed_str|into_bytes|is_ascii|eq_ignore_ascii_case|parse|'
        'capacity|reserve|shrink_to_fit|extend|extend_from_slice|append|reverse|sort|sort_unstable|sort_by|sort_by_key|sort_unstable_by|sort_unstable_by_key|dedup|dedup_by_key|retain|retain_mut|to_vec|concat|join|'
        'first|last|first_mut|last_mut|get|get_mut|contains_key|binary_search|binary_search_by|binary_search_by_key|fill|as_slice|as_mut_slice|truncate|split_first|split_last|iter|into_iter|'
        # maps / sets
        'remove|remove_entry|entry|or_insert|or_insert_with|or_default|and_modify|keys|values|values_mut|into_keys|into_values|drain|union|intersection|difference|symmetric_difference|'
        'is_subset|is_superset|is_disjoint|get_key_value|'
        # iterators
        'filter_map|enumerate|chain|rev|skip|take|skip_while|take_while|peekable|flat_map|fuse|inspect|count|min|max|min_by|max_by|min_by_key|max_by_key|fold|try_fold|all|any|find|find_map|position|rposition|'
        'collect|for_each|nth|next|next_back|peek|by_ref|size_hint|last|unzip|partition|cmp|partial_cmp|eq|ne|lt|le|gt|ge|'
        # numbers / chars
        'checked_add|checked_sub|checked_mul|checked_div|checked_rem|checked_neg|checked_shl|checked_shr|checked_pow|saturating_add|saturating_sub|saturating_mul|saturating_pow|'
        'wrapping_add|wrapping_sub|wrapping_mul|wrapping_neg|wrapping_shl|wrapping_shr|overflowing_add|overflowing_sub|overflowing_mul|abs_diff|leading_zeros|trailing_zeros|count_ones|count_zeros|'
        'is_power_of_two|signum|is_positive|is_negative|rotate_left|rotate_right|swap_bytes|to_be|to_le|from_be|from_le|'
        'is_alphabetic|is_numeric|is_alphanumeric|is_whitespace|is_control|is_uppercase|is_lowercase|is_ascii_alphabetic|is_ascii_digit|is_ascii_alphanumeric|is_ascii_punctuation|'
        'is_ascii_graphic|is_ascii_whitespace|is_ascii_control|is_ascii_hexdigit|is_ascii_uppercase|is_ascii_lowercase|to_digit|len_utf8|len_utf16|from_u32|encode_utf8|'
        # generic traits
        'clone|clone_from|default|from|into|try_from|try_into|as_ref|as_mut|borrow|deref|deref_mut|fmt|hash|drop')
    TOTAL_RX = None

    def total_std(self, name):
        import re as _re
        if Summaries.TOTAL_RX is None:
            Summaries.TOTAL_RX = _re.compile(r'(?:^|::|>::)(?:%s)(?:::<.*>)?$' % Summaries.TOTAL_METHODS)
        if not (name.startswith('std::') or name.startswith('core::') or name.startswith('alloc::') or name.startswith('<')):
            return False
        # crate paths inside <..> qualifiers must be std types or primitives
        if name.startswith('<') and not _re.match(r'^<(&|\[|\(|std::|core::|alloc::|[a-z0-9]+ as |[A-Z] as |I as |T as )', name):
            if not any(name.startswith('<' + p) for p in ('char', 'u8', 'u16', 'u32', 'u64', 'usize', 'i8', 'i16', 'i32', 'i64', 'isize', 'bool', 'str', 'String')):
                return False
        if any(bad in name for bad in ('RefCell', 'sync::mpsc', 'thread::', 'process::', 'fs::', 'net::', 'env::')):
            return False
        # index / range taking methods of sequences and strings can panic
        if _re.search(r'(vec::Vec|VecDeque|impl \[T\]|slice::)', name) and _re.search(
                r'::(remove|insert|drain|swap_remove|split_off|swap|split_at|split_at_mut|copy_from_slice|clone_from_slice|rotate_left|rotate_right|chunks|chunks_exact|windows|copy_within)(::<.*>)?$', name):
            return False
        if _re.search(r'(string::String|impl str)', name) and _re.search(
                r'::(remove|insert|insert_str|drain|truncate|split_off|split_at|replace_range)(::<.*>)?$', name):
            return False
        return Summaries.TOTAL_RX.search(name) is not None

    def total(self, ctx):
        """generic model of a never-panicking library function"""
        eng = self.eng
        st = ctx.st
        name = ctx.callee
        self.used['total:' + name] = self.used.get('total:' + name, 0) + 1
        if self.used['total:' + name] == 1 and os.environ.get('MTSA_DEBUG_TOTAL'):
            sys.stderr.write('[generic model] %s (in %s)\n' % (name, ctx.fr.func))
        for a in ctx.args:
            if isinstance(a, ClosureV):
                body = eng.prog.bodies.get(a.func)
                if body is not None:
                    s2 = st.fork()
                    args = [eng.mk_default(s2, body.locals[i]['ty']) for i in range(2, body.arg_count + 1)]
                    try:
                        eng.call_value(s2, a, args, ctx.depth, ctx.fr, ctx.bi)
                    except Exception:
                        pass
            if isinstance(a, RefV) and a.mut:
                try:
                    cur = eng.read(st, a.path)
                    eng.write(st, a.path, self.havoc_value(st, cur), log=(a.path[0] == ('H', 'S')))
                except Exception:
                    pass
        return [(st, eng.mk_default(st, ctx.ret_ty))]

    def havoc_value(self, st, v):
        eng = self.eng
        if isinstance(v, CollV):
            return CollV(v.kind, v.ty, v.cid, v.ver + 1, eng.fresh_num(st, 'usize', 0, 2**40) if v.kind in ('vec', 'slice') else None, None, None, ('havoc', v.prov))
        if isinstance(v, StrV):
            return StrV(None, oid=next(_c), prov=('havoc',))
        if isinstance(v, NumV):
            return eng.fresh_num(st, v.ty if v.ty in INT_RANGES else 'u64')
        if isinstance(v, BoolV):
            return BoolV(None, ('fact', ('havoc', next(_c))))
        if isinstance(v, EnumV):
            return eng.mk_default(st, v.ty)
        if isinstance(v, StructV):
            return StructV(v.ty, {}, None)
        return v

    def unknown(self, ctx):
        name = ctx.callee or '<indirect>'
        self.unknown_seen[name] = self.unknown_seen.get(name, 0) + 1
        ctx.oblige('unknown-callee', name, False, 'no summary for this library function')
        return [(ctx.st, ctx.eng.mk_default(ctx.st, ctx.ret_ty))]

    def reg(self, *names):
        def deco(f):
            for n in names:
                self.table[n] = f
            return f
        return deco

    def regx(self, pattern):
        def deco(f):
            self.patterns.append((re.compile(pattern), f))
            return f
        return deco

    # ------------------------------------------------------------------
    def _register(self):
        eng = self.eng
        reg, regx = self.reg, self.regx

        # ---------- helpers -------------------------------------------
        def deref(ctx, v):
            """value behind a reference (strings are by value)"""
            while isinstance(v, RefV):
                v = eng.read(ctx.st, v.path)
            return v

        def deref1(ctx, v):
            if isinstance(v, RefV):
                return eng.read(ctx.st, v.path)
            return v

        def sval(ctx, v):
            """string value with learnt equalities applied"""
            v = deref(ctx, v)
            if isinstance(v, StrV) and v.known is None and v.oid is not None:
                k = ctx.st.vn.get(('strval', v.oid))
                if k is not None:
                    return StrV(k, v.prov, v.oid)
            if isinstance(v, CharV) and v.known is not None:
                return StrV(v.known)
            return v

        def coll_at(ctx, r, kind=None, ty=None):
            """(path, CollV) for a reference to a collection"""
            if isinstance(r, RefV):
                v = eng.read(ctx.st, r.path)
                if not isinstance(v, CollV):
                    nv = eng.mk_default(ctx.st, ty or getattr(v, 'ty', '?'))
                    if not isinstance(nv, CollV):
                        nv = CollV(kind or 'map', ty or '?', next(_c))
                    try:
                        eng.write(ctx.st, r.path, nv, log=False)
                    except Exception:
                        pass
                    v = nv
                return r.path, v
            if isinstance(r, CollV):
                return None, r
            return None, CollV(kind or 'map', ty or '?', next(_c))

        def bump(ctx, path, c, **kw):
            if path is None:
                return c.evolve(ver=c.ver + 1, **kw)
            nc = c.evolve(ver=c.ver + 1, **kw)
            eng.write(ctx.st, path, nc, log=False)
            return nc

        def spath(path):
            """readable names of a store path for the effect log"""
            if path is None:
                return None
            root, elems = path
            out = [root[-1] if root[0] == 'H' else '_%s' % (root[-1],)]
            for e in elems:
                if e[0] == 'f':
                    out.append(e[1])
                elif e[0] == 'e':
                    out.append(('e', e[1]))
                elif e[0] == 'v':
                    out.append(('v', e[1]))
            return tuple(out)

        def _distinct_keys(a, b):
            """two value keys that cannot denote the same value (constants, or one symbol with different offsets)"""
            return isinstance(a, tuple) and isinstance(b, tuple) and len(a) == 3 and len(b) == 3 and a[0] == b[0] == 'n' \
                and a[1] == b[1] and a[2] != b[2]

        def carry_contains(ctx, c, nc, k, present):
            """membership facts across one insert / remove of key k: k itself is present / absent in the new
            version, what was known about provably different keys still holds"""
            st = ctx.st
            kk = k.key() if isinstance(k, V) else None
            ck, nk = c.key(), nc.key()
            if kk is not None:
                for fk, val in list(st.vn.items()):
                    if isinstance(fk, tuple) and len(fk) == 2 and fk[0] == 'fact' and isinstance(fk[1], tuple) and len(fk[1]) == 3 \
                            and fk[1][0] == 'contains' and fk[1][1] == ck and _distinct_keys(fk[1][2], kk):
                        st.vn[('fact', ('contains', nk, fk[1][2]))] = val
                st.vn[('fact', ('contains', nk, kk))] = present

        def origin_spath(st, path):
            """spath(path), except that a local which holds a collection *moved out of the Screen*
            (`let old = std::mem::take(&mut self.buffer)`) is named by the field it came from: rows read
            from it are rows of the old grid"""
            sp = spath(path)
            if path is None or not sp:
                return sp
            root = path[0]
            if root and root[0] == 'L':
                v = st.store.get(root)
                cid = getattr(v, 'cid', None)
                if isinstance(v, CollV) and isinstance(cid, str) and cid.startswith('S.'):
                    return ('S',) + tuple(cid.split('.')[1:]) + tuple(sp[1:])
            return sp

        def bool_fact(ctx, key):
            cur = ctx.st.vn.get(('fact', key))
            if cur is not None:
                return BoolV(cur)
            return BoolV(None, ('fact', key))

        def fork_opt(ctx, o, f_none, f_some):
            """case split on an Option value; f_* get (state, payload) and return V or list"""
            o = deref1(ctx, o)
            out = []
            if not isinstance(o, EnumV):
                # unknown option
                s2 = ctx.st.fork()
                head, args = split_generic(getattr(o, 'ty', '?'))
                pay = eng.mk_default(ctx.st, args[0] if args else '?')
                r1 = f_some(ctx.st, pay)
                r0 = f_none(s2, None)
                return _results(ctx.st, r1) + _results(s2, r0)
            tags = o.tags
            if len(tags) > 1 and o.eid is not None:
                dec = ctx.st.vn.get(('tagof', o.eid))
                if dec is not None:
                    tags = frozenset({dec})
            if tags == {0}:
                return _results(ctx.st, f_none(ctx.st, None))
            p = o.payload.get(1)
            pay = p.fields.get('0') if p and p.fields else None
            if pay is None:
                head, args = split_generic(o.ty)
                pay = eng.mk_default(ctx.st, args[0] if args else '?')
            if tags == {1}:
                return _results(ctx.st, f_some(ctx.st, pay))
            s2 = ctx.st.fork()
            if o.eid is not None:
                eng.decide_tag(ctx.st, o.eid, 1)
                eng.decide_tag(s2, o.eid, 0)
            return _results(ctx.st, f_some(ctx.st, pay)) + _results(s2, f_none(s2, None))

        def _results(st, r):
            if r is None:
                return [(st, UNIT)]
            if isinstance(r, V):
                return [(st, r)]
            return r

        def with_state(ctx, st):
            c2 = type(ctx)(ctx.eng, st, ctx.fr, ctx.bi, ctx.t, ctx.fn, ctx.callee, ctx.args, ctx.depth)
            return c2

        def call_closure(ctx, st, f, args):
            return eng.call_value(st, f, args, ctx.depth, ctx.fr, ctx.bi)

        from .engine import split_generic, strip_ref, elem_type, DiscrV, Infeasible

        self.h = dict(deref=deref, sval=sval, coll_at=coll_at, spath=spath)

        # ---------- identity-like ---------------------------------------
        @reg('<I as std::iter::IntoIterator>::into_iter', '<std::collections::HashMap<K, V, S, A> as std::iter::IntoIterator>::into_iter',
             '<std::vec::Vec<T, A> as std::iter::IntoIterator>::into_iter',
             "std::array::<impl std::iter::IntoIterator for &'a [T; N]>::into_iter", "core::array::<impl std::iter::IntoIterator for &'a [T; N]>::into_iter",
             "<&'a std::vec::Vec<T, A> as std::iter::IntoIterator>::into_iter", "core::slice::iter::<impl std::iter::IntoIterator for &'a [T]>::into_iter",
             "std::array::iter::<impl std::iter::IntoIterator for [T; N]>::into_iter", "core::array::iter::<impl std::iter::IntoIterator for [T; N]>::into_iter")
        def _(ctx):
            a = ctx.args[0]
            return to_iter(ctx, a)

        @regx(r'as std::iter::IntoIterator>::into_iter$|^std::iter::IntoIterator::into_iter$')
        def _(ctx):
            # any other IntoIterator (generic `impl IntoIterator` parameters, adaptors ...): the value itself decides
            return to_iter(ctx, ctx.args[0])

        def range_like(ty):
            """(lo field, hi field, has a matching next_back) when ty is a crate-local struct with
            `impl Iterator` whose `next`, run on arbitrary field values, has exactly the outcomes of
            `Range::next`: `Some(lo)` with lo := lo + 1 when lo < hi, `None` with nothing changed when
            hi <= lo.  Decided once per type on the abstract outcomes of the function, not on its text."""
            cache = eng.__dict__.setdefault('rangelike', {})
            if ty in cache:
                return cache[ty]
            cache[ty] = False
            nxt = '<%s as std::iter::Iterator>::next' % ty
            adt = eng.prog.adts.get(ty)
            if nxt not in eng.prog.bodies or not adt or len(adt.get('variants', [])) != 1:
                return False
            flds = [(f['name'], f.get('ty')) for f in adt['variants'][0]['fields']]
            if not flds or any(t not in INT_RANGES for _n, t in flds):
                return False
            from .engine import State as _State

            def run(fn):
                st = _State()
                vals = {n: eng.fresh_num(st, t, name='%s.%s' % (ty.split('::')[-1], n)) for n, t in flds}
                root = ('H', 'rl%d' % next(_c))
                st.store[root] = StructV(ty, dict(vals))
                saved = (eng.hooks, eng.event_hook, eng.call_trace_hook)
                eng.hooks, eng.event_hook, eng.call_trace_hook = [], None, None
                eng.probing += 1
                try:
                    res = eng.exec_body(st, fn, [RefV((root, ()), True)])
                except Exception:
                    res = None
                finally:
                    eng.probing -= 1
                    eng.hooks, eng.event_hook, eng.call_trace_hook = saved
                return vals, root, res

            def matches(fn, back):
                vals, root, res = run(fn)
                if not res:
                    return None
                found = None
                n_some = n_none = 0
                for (s2, ret) in res:
                    after = s2.store.get(root)
                    if not (isinstance(ret, EnumV) and len(ret.tags) == 1 and isinstance(after, StructV)):
                        return None
                    changed = [n for n, _t in flds if not (isinstance(after.fields.get(n), NumV) and after.fields[n].key() == vals[n].key())]
                    if set(ret.tags) == {0}:
                        n_none += 1
                        if changed:
                            return None
                        continue
                    n_some += 1
                    pay = ret.payload.get(1).fields.get('0') if ret.payload.get(1) is not None else None
                    if len(changed) != 1 or not isinstance(pay, NumV):
                        return None
                    c = changed[0]
                    nv = after.fields[c]
                    if not back:
                        if not (nv.sym == vals[c].sym and nv.k == 1 and pay.key() == vals[c].key()):
                            return None
                        others = [n for n, _t in flds if n != c and eng.prove_cmp(s2, 'lt', vals[c], vals[n]) is True]
                    else:
                        if not (nv.sym == vals[c].sym and nv.k == -1 and pay.key() == nv.key()):
                            return None
                        others = [n for n, _t in flds if n != c and eng.prove_cmp(s2, 'lt', vals[n], vals[c]) is True]
                    if len(others) != 1:
                        return None
                    pair = (c, others[0]) if not back else (others[0], c)
                    if found is not None and found != pair:
                        return None
                    found = pair
                if not (n_some and n_none) or found is None:
                    return None
                # the None outcomes: hi <= lo
                for (s2, ret) in res:
                    if set(ret.tags) == {0} and eng.prove_le(s2, vals[found[1]], vals[found[0]]) is not True:
                        return None
                return found
            fwd = matches(nxt, False)
            if not fwd:
                return False
            nb = '<%s as std::iter::DoubleEndedIterator>::next_back' % ty
            bwd = matches(nb, True) if nb in eng.prog.bodies else None
            if nb in eng.prog.bodies and bwd != fwd:
                return False          # a next_back that is not the range's: `.rev()` would mean something else
            cache[ty] = (fwd[0], fwd[1], bwd == fwd)
            return cache[ty]
        self.range_like = range_like

        def to_iter(ctx, a, mode='val'):
            if isinstance(a, IterV):
                return a
            if isinstance(a, EnumV) and a.ty.startswith('std::option::Option') and len(a.tags) == 1:
                # `Some(x)` / `None` as an iterator of at most one element
                p = a.payload.get(1)
                items = (p.fields['0'],) if a.tags == {1} and p is not None and p.fields.get('0') is not None else ()
                if a.tags == {0} or items:
                    return IterV('known', ctx.ret_ty, (items, 0), iid=next(_c))
            if isinstance(a, StructV) and a.ty.startswith('std::ops::Range'):
                return range_iter(ctx, a)
            if isinstance(a, StructV):
                rl = range_like(a.ty)
                if rl:
                    # a crate-local iterator type whose `next` was shown to behave exactly like
                    # `Range::next` on two of its fields: it is that range
                    lo, hi = a.fields.get(rl[0]), a.fields.get(rl[1])
                    if isinstance(lo, NumV) and isinstance(hi, NumV):
                        return IterV('range', 'std::ops::Range<%s>' % lo.ty, (lo, hi, False), iid=next(_c))
            if isinstance(a, RefV):
                v = eng.read(ctx.st, a.path)
                if isinstance(v, CollV):
                    return IterV('coll', ctx.ret_ty, (a.path, v.key(), 'mut' if a.mut else 'ref'), iid=next(_c))
                if isinstance(v, IterV):
                    return v
                if isinstance(v, StructV) and v.ty.startswith('std::ops::Range'):
                    return range_iter(ctx, v)
            if isinstance(a, CollV):
                root = ('H', 'tmpcoll%d' % next(_c))
                ctx.st.store[root] = a
                return IterV('coll', ctx.ret_ty, ((root, ()), a.key(), 'val'), iid=next(_c))
            return IterV('opaque', ctx.ret_ty, (getattr(a, 'ty', '?'),), iid=next(_c))

        def range_iter(ctx, r):
            lo = r.fields.get('start')
            hi = r.fields.get('end')
            incl = 'Inclusive' in r.ty
            return IterV('range', r.ty, (lo, hi, incl), iid=next(_c))

        @reg('std::ops::RangeInclusive::<Idx>::new')
        def _(ctx):
            return StructV('std::ops::RangeInclusive', {'start': ctx.args[0], 'end': ctx.args[1]})

        @reg('std::iter::Iterator::flatten')
        def _(ctx):
            return to_iter(ctx, ctx.args[0]).with_op(('flatten',), ctx.ret_ty)

        @reg('std::iter::Iterator::enumerate')
        def _(ctx):
            return to_iter(ctx, ctx.args[0]).with_op(('enumerate',), ctx.ret_ty)

        @reg('std::iter::Iterator::rev')
        def _(ctx):
            return to_iter(ctx, ctx.args[0]).with_op(('rev',), ctx.ret_ty)

        @reg('std::iter::Iterator::cloned', 'std::iter::Iterator::copied')
        def _(ctx):
            return to_iter(ctx, ctx.args[0]).with_op(('cloned',), ctx.ret_ty)

        @reg('std::iter::Iterator::map')
        def _(ctx):
            return to_iter(ctx, ctx.args[0]).with_op(('map', ctx.args[1]), ctx.ret_ty)

        @regx(r'^std::ops::(Fn::call|FnMut::call_mut|FnOnce::call_once)$|^core::ops::function::(Fn::call|FnMut::call_mut|FnOnce::call_once)$')
        def _(ctx):
            f = deref(ctx, ctx.args[0])
            tup = ctx.args[1] if len(ctx.args) > 1 else UNIT
            if isinstance(tup, StructV) and all(k.isdigit() for k in tup.fields):
                cargs = [tup.fields[str(i)] for i in range(len(tup.fields))]
            elif tup is UNIT:
                cargs = []
            else:
                cargs = [tup]
            if isinstance(f, (ClosureV, FnV)):
                return eng.call_value(ctx.st, f, cargs, ctx.depth, ctx.fr, ctx.bi)
            ctx.oblige('unknown-callee', 'call through a function value that is not known', False, repr(f))
            return eng.mk_default(ctx.st, ctx.ret_ty)

        @reg('std::iter::Iterator::chain')
        def _(ctx):
            a = to_iter(ctx, ctx.args[0])
            b = to_iter(ctx, ctx.args[1])
            return IterV('chain', ctx.ret_ty, (a, b), iid=next(_c))

        @reg('std::iter::Iterator::zip')
        def _(ctx):
            a = to_iter(ctx, ctx.args[0])
            b = to_iter(ctx, ctx.args[1])
            return IterV('zip', ctx.ret_ty, (a, b), iid=next(_c))

        @reg('std::iter::Iterator::flat_map')
        def _(ctx):
            return to_iter(ctx, ctx.args[0]).with_op(('flat_map', ctx.args[1]), ctx.ret_ty)

        @reg('std::iter::Iterator::filter')
        def _(ctx):
            return to_iter(ctx, ctx.args[0]).with_op(('filter', ctx.args[1]), ctx.ret_ty)

        @reg('std::iter::Iterator::skip')
        def _(ctx):
            return to_iter(ctx, ctx.args[0]).with_op(('skip', ctx.args[1]), ctx.ret_ty)

        @reg('std::iter::Iterator::take')
        def _(ctx):
            return to_iter(ctx, ctx.args[0]).with_op(('take', ctx.args[1]), ctx.ret_ty)

        @reg('std::iter::Iterator::step_by')
        def _(ctx):
            n = ctx.args[1]
            ok = isinstance(n, NumV) and eng.bounds(ctx.st, n)[0] >= 1
            ctx.oblige('precondition', 'step_by(step != 0)', ok, repr(n))
            return to_iter(ctx, ctx.args[0]).with_op(('step_by', n), ctx.ret_ty)

        @reg('core::slice::<impl [T]>::iter', 'std::collections::HashSet::<T, S, A>::iter',
             'std::collections::HashMap::<K, V, S, A>::iter')
        def _(ctx):
            a = ctx.args[0]
            if isinstance(a, RefV):
                v = eng.read(ctx.st, a.path)
                if isinstance(v, CollV):
                    return IterV('coll', ctx.ret_ty, (a.path, v.key(), 'ref'), iid=next(_c))
            return IterV('opaque', ctx.ret_ty, ('iter',), iid=next(_c))

        @reg('std::collections::HashMap::<K, V, S, A>::iter_mut', 'std::collections::HashMap::<K, V, S, A>::values_mut')
        def _(ctx):
            a = ctx.args[0]
            path, c = coll_at(ctx, a)
            which = 'values_mut' if ctx.callee.endswith('values_mut') else 'iter_mut'
            return IterV('coll', ctx.ret_ty, (path, c.key(), which), iid=next(_c))

        @reg('std::collections::HashMap::<K, V, S, A>::keys')
        def _(ctx):
            path, c = coll_at(ctx, ctx.args[0])
            return IterV('coll', ctx.ret_ty, (path, c.key(), 'keys'), iid=next(_c))

        # ---------- iterator consumption --------------------------------
        def iter_elem(ctx, st, it, first=False, index=None):
            """abstract element produced by iterator `it`: list of (state, value_or_None)
            value None = exhausted.  Unless `first`/`index` is given the position is unknown."""
            out = []
            if it.kind == 'range':
                lo, hi, incl = it.args
                if isinstance(lo, NumV) and hi is None:
                    # `lo..`: any value from lo up
                    v = eng.fresh_num(st, lo.ty, None, None, name='it%d' % next(_c))
                    if eng.assume_le(st, lo, v):
                        return apply_ops(ctx, it, [(st, v)])
                    return [(st, None)]
                if not (isinstance(lo, NumV) and isinstance(hi, NumV)):
                    return [(st, eng.mk_default(st, 'u32')), (st.fork(), None)]
                # exhausted branch always possible unless provably non-empty at first
                s_some = st
                s_none = st.fork()
                v = eng.fresh_num(s_some, lo.ty, None, None, name='it%d' % next(_c))
                ok = eng.assume_le(s_some, lo, v)
                if incl:
                    ok = ok and eng.assume_le(s_some, v, hi)
                else:
                    ok = ok and eng.assume_cmp(s_some, 'lt', v, hi)
                for op in it.ops:
                    if op[0] == 'step_by':
                        pass   # stride forgotten: lo <= v < hi still holds
                # remember which iterator this element came from (rules about "every element of .. is ..")
                s_some.vn[('itersym', v.sym)] = it
                if ok and not s_some.zone.bottom:
                    out.append((s_some, v))
                out.append((s_none, None))
                return apply_ops(ctx, it, out)
            if it.kind == 'coll':
                path, ckey, mode = it.args
                c = eng.read(st, path) if path is not None else None
                if isinstance(c, CollV):
                    if c.known is not None and (first or index is not None):
                        i = index or 0
                        items = c.known
                        if any(o[0] == 'rev' for o in it.ops):
                            items = tuple(reversed(items))
                        if i < len(items):
                            e = items[i]
                            out.append((st, elem_ref(ctx, st, c, path, e, i, mode, items_known=True)))
                        else:
                            out.append((st, None))
                        return apply_ops(ctx, it, out)
                    if c.known is not None and len(c.known) == 0:
                        return [(st, None)]
                    # unknown position / unknown contents
                    s_none = st.fork()
                    if first or index is not None:
                        # refine by length when known
                        i = index or 0
                        if isinstance(c.length, NumV):
                            r = eng.prove_cmp(st, 'gt', c.length, NumV(None, i, 'usize'))
                            if r is True:
                                key = NumV(None, i, 'usize')
                                out.append((st, elem_ref(ctx, st, c, path, None, key, mode)))
                                return apply_ops(ctx, it, out)
                            if r is False:
                                return [(st, None)]
                            ok1 = eng.assume_cmp(st, 'gt', c.length, NumV(None, i, 'usize'))
                            ok0 = eng.assume_cmp(s_none, 'le', c.length, NumV(None, i, 'usize'))
                            if ok1:
                                out.append((st, elem_ref(ctx, st, c, path, None, NumV(None, i, 'usize'), mode)))
                            if ok0:
                                out.append((s_none, None))
                            return apply_ops(ctx, it, out)
                    er = elem_ref(ctx, st, c, path, None, None, mode)
                    # remember the element this iterator produced on this path (rules about "the loop's element")
                    ev_ = er
                    hops_ = 0
                    while isinstance(ev_, RefV) and hops_ < 3:
                        ev_ = eng.read(st, ev_.path)
                        hops_ += 1
                    st.vn[('iterelem', it.iid)] = ev_
                    out.append((st, er))
                    out.append((s_none, None))
                    return apply_ops(ctx, it, out)
            if it.kind == 'chars':
                s = it.args[0]
                if isinstance(s, StrV) and s.known is not None:
                    if first:
                        if len(s.known) > 0:
                            out.append((st, CharV(s.known[0], prov=('char-of', s.key(), 'first'))))
                        else:
                            out.append((st, None))
                        return apply_ops(ctx, it, out)
                    if len(s.known) == 0:
                        return [(st, None)]
                s_none = st.fork()
                prov = None
                if isinstance(s, StrV):
                    prov = ('char-of', s.key(), 'first' if first else 'any')
                nonempty = isinstance(s, StrV) and s.oid is not None and st.vn.get(('nonempty', s.oid))
                ch = CharV(None, next(_c), prov)
                if first and isinstance(s, StrV) and s.oid is not None:
                    key = ('firstchar', s.oid)
                    if key in st.vn:
                        ch = st.vn[key]
                    else:
                        st.vn[key] = ch
                        s_none.vn[key] = ch
                out.append((st, ch))
                if not (first and nonempty):
                    out.append((s_none, None))
                return apply_ops(ctx, it, out)
            if it.kind == 'chain':
                res = []
                for sub in it.args:
                    if isinstance(sub, IterV):
                        for (s2, y) in iter_elem(ctx, st.fork(), sub):
                            if y is not None:
                                res.append((s2, y))
                res.append((st, None))
                return apply_ops(ctx, it, res)
            if it.kind == 'zip':
                res = []
                a, b = it.args
                for (s2, x) in (iter_elem(ctx, st.fork(), a) if isinstance(a, IterV) else []):
                    if x is None:
                        continue
                    for (s3, y) in (iter_elem(ctx, s2, b) if isinstance(b, IterV) else []):
                        if y is not None:
                            res.append((s3, StructV('(A, B)', {'0': x, '1': y})))
                res.append((st, None))
                return apply_ops(ctx, it, res)
            if it.kind == 'known':
                items = it.args[0]
                pos = it.args[1]
                if pos is not None:
                    if pos < len(items):
                        return apply_ops(ctx, it, [(st, items[pos])])
                    return [(st, None)]
            s_none = st.fork()
            head, args = split_generic(it.ty)
            out.append((st, OpaqueV('elem', next(_c))))
            out.append((s_none, None))
            return apply_ops(ctx, it, out)

        def elem_ref(ctx, st, c, path, known_elem, key, mode, items_known=False):
            """what iterating collection c yields per element"""
            if c.kind == 'map':
                if items_known and isinstance(known_elem, tuple):
                    k, v = known_elem
                    if mode == 'keys':
                        return mkref(st, k)
                    if mode in ('values_mut',):
                        return mkref(st, v)
                    return StructV('(K, V)', {'0': mkref(st, k) if mode != 'val' else k, '1': mkref(st, v) if mode != 'val' else v})
                ety = elem_type(c.ty, 'map')
                head, args = split_generic(c.ty)
                kty = args[0] if args else '?'
                anyk = ('e', None)
                kv = eng.mk_default(st, kty) if mode != 'keys' or True else None
                if path is not None:
                    vref = RefV((path[0], path[1] + (('e', kv),)), mode in ('iter_mut', 'values_mut'))
                else:
                    vref = eng.mk_default(st, ety)
                if mode == 'keys':
                    return mkref(st, kv)
                if mode == 'values_mut' or mode == 'values':
                    return vref
                if mode == 'val':
                    vv = eng.read(st, vref.path) if isinstance(vref, RefV) else vref
                    if isinstance(vv, StrV) and vv.known is None and vv.prov is None and isinstance(kv, StrV) and kv.oid is not None:
                        vv = StrV(None, oid=vv.oid, prov=('map-value', kv.oid))      # the text the map holds under this key
                    return StructV('(K, V)', {'0': kv, '1': vv})
                return StructV('(K, V)', {'0': mkref(st, kv), '1': vref})
            # set / vec / slice / array
            if items_known and known_elem is not None:
                e = known_elem
            elif c.elem is not None:
                e = inst(st, c.elem)
            else:
                e = eng.mk_default(st, elem_type(c.ty, c.kind))
            if mode == 'val':
                return e
            if path is not None and isinstance(key, NumV):
                return RefV((path[0], path[1] + (('e', key),)), mode == 'mut')
            return mkref(st, e)

        def inst(st, e):
            """element summaries are templates: every access yields a fresh value with the same bounds"""
            if isinstance(e, NumV) and e.sym is not None:
                lo, hi = eng.bounds(st, e)
                return eng.fresh_num(st, e.ty, None if lo == -INF else lo, None if hi == INF else hi, name='elem')
            return e
        self.inst = inst

        def mkref(st, v):
            root = ('H', 'tmp%d' % next(_c))
            st.store[root] = v
            return RefV((root, ()))

        def apply_ops(ctx, it, results, keep_skips=False):
            """apply adaptor chain to produced elements"""
            ops = [o for o in it.ops if o[0] in ('cloned', 'map', 'filter', 'flat_map', 'enumerate', 'char_indices')]
            if not ops:
                return results
            out = []
            for (st, v) in results:
                if v is None:
                    out.append((st, None))
                    continue
                cur = [(st, v)]
                for op in ops:
                    nxt = []
                    for (s, x) in cur:
                        if op[0] == 'cloned':
                            nxt.append((s, eng.read(s, x.path) if isinstance(x, RefV) else x))
                        elif op[0] == 'char_indices':
                            # (byte offset of the character in the string, character): the offset is remembered
                            # as "where this character sits", for `&s[i..i + c.len_utf8()]`
                            if x == ('skip',):
                                nxt.append((s, x))
                            else:
                                idx = eng.fresh_num(s, 'usize', 0, 2**40, name='chidx')
                                sk = op[1].key() if isinstance(op[1], V) else None
                                s.vn[('char-at', sk, idx.sym)] = x
                                nxt.append((s, StructV('(usize, char)', {'0': idx, '1': x})))
                        elif op[0] == 'enumerate':
                            # position unknown here: (some index, element)
                            nxt.append((s, x if x == ('skip',) else StructV('(usize, T)', {'0': eng.fresh_num(s, 'usize', 0, 2**40, name='idx'), '1': x})))
                        elif op[0] == 'map':
                            for (s2, r) in eng.call_value(s, op[1], [x], ctx.depth, ctx.fr, ctx.bi):
                                nxt.append((s2, r))
                        elif op[0] == 'flat_map':
                            # an arbitrary element of the inner iterator the closure returns (or nothing)
                            for (s2, r) in eng.call_value(s, op[1], [x], ctx.depth, ctx.fr, ctx.bi):
                                inner = to_iter(with_state(ctx, s2), r)
                                for (s3, y) in iter_elem(ctx, s2, inner):
                                    nxt.append((s3, y if y is not None else ('skip',)))
                        elif op[0] == 'filter':
                            for (s2, r) in eng.call_value(s, op[1], [mkref(s, x)], ctx.depth, ctx.fr, ctx.bi):
                                if isinstance(r, BoolV):
                                    t = eng.eval_bool(s2, r)
                                    if t is True:
                                        nxt.append((s2, x))
                                    elif t is False:
                                        nxt.append((s2, ('skip',)))
                                    else:
                                        s3 = s2.fork()
                                        if eng.assume_bool(s2, r, True):
                                            nxt.append((s2, x))
                                        if eng.assume_bool(s3, r, False):
                                            nxt.append((s3, ('skip',)))
                                else:
                                    nxt.append((s2, x))
                    cur = nxt
                for (s, x) in cur:
                    if x == ('skip',) and not keep_skips:
                        # filtered out: for positionless iteration the element is simply not produced;
                        # model as "exhausted or another element" -> drop this path (another element
                        # is covered by the produced branch, exhaustion by the None branch)
                        continue
                    out.append((s, x))
            return out

        self.iter_elem = iter_elem
        self.to_iter = to_iter

        def as_iter(ctx, v):
            """iterator value of a consumer's receiver (by value, by reference, boxed, or a range)"""
            hops = 0
            while isinstance(v, RefV) and hops < 3:
                v = eng.read(ctx.st, v.path)
                hops += 1
            if isinstance(v, StructV) and v.ty.startswith('std::ops::Range'):
                return range_iter(ctx, v)
            return v

        SKIP = ('skip',)

        def exact_items(ctx, st, it, limit=512, maxpaths=64):
            """all elements iterator `it` yields, in order, when its source is exactly known (constant
            collection / constant range / known string) and every adaptor is understood:
            [(state, [items])], one entry per path through the adaptor closures; None otherwise"""
            if not isinstance(it, IterV) or st.vn.get(('iterpos', it.iid)) is not None:
                return None
            src = None
            if it.kind == 'coll':
                path, ckey, mode = it.args
                c = eng.read(st, path) if path is not None else None
                if isinstance(c, CollV) and c.known is not None and len(c.known) <= limit:
                    src = [elem_ref(ctx, st, c, path, e, NumV(None, i, 'usize'), mode, items_known=True) for i, e in enumerate(c.known)]
            elif it.kind == 'range':
                lo, hi, incl = it.args
                if isinstance(lo, NumV) and isinstance(hi, NumV) and lo.sym is None and hi.sym is None:
                    n = hi.k - lo.k + (1 if incl else 0)
                    if n <= limit:
                        src = [NumV(None, lo.k + i, lo.ty) for i in range(max(n, 0))]
            elif it.kind == 'chars':
                sv = it.args[0]
                if isinstance(sv, StrV) and sv.known is not None and len(sv.known) <= limit:
                    src = [CharV(ch) for ch in sv.known]
            elif it.kind == 'known' and it.args[1] is not None:
                src = list(it.args[0][it.args[1]:])
            elif it.kind == 'chain':
                ea = exact_items(ctx, st, it.args[0], limit, maxpaths)
                if ea is not None and len(ea) == 1 and ea[0][0] is st:
                    eb = exact_items(ctx, st, it.args[1], limit, maxpaths)
                    if eb is not None and len(eb) == 1 and eb[0][0] is st:
                        src = list(ea[0][1]) + list(eb[0][1])
            elif it.kind == 'zip':
                a, b = it.args
                ea = exact_items(ctx, st, a, limit, maxpaths)
                eb = exact_items(ctx, st, b, limit, maxpaths)

                def from_start(x, n):
                    # an unbounded `start..` zipped with n elements
                    if isinstance(x, IterV) and x.kind == 'range' and not x.ops and isinstance(x.args[0], NumV) and x.args[0].sym is None and x.args[1] is None:
                        return [NumV(None, x.args[0].k + i, x.args[0].ty) for i in range(n)]
                    return None
                la = ea[0][1] if ea is not None and len(ea) == 1 and ea[0][0] is st else None
                lb = eb[0][1] if eb is not None and len(eb) == 1 and eb[0][0] is st else None
                if la is None and lb is not None:
                    la = from_start(a, len(lb))
                if lb is None and la is not None:
                    lb = from_start(b, len(la))
                if la is not None and lb is not None:
                    src = [StructV('(A, B)', {'0': x, '1': y}) for x, y in zip(la, lb)]
            if src is None:
                return None
            ops = list(it.ops)
            # `rev` commutes with the element-wise adaptors only
            for i, op in enumerate(ops):
                if op[0] == 'rev':
                    if any(o[0] not in ('cloned', 'map', 'filter', 'rev') for o in ops[:i]):
                        return None
            if sum(1 for o in ops if o[0] == 'rev') % 2 == 1:
                src.reverse()
            ops = [o for o in ops if o[0] != 'rev']
            for op in ops:
                if op[0] not in ('cloned', 'map', 'filter', 'skip', 'take', 'step_by', 'enumerate', 'flatten', 'char_indices'):
                    return None
                if op[0] in ('skip', 'take', 'step_by') and not (isinstance(op[1], NumV) and op[1].sym is None):
                    return None
            states = [(st, [], {})]
            for x0 in src:
                nxt = []
                for (s, acc, cnt) in states:
                    cur = [(s, x0, cnt)]
                    for oi, op in enumerate(ops):
                        nn = []
                        for (s1, x1, c1) in cur:
                            if x1 is SKIP:
                                nn.append((s1, x1, c1))
                            elif op[0] == 'cloned':
                                nn.append((s1, eng.read(s1, x1.path) if isinstance(x1, RefV) else x1, c1))
                            elif op[0] == 'map':
                                for (s2, r) in eng.call_value(s1, op[1], [x1], ctx.depth, ctx.fr, ctx.bi):
                                    nn.append((s2, r, c1))
                            elif op[0] == 'filter':
                                for (s2, r) in eng.call_value(s1, op[1], [mkref(s1, x1)], ctx.depth, ctx.fr, ctx.bi):
                                    t = eng.eval_bool(s2, r) if isinstance(r, BoolV) else None
                                    if t is True:
                                        nn.append((s2, x1, c1))
                                    elif t is False:
                                        nn.append((s2, SKIP, c1))
                                    elif isinstance(r, BoolV):
                                        s3 = s2.fork()
                                        if eng.assume_bool(s2, r, True):
                                            nn.append((s2, x1, c1))
                                        if eng.assume_bool(s3, r, False):
                                            nn.append((s3, SKIP, c1))
                                    else:
                                        return None
                            elif op[0] == 'char_indices':
                                # byte offset of each character of the known string
                                off = c1.get(oi, 0)
                                c2 = dict(c1)
                                c2[oi] = off + (len(x1.known.encode('utf-8')) if isinstance(x1, CharV) and x1.known is not None else 1)
                                idx = NumV(None, off, 'usize')
                                nn.append((s1, StructV('(usize, char)', {'0': idx, '1': x1}), c2))
                            elif op[0] == 'flatten':
                                # elements that are Options: Some(v) yields v, None yields nothing
                                xv = eng.read(s1, x1.path) if isinstance(x1, RefV) else x1
                                if isinstance(xv, EnumV) and xv.ty.startswith('std::option::Option') and len(xv.tags) == 1:
                                    if set(xv.tags) == {0}:
                                        nn.append((s1, SKIP, c1))
                                    else:
                                        pl = xv.payload.get(1)
                                        nn.append((s1, pl.fields['0'] if pl is not None and pl.fields.get('0') is not None else eng.mk_default(s1, '?'), c1))
                                else:
                                    return None
                            elif op[0] == 'enumerate':
                                k = c1.get(oi, 0)
                                c2 = dict(c1)
                                c2[oi] = k + 1
                                nn.append((s1, StructV('(usize, T)', {'0': NumV(None, k, 'usize'), '1': x1}), c2))
                            else:
                                k = c1.get(oi, 0)
                                c2 = dict(c1)
                                c2[oi] = k + 1
                                n = op[1].k
                                if op[0] == 'skip':
                                    keep = k >= n
                                elif op[0] == 'take':
                                    keep = k < n
                                else:
                                    keep = n > 0 and k % n == 0
                                nn.append((s1, x1 if keep else SKIP, c2))
                        cur = nn
                    for (s1, x1, c1) in cur:
                        nxt.append((s1, acc if x1 is SKIP else acc + [x1], c1))
                if len(nxt) > maxpaths:
                    return None
                states = nxt
            return [(s, acc) for (s, acc, _c1) in states]
        self.exact_items = exact_items

        def analyse_adaptors(ctx, st, it):
            """run the adaptor closures once on an arbitrary element in a scratch state (their own
            panic sites and events are recorded; the state is discarded)"""
            if isinstance(it, IterV) and any(o[0] in ('map', 'filter') for o in it.ops):
                mut = False
                for o in it.ops:
                    if o[0] in ('map', 'filter') and isinstance(o[1], ClosureV):
                        if any(isinstance(v, RefV) and v.mut for v in o[1].caps.fields.values()):
                            mut = True
                if mut and ctx.fr is not None:
                    # an adaptor closure that can change captured state: treat the consumption as a loop
                    closure_loop(ctx, it, None)
                    return
                try:
                    iter_elem(ctx, st.fork(), it)
                except Infeasible:
                    pass

        def any_elem_opt(ctx, it, extra_filter=None):
            """Some(arbitrary element) / None: sound result of min, max, last, find on an iterator
            whose contents are not exactly known"""
            st = ctx.st
            if not isinstance(it, IterV):
                return eng.mk_default(st, ctx.ret_ty)
            if extra_filter is not None:
                it = it.with_op(('filter', extra_filter), it.ty)
            res = iter_elem(ctx, st, it)
            return opt_result(ctx, res)

        def _const_nums(items):
            return all(isinstance(x, NumV) and x.sym is None for x in items)

        @regx(r'^std::iter::Iterator::(min|max)$')
        def _(ctx):
            it = as_iter(ctx, ctx.args[0])
            which = ctx.callee.split('::')[-1]
            ex = exact_items(ctx, ctx.st, it)
            if ex is not None:
                out = []
                for (s, items) in ex:
                    vals = [eng.read(s, x.path) if isinstance(x, RefV) else x for x in items]
                    if not items:
                        out.append((s, None))
                    elif _const_nums(vals):
                        ks = [v.k for v in vals]
                        best = ks.index(min(ks)) if which == 'min' else len(ks) - 1 - ks[::-1].index(max(ks))
                        out.append((s, items[best]))   # keeps the item type (a reference when iterating by reference)
                    else:
                        out = None
                        break
                if out is not None:
                    return opt_result(ctx, out)
            return any_elem_opt(ctx, it)

        @reg('std::iter::Iterator::count')
        def _(ctx):
            it = as_iter(ctx, ctx.args[0])
            ex = exact_items(ctx, ctx.st, it)
            if ex is not None:
                return [(s, NumV(None, len(items), 'usize')) for (s, items) in ex]
            analyse_adaptors(ctx, ctx.st, it)
            return eng.fresh_num(ctx.st, 'usize', 0, 2**40)

        @reg('std::iter::Iterator::last')
        def _(ctx):
            it = as_iter(ctx, ctx.args[0])
            ex = exact_items(ctx, ctx.st, it)
            if ex is not None:
                return opt_result(ctx, [(s, items[-1] if items else None) for (s, items) in ex])
            return any_elem_opt(ctx, it)

        @regx(r'^std::iter::Iterator::find$|as std::iter::Iterator>::find$')
        def _(ctx):
            it = as_iter(ctx, ctx.args[0])
            f = ctx.args[1]
            ex = exact_items(ctx, ctx.st, it.with_op(('filter', f), it.ty)) if isinstance(it, IterV) else None
            if ex is not None:
                return opt_result(ctx, [(s, items[0] if items else None) for (s, items) in ex])
            return any_elem_opt(ctx, it, extra_filter=f)

        @regx(r'^std::iter::Iterator::position$|as std::iter::Iterator>::position$')
        def _(ctx):
            it = as_iter(ctx, ctx.args[0])
            f = ctx.args[1]
            ex = exact_items(ctx, ctx.st, it)
            if ex is not None:
                out = []
                for (s, items) in ex:
                    states = [(s, None)]
                    for idx, x in enumerate(items):
                        nxt = []
                        for (s1, found) in states:
                            if found is not None:
                                nxt.append((s1, found))
                                continue
                            for (s2, r) in eng.call_value(s1, f, [x], ctx.depth, ctx.fr, ctx.bi):
                                t = eng.eval_bool(s2, r) if isinstance(r, BoolV) else None
                                if t is True:
                                    nxt.append((s2, idx))
                                elif t is False:
                                    nxt.append((s2, None))
                                else:
                                    s3 = s2.fork()
                                    if isinstance(r, BoolV) and eng.assume_bool(s2, r, True):
                                        nxt.append((s2, idx))
                                    if isinstance(r, BoolV) and eng.assume_bool(s3, r, False):
                                        nxt.append((s3, None))
                        states = nxt
                    for (s1, found) in states:
                        out.append((s1, None if found is None else NumV(None, found, 'usize')))
                return opt_result(ctx, out)
            if isinstance(it, IterV) and isinstance(f, ClosureV):
                s2 = ctx.st.fork()
                for (s3, x1) in iter_elem(ctx, s2, it):
                    if x1 is not None:
                        eng.call_value(s3, f, [x1], ctx.depth, ctx.fr, ctx.bi)
            s0 = ctx.st.fork()
            return [(ctx.st, some(ctx.ret_ty, eng.fresh_num(ctx.st, 'usize', 0, 2**40))), (s0, none(ctx.ret_ty))]

        @regx(r'^std::iter::Iterator::all$|as std::iter::Iterator>::all$')
        def _(ctx):
            it = as_iter(ctx, ctx.args[0])
            f = ctx.args[1]
            ex = exact_items(ctx, ctx.st, it)
            if ex is not None:
                out = []
                for (s, items) in ex:
                    states = [(s, True)]
                    for x in items:
                        nxt = []
                        for (s1, ok) in states:
                            if ok is not True:
                                nxt.append((s1, ok))
                                continue
                            for (s2, r) in eng.call_value(s1, f, [x], ctx.depth, ctx.fr, ctx.bi):
                                t = eng.eval_bool(s2, r) if isinstance(r, BoolV) else None
                                if t is None and isinstance(r, BoolV):
                                    s3 = s2.fork()
                                    if eng.assume_bool(s2, r, True):
                                        nxt.append((s2, True))
                                    if eng.assume_bool(s3, r, False):
                                        nxt.append((s3, False))
                                else:
                                    nxt.append((s2, bool(t)))
                        states = nxt
                    out += [(s1, BoolV(ok)) for (s1, ok) in states]
                return out
            if isinstance(it, IterV) and isinstance(f, ClosureV):
                s2 = ctx.st.fork()
                for (s3, x1) in iter_elem(ctx, s2, it):
                    if x1 is not None:
                        eng.call_value(s3, f, [x1], ctx.depth, ctx.fr, ctx.bi)
            return BoolV(None, ('fact', ('all', next(_c))))

        @regx(r'^std::iter::Iterator::fold$|as std::iter::Iterator>::fold$')
        def _(ctx):
            it = as_iter(ctx, ctx.args[0])
            init, f = ctx.args[1], ctx.args[2]
            ex = exact_items(ctx, ctx.st, it)
            if ex is not None:
                out = []
                for (s, items) in ex:
                    states = [(s, init)]
                    for x in items:
                        nxt = []
                        for (s1, acc) in states:
                            nxt += eng.call_value(s1, f, [acc, x], ctx.depth, ctx.fr, ctx.bi)
                        states = nxt
                    out += states
                return out
            if isinstance(it, IterV) and isinstance(f, ClosureV):
                s2 = ctx.st.fork()
                body = eng.prog.bodies.get(f.func)
                accty = body.locals[2]['ty'] if body is not None and body.arg_count >= 2 else ctx.ret_ty
                for (s3, x1) in iter_elem(ctx, s2, it):
                    if x1 is not None:
                        eng.call_value(s3, f, [eng.mk_default(s3, accty), x1], ctx.depth, ctx.fr, ctx.bi)
            return eng.mk_default(ctx.st, ctx.ret_ty)

        @regx(r'^std::iter::Iterator::for_each$|as std::iter::Iterator>::for_each$')
        def _(ctx):
            it = as_iter(ctx, ctx.args[0])
            f = ctx.args[1]
            st = ctx.st
            ex = exact_items(ctx, st, it) if isinstance(it, IterV) else None
            if ex is not None:
                out = []
                for (s, items) in ex:
                    states = [s]
                    for x in items:
                        nxt = []
                        for s1 in states:
                            nxt += [s2 for (s2, _r) in eng.call_value(s1, f, [x], ctx.depth, ctx.fr, ctx.bi)]
                        states = nxt
                    out += [(s1, UNIT) for s1 in states]
                return out
            return closure_loop(ctx, it, f)

        def closure_loop(ctx, it, f, elem_args=None, on_elem=None):
            """`for_each`-like consumption of an iterator whose length is not known, treated like a
            loop cut at its head: forget what the closure may write (Screen paths from E3, captured
            mutable places), assume INV on it, run the closure once on an arbitrary element from
            that state (obligations, events, INV at the back edge), and continue from the forgotten
            state."""
            from . import inv
            st, fr = ctx.st, ctx.fr
            head = ('for_each', ctx.bi)
            w = eng.effects.block_writes(fr.func, [ctx.bi]) if (eng.effects is not None and fr is not None) else set(eng.INV_PATHS)
            span = ctx.t['span']
            if w and eng.cfg.get('check_inv', True) and inv.S_ROOT in st.store:
                for (name, ok, facts) in inv.check_inv(eng, st, only_written=w):
                    eng.obligation(st, fr, ctx.bi, 'loopinv', '%s@entry' % name, span, ok, facts)
            clos = [f] if isinstance(f, ClosureV) else []
            if isinstance(it, IterV):
                clos += [o[1] for o in it.ops if o[0] in ('map', 'filter') and isinstance(o[1], ClosureV)]
            for cl in clos:
                for k, v in cl.caps.fields.items():
                    if isinstance(v, RefV) and v.mut and v.path[0] != inv.S_ROOT:
                        try:
                            cur = eng.read(st, v.path)
                            if not isinstance(cur, RefV):
                                eng.write(st, v.path, self.havoc_value(st, cur), log=False)
                        except Exception:
                            pass
            if w:
                inv.havoc_screen(eng, st, w)
            desc = None
            if isinstance(it, IterV) and it.kind == 'range':
                desc = ('range', it.args[0], it.args[1], bool(it.args[2]), tuple(o[0] for o in it.ops))
            st.log(('loop-head', fr.func if fr else None, head, fr.uid if fr else None, desc))
            if inv.S_ROOT in st.store and fr is not None:
                try:
                    st.vn[('lh', fr.func, head, 'x')] = inv._get(eng, st, 'cursor', 'x')
                    st.vn[('lh', fr.func, head, 'y')] = inv._get(eng, st, 'cursor', 'y')
                except Exception:
                    pass
            st.vn = {k: v for k, v in st.vn.items() if not (isinstance(k, tuple) and k and k[0] in ('contains', 'fact-coll'))}
            s_it = st.fork()
            try:
                elems = iter_elem(ctx, s_it, it) if isinstance(it, IterV) else [(s_it, OpaqueV('elem', next(_c)))]
            except Infeasible:
                elems = []
            for (s, x) in elems:
                if x is None:
                    continue
                if f is None:
                    res = [(s, UNIT)]      # only the adaptor closures ran (inside iter_elem)
                else:
                    try:
                        res = eng.call_value(s, f, [x] if elem_args is None else elem_args(s, x), ctx.depth, ctx.fr, ctx.bi)
                    except Infeasible:
                        continue
                for (s2, _r) in res:
                    if on_elem is not None:
                        on_elem(s2, x)
                    if w and eng.cfg.get('check_inv', True) and inv.S_ROOT in s2.store:
                        for (name, ok, facts) in inv.check_inv(eng, s2, only_written=w):
                            eng.obligation(s2, fr, ctx.bi, 'loopinv', '%s@back-edge' % name, span, ok, facts)
                    for h in eng.hooks:
                        h('backedge', s2, fr, head)
            return [(st, UNIT)]

        @regx(r'^std::ops::Range(Inclusive)?::<Idx>::contains(::<.*>)?$')
        def _(ctx):
            r = deref(ctx, ctx.args[0])
            x = deref(ctx, ctx.args[1])
            if isinstance(r, StructV) and isinstance(x, NumV):
                lo, hi = r.fields.get('start'), r.fields.get('end')
                if isinstance(lo, NumV) and isinstance(hi, NumV):
                    incl = 'Inclusive' in r.ty
                    a = BoolV(None, ('cmp', 'le', lo, x))
                    b = BoolV(None, ('cmp', 'le' if incl else 'lt', x, hi))
                    ta, tb = eng.eval_bool(ctx.st, a), eng.eval_bool(ctx.st, b)
                    if ta is False or tb is False:
                        return BoolV(False)
                    if ta is True and tb is True:
                        return BoolV(True)
                    if ta is True:
                        return b
                    if tb is True:
                        return a
                    return BoolV(None, ('and', a, b))
            return BoolV(None, ('fact', ('range-contains', next(_c))))

        @regx(r'^std::iter::Iterator::sum$')
        def _(ctx):
            it = deref1(ctx, ctx.args[0])
            ex = exact_items(ctx, ctx.st, it)
            if ex is not None and all(_const_nums(items) for (s, items) in ex):
                return [(s, NumV(None, sum(x.k for x in items), ctx.ret_ty)) for (s, items) in ex]
            analyse_adaptors(ctx, ctx.st, it)
            ctx.oblige('overflow', 'Iterator::sum cannot overflow', False, 'sum over values that are not exactly known')
            return eng.mk_default(ctx.st, ctx.ret_ty)

        def freeze_closure(st, clo):
            """copy what a closure captured by reference from locals into heap places, so that it can be
            applied after the creating frame is gone"""
            if not isinstance(clo, ClosureV):
                return clo
            caps = {}
            for k, v in clo.caps.fields.items():
                if isinstance(v, RefV) and v.path[0][0] == 'L':
                    val = eng.read(st, v.path)
                    if isinstance(val, RefV) and val.path[0][0] == 'L':
                        inner = eng.read(st, val.path)
                        r2 = ('H', 'frz%d' % next(_c))
                        st.store[r2] = inner
                        val = RefV((r2, ()), val.mut)
                    root = ('H', 'frz%d' % next(_c))
                    st.store[root] = val
                    caps[k] = RefV((root, ()), v.mut)
                else:
                    caps[k] = v
            return ClosureV(clo.func, StructV('env', caps), clo.fp)

        def opt_result(ctx, results, ret_ty=None):
            ty = ret_ty or ctx.ret_ty
            out = []
            for (st, v) in results:
                out.append((st, none(ty) if v is None else some(ty, v)))
            return out

        @regx(r'as std::iter::Iterator>::next$|^std::iter::Iterator::next$|^std::iter::range::<impl std::iter::Iterator for std::ops::Range(Inclusive)?<A>>::next$|^std::boxed::iter::<impl std::iter::Iterator for std::boxed::Box<I, A>>::next$')
        def _(ctx):
            r = ctx.args[0]
            it = deref1(ctx, r)
            if isinstance(it, RefV):
                it = deref1(ctx, it)
            fresh = False
            if isinstance(it, StructV) and it.ty.startswith('std::ops::Range'):
                it = range_iter(ctx, it)
            if not isinstance(it, IterV):
                it = IterV('opaque', '?', (), iid=next(_c))
            pos = ctx.st.vn.get(('iterpos', it.iid))
            if eng.cfg.get('unroll') or ctx.st.vn.get(('exact-iter', it.iid)):
                r2 = unrolled_next(ctx, it, pos)
                if r2 is not None:
                    return r2
            first = False
            if it.kind in ('chars',) or (it.kind == 'coll'):
                if pos is None and not any(o[0] in ('skip', 'take', 'rev', 'filter') for o in it.ops):
                    first = True
            res = iter_elem(ctx, ctx.st, it, first=first)
            res2 = []
            cpos = ctx.st.vn.get(('charpos', it.iid), 0) if it.kind == 'chars' and not it.ops else None
            for (s, v) in res:
                s.vn[('iterpos', it.iid)] = 'advanced'
                if cpos is not None:
                    s.vn[('charpos', it.iid)] = cpos + 1       # characters consumed from the front (for `as_str`)
                if v is not None and it.kind == 'coll':
                    ev_ = v
                    hops_ = 0
                    while isinstance(ev_, RefV) and hops_ < 3:
                        ev_ = eng.read(s, ev_.path)
                        hops_ += 1
                    s.vn[('iterelem', it.iid)] = ev_
                    if isinstance(v, RefV) and not v.mut and hops_ == 1 and isinstance(ev_, (NumV, CharV)) and it.args[2] in ('ref', 'keys') and not it.ops:
                        # a shared reference to a scalar element: every later read sees this same value
                        v = mkref(s, ev_)
                res2.append((s, v))
            return opt_result(ctx, res2)

        def unrolled_next(ctx, it, pos):
            """exact positional iteration for constant sources (static initialisers only)"""
            st = ctx.st
            p = pos if isinstance(pos, int) else 0
            if any(o[0] in ('enumerate', 'step_by', 'skip', 'take', 'rev', 'flatten', 'char_indices') for o in it.ops):
                # adaptors that depend on the position: the whole sequence is computed, then indexed
                ex = exact_items(ctx, st, IterV(it.kind, it.ty, it.args, it.ops, None))
                if ex is not None and len(ex) == 1 and ex[0][0] is st:
                    st.vn[('iterpos', it.iid)] = p + 1
                    items = ex[0][1]
                    return opt_result(ctx, [(st, items[p] if p < len(items) else None)])
                return None
            if it.kind == 'range':
                lo, hi, incl = it.args
                if isinstance(lo, NumV) and isinstance(hi, NumV) and lo.sym is None and hi.sym is None:
                    n = hi.k - lo.k + (1 if incl else 0)
                    st.vn[('iterpos', it.iid)] = p + 1
                    if p < n:
                        return opt_result(ctx, apply_ops(ctx, it, [(st, NumV(None, lo.k + p, lo.ty))]))
                    return opt_result(ctx, [(st, None)])
            if it.kind == 'chars' and isinstance(it.args[0], StrV) and it.args[0].known is not None:
                sk = it.args[0].known
                st.vn[('iterpos', it.iid)] = p + 1
                if p < len(sk):
                    return opt_result(ctx, apply_ops(ctx, it, [(st, CharV(sk[p]))]))
                return opt_result(ctx, [(st, None)])
            if it.kind == 'coll':
                path, ckey, mode = it.args
                c = eng.read(st, path) if path is not None else None
                if isinstance(c, CollV) and c.known is not None:
                    st.vn[('iterpos', it.iid)] = p + 1
                    if p < len(c.known):
                        x = elem_ref(ctx, st, c, path, c.known[p], NumV(None, p, 'usize'), mode, items_known=True)
                        return opt_result(ctx, apply_ops(ctx, it, [(st, x)]))
                    return opt_result(ctx, [(st, None)])
            return None

        @regx(r"^(std|core)::str::Chars::<'a>::as_str$")
        def _(ctx):
            # what is left of the string: the string without the characters taken from the front so far,
            # i.e. what `s.chars().skip(n).collect::<String>()` is - built by that very summary
            it = deref1(ctx, ctx.args[0])
            if isinstance(it, IterV) and it.kind == 'chars' and not it.ops and isinstance(it.args[0], StrV):
                n = ctx.st.vn.get(('charpos', it.iid), 0)
                src = it.args[0]
                if ctx.st.vn.get(('iterpos', it.iid)) in (None, 'advanced') or isinstance(ctx.st.vn.get(('iterpos', it.iid)), int):
                    if isinstance(ctx.st.vn.get(('iterpos', it.iid)), int):
                        n = ctx.st.vn[('iterpos', it.iid)]
                    if n == 0:
                        return src
                    if src.known is not None:
                        return StrV(src.known[n:], prov=('collect',))
                    it2 = IterV('chars', it.ty, (src,), ops=(('skip', NumV(None, n, 'usize')),), iid=next(_c))
                    c2 = type(ctx)(ctx.eng, ctx.st, ctx.fr, ctx.bi, dict(ctx.t, dest=dict(ctx.t['dest'], ty='std::string::String')), ctx.fn,
                                   'std::iter::Iterator::collect', [it2], ctx.depth)
                    return self.table['std::iter::Iterator::collect'](c2)
            return StrV(None, oid=next(_c), prov=('chars-rest',))

        @reg('std::iter::Iterator::nth')
        def _(ctx):
            it = deref1(ctx, ctx.args[0])
            n = ctx.args[1]
            if isinstance(it, IterV) and isinstance(n, NumV) and n.sym is None and ctx.st.vn.get(('iterpos', it.iid)) is None:
                res = iter_elem(ctx, ctx.st, it, index=n.k)
            else:
                res = iter_elem(ctx, ctx.st, it if isinstance(it, IterV) else IterV('opaque', '?', (), iid=next(_c)))
            return opt_result(ctx, res)

        @regx(r'^std::iter::Iterator::any$|as std::iter::Iterator>::any$')
        def _(ctx):
            it = deref1(ctx, ctx.args[0])
            f = ctx.args[1]
            st = ctx.st
            if isinstance(it, IterV) and it.kind == 'coll':
                path, ckey, mode = it.args
                c = eng.read(st, path) if path is not None else None
                if isinstance(c, CollV) and c.known is not None:
                    # evaluate the predicate on every element (constant collections)
                    states = [(st, False, False)]   # (state, seen_true, seen_unknown)
                    items = c.known
                    for idx, e in enumerate(items):
                        nxt = []
                        for (s, t, u) in states:
                            if t:
                                nxt.append((s, t, u))
                                continue
                            x = elem_ref(ctx, s, c, path, e, NumV(None, idx, 'usize'), mode, items_known=True)
                            xs = apply_ops(ctx, it, [(s, x)])
                            for (s1, x1) in xs:
                                for (s2, r) in eng.call_value(s1, f, [x1], ctx.depth, ctx.fr, ctx.bi):
                                    tv = eng.eval_bool(s2, r) if isinstance(r, BoolV) else None
                                    if tv is True:
                                        nxt.append((s2, True, u))
                                    elif tv is False:
                                        nxt.append((s2, False, u))
                                    else:
                                        s3 = s2.fork()
                                        if isinstance(r, BoolV):
                                            if eng.assume_bool(s2, r, True):
                                                nxt.append((s2, True, u))
                                            if eng.assume_bool(s3, r, False):
                                                nxt.append((s3, False, u))
                                        else:
                                            nxt.append((s2, False, True))
                        states = nxt
                    out = []
                    for (s, t, u) in states:
                        if u and not t:
                            out.append((s, BoolV(None, ('fact', ('any?', next(_c))))))
                        else:
                            out.append((s, BoolV(t)))
                    return out
                if isinstance(c, CollV) and isinstance(f, ClosureV):
                    if all(o[0] == 'cloned' for o in it.ops) and c.kind in ('set', 'vec', 'slice', 'array'):
                        # `iter().any(|m| *m == K)` is membership of the constant K
                        s2 = st.fork()
                        try:
                            x = elem_ref(ctx, s2, c, path, None, None, mode)
                            xs = apply_ops(ctx, it, [(s2, x)])
                            if len(xs) == 1 and xs[0][1] is not None:
                                pv = xs[0][1]
                                while isinstance(pv, RefV):
                                    pv = eng.read(xs[0][0], pv.path)
                                rs = eng.call_value(xs[0][0], f, [xs[0][1]], ctx.depth, ctx.fr, ctx.bi)
                                if len(rs) == 1 and isinstance(rs[0][1], BoolV) and isinstance(pv, NumV) and pv.sym is not None:
                                    at = rs[0][1].atom
                                    if at is not None and at[0] == 'cmp' and at[1] == 'eq':
                                        a_, b_ = at[2], at[3]
                                        if isinstance(b_, NumV) and b_.key() == pv.key():
                                            a_, b_ = b_, a_
                                        if isinstance(a_, NumV) and a_.key() == pv.key() and isinstance(b_, NumV) and b_.sym is None:
                                            return set_member(ctx, c, b_, path)
                        except Infeasible:
                            pass
                    key = ('any', c.key(), f.key(), tuple(o[0] for o in it.ops))
                    if ('anyseen', key) not in st.vn:
                        # the predicate is analysed once on an arbitrary element (its own panic
                        # sites); the scratch state is discarded
                        st.vn[('anyseen', key)] = True
                        s2 = st.fork()
                        x = elem_ref(ctx, s2, c, path, None, None, mode)
                        for (s3, x1) in apply_ops(ctx, it, [(s2, x)]):
                            if x1 is not None:
                                eng.call_value(s3, f, [x1], ctx.depth, ctx.fr, ctx.bi)
                    return bool_fact(ctx, key)
            if isinstance(it, IterV) and isinstance(f, ClosureV):
                s2 = st.fork()
                for (s3, x1) in iter_elem(ctx, s2, it):
                    if x1 is not None:
                        eng.call_value(s3, f, [x1], ctx.depth, ctx.fr, ctx.bi)
            return BoolV(None, ('fact', ('any', next(_c))))

        def build_known(kind, items):
            """exactly known contents of a collection built from `items` (None when duplicates cannot be decided)"""
            if kind == 'vec':
                return tuple(items)
            if kind == 'set':
                out = []
                for x in items:
                    if not _is_const(x):
                        return None
                    if not any(y.key() == x.key() for y in out):
                        out.append(x)
                return tuple(out)
            pairs = []
            for x in items:
                if not (isinstance(x, StructV) and '0' in x.fields and '1' in x.fields):
                    return None
                k, v = x.fields['0'], x.fields['1']
                if not _is_const(k):
                    return None
                pairs = [(k2, v2) for (k2, v2) in pairs if k2.key() != k.key()] + [(k, v)]
            return tuple(pairs)

        @reg('std::iter::Iterator::collect')
        def _(ctx):
            it = deref1(ctx, ctx.args[0])
            if isinstance(it, StructV) and it.ty.startswith('std::ops::Range'):
                it = range_iter(ctx, it)        # `(a..b).collect()`: the range is its own iterator
            rty = ctx.ret_ty
            st = ctx.st
            if is_str(rty):
                src = it.args[0] if isinstance(it, IterV) and it.kind == 'chars' else None
                if isinstance(src, StrV) and src.known is not None and all(
                        o[0] in ('skip', 'take') and isinstance(o[1], NumV) and o[1].sym is None for o in it.ops):
                    sk = src.known
                    for o in it.ops:
                        sk = sk[o[1].k:] if o[0] == 'skip' else sk[:o[1].k]
                    return StrV(sk, prov=('collect',))
                ex = exact_items(ctx, st, it) if isinstance(it, IterV) else None
                if ex is not None:
                    out = []
                    for (s, items) in ex:
                        parts = []
                        for x in items:
                            x = sval(with_state(ctx, s), x)
                            if isinstance(x, StrV) and x.known is not None:
                                parts.append(x.known)
                            else:
                                parts = None
                                break
                        if parts is None:
                            out = None
                            break
                        out.append((s, StrV(''.join(parts), prov=('collect',))))
                    if out is not None:
                        return out
                if isinstance(it, IterV) and any(o[0] in ('map', 'filter') for o in it.ops):
                    s2 = st.fork()
                    iter_elem(ctx, s2, it)
                return StrV(None, prov=('collect', it.key() if isinstance(it, IterV) else None,
                                        tuple(o[0] for o in it.ops) if isinstance(it, IterV) else (), it if isinstance(it, IterV) else None), oid=next(_c))
            head, _a = split_generic(rty)
            kind = {'std::vec::Vec': 'vec', 'std::collections::HashSet': 'set', 'std::collections::HashMap': 'map'}.get(head)
            if kind is None:
                analyse_adaptors(ctx, st, it)
                return eng.mk_default(st, rty)
            ex = exact_items(ctx, st, it) if isinstance(it, IterV) else None
            if ex is not None:
                srcprov = None
                if it.kind == 'coll' and it.args[0] is not None:
                    c0 = eng.read(st, it.args[0])
                    srcprov = c0.prov if isinstance(c0, CollV) else None
                out = []
                for (s, items) in ex:
                    kn = build_known(kind, items)
                    if kn is None:
                        out = None
                        break
                    out.append((s, CollV(kind, rty, next(_c), length=NumV(None, len(kn), 'usize') if kind == 'vec' else None,
                                         known=kn, prov=('collect', srcprov))))
                if out is not None:
                    return out
            if isinstance(it, IterV) and it.kind == 'coll':
                path, ckey, mode = it.args
                c = eng.read(st, path) if path is not None else None
                if isinstance(c, CollV) and c.known is not None and not any(o[0] in ('skip', 'take', 'step_by') for o in it.ops):
                    items = c.known
                    if any(o[0] == 'rev' for o in it.ops):
                        items = tuple(reversed(items))
                    states = [(st, [])]
                    for idx, e in enumerate(items):
                        nxt = []
                        for (s, acc) in states:
                            x = elem_ref(ctx, s, c, path, e, NumV(None, idx, 'usize'), mode, items_known=True)
                            res_ = apply_ops(ctx, it, [(s, x)], keep_skips=True)
                            for (s2, y) in res_:
                                if y == ('skip',):
                                    nxt.append((s2, acc))
                                else:
                                    nxt.append((s2, acc + [y]))
                        states = nxt
                    return [(s, CollV(kind, rty, next(_c), length=NumV(None, len(acc), 'usize'), known=tuple(acc),
                                      prov=('collect', c.prov))) for (s, acc) in states]
                if isinstance(c, CollV):
                    # element summary through the adaptor chain, length preserved unless filtered
                    x = elem_ref(ctx, st, c, path, None, None, mode)
                    res = apply_ops(ctx, it, [(st, x)])
                    filt = any(o[0] in ('filter', 'skip', 'take', 'step_by') for o in it.ops)
                    out = []
                    for (s2, y) in res:
                        ln = c.length if (not filt and c.length is not None) else eng.fresh_num(s2, 'usize', 0, 2**40)
                        if kind != 'vec':
                            ln = None
                        nc = CollV(kind, rty, next(_c), length=ln, elem=y, prov=('collect', c.prov, tuple(o[0] for o in it.ops)))
                        fl = [o for o in it.ops if o[0] == 'filter']

                        def deref_map(o):
                            # `.map(|x| *x)`: the same as `.copied()`
                            if o[0] != 'map' or not isinstance(o[1], ClosureV):
                                return False
                            s9 = st.fork()
                            pv = eng.fresh_num(s9, 'u32', name='probe')
                            try:
                                rs9 = eng.call_value(s9, o[1], [mkref(s9, pv)], ctx.depth, ctx.fr, ctx.bi)
                            except Exception:
                                return False
                            return bool(rs9) and all(isinstance(r9, NumV) and r9.key() == pv.key() for (_s, r9) in rs9)
                        if kind in ('set', 'vec') and len(fl) == 1 and all(o[0] in ('filter', 'cloned') or deref_map(o) for o in it.ops) and c.kind in ('set', 'map'):
                            # x in collect(filter(p, src))  <=>  x in src and p(x)    (src a set, or the keys of a map)
                            if kind == 'set' or mode in ('keys', 'ref', 'val'):
                                s2.vn[('filtered', nc.cid)] = (c.key(), freeze_closure(s2, fl[0][1]), 2, nc.ver)
                        out.append((s2, nc))
                    if not out:
                        out.append((st, CollV(kind, rty, next(_c), length=NumV(None, 0, 'usize') if kind == 'vec' else None, known=())))
                    return out[:1] if len(out) == 1 else out
            if isinstance(it, IterV) and it.kind == 'range':
                lo, hi, incl = it.args
                elementwise = all(o[0] in ('map', 'cloned', 'rev') for o in it.ops)
                log(ctx, 'iter.collect', ('range', lo, hi, incl), tuple(o[0] for o in it.ops), tuple(o[1].func for o in it.ops if o[0] == 'map' and isinstance(o[1], ClosureV)))
                analyse_adaptors(ctx, st, it)
                ln = None
                if kind == 'vec':
                    ln = eng.fresh_num(st, 'usize', 0, 2**40)
                    if elementwise and isinstance(lo, NumV) and isinstance(hi, NumV) and not incl:
                        if lo.sym is None and lo.k == 0:
                            ln = NumV(hi.sym, hi.k, 'usize')
                        elif eng.prove_le(st, lo, hi) is True:
                            d = eng.num_sub(st, hi, lo, hi.ty)
                            ln = NumV(d.sym, d.k, 'usize')
                return CollV(kind, rty, next(_c), length=ln, prov=('collect-range', lo, hi, bool(incl), tuple(it.ops)))
            # any other source (characters of an unknown string, an opaque iterator ...): the adaptor
            # closures are analysed on an arbitrary element, which also summarises the elements
            el = None
            if isinstance(it, IterV):
                try:
                    outs = [(s2, y) for (s2, y) in iter_elem(ctx, st.fork(), it) if y is not None]
                except Infeasible:
                    outs = []
                if len(outs) == 1 and isinstance(outs[0][1], (NumV, CharV, StrV)) and not isinstance(outs[0][1], RefV):
                    y = outs[0][1]
                    if isinstance(y, CharV) and y.known is None:
                        el = CharV(None, next(_c))
            return CollV(kind, rty, next(_c), length=eng.fresh_num(st, 'usize', 0, 2**40) if kind == 'vec' else None,
                         elem=el, prov=('collect', None))

        def is_str(ty):
            from .engine import is_str_ty
            return is_str_ty(ty)

        # ---------- Option / Result -------------------------------------
        @regx(r'^std::option::Option::<T>::(unwrap|expect)$')
        def _(ctx):
            o = deref1(ctx, ctx.args[0])
            what = ctx.callee.split('::')[-1]
            if isinstance(o, EnumV):
                ok = (o.tags == {1})
                ctx.oblige('unwrap', 'Option::%s on a value that must be Some' % what, ok, repr(o))
                if o.tags == {0}:
                    return []
                p = o.payload.get(1)
                pay = p.fields.get('0') if p else None
                if pay is None:
                    head, args = split_generic(o.ty)
                    pay = eng.mk_default(ctx.st, args[0] if args else ctx.ret_ty)
                return pay
            ctx.oblige('unwrap', 'Option::%s on a value that must be Some' % what, False, repr(o))
            return eng.mk_default(ctx.st, ctx.ret_ty)

        @regx(r'^std::result::Result::<T, E>::(unwrap|expect)$')
        def _(ctx):
            o = deref1(ctx, ctx.args[0])
            if isinstance(o, OpaqueV) and o.prov == 'lockresult':
                # Mutex::lock().unwrap(): panics only if the mutex is poisoned, i.e. only after a
                # previous panic inside a critical section (discharged by induction, DESIGN C01/D1)
                ctx.oblige('poison', 'Mutex lock().unwrap()', True)
                return OpaqueV('MutexGuard', next(_c), prov=('guard', o.oid))
            if isinstance(o, EnumV):
                ok = (o.tags == {0})
                ctx.oblige('unwrap', 'Result::unwrap on a value that must be Ok', ok, repr(o))
                if o.tags == {1}:
                    return []
                p = o.payload.get(0)
                pay = p.fields.get('0') if p else None
                return pay if pay is not None else eng.mk_default(ctx.st, ctx.ret_ty)
            ctx.oblige('unwrap', 'Result::unwrap on a value that must be Ok', False, repr(o))
            return eng.mk_default(ctx.st, ctx.ret_ty)

        @reg('<std::option::Option<T> as std::ops::Try>::branch')
        def _(ctx):
            rty = ctx.ret_ty
            return fork_opt(ctx, ctx.args[0],
                            lambda s, p: EnumV(rty, {1}, {1: StructV('Break', {'0': EnumV('std::option::Option<std::convert::Infallible>', {0}, {0: StructV('None', {})})})}),
                            lambda s, p: EnumV(rty, {0}, {0: StructV('Continue', {'0': p})}))

        @regx(r'^<std::option::Option<T> as std::ops::FromResidual<.*>>::from_residual$')
        def _(ctx):
            return none(ctx.ret_ty)

        @reg('<std::result::Result<T, E> as std::ops::Try>::branch')
        def _(ctx):
            rty = ctx.ret_ty
            o = deref1(ctx, ctx.args[0])
            if not isinstance(o, EnumV):
                return eng.mk_default(ctx.st, rty)

            def cont(p):
                return EnumV(rty, {0}, {0: StructV('Continue', {'0': p if p is not None else OpaqueV('ok', next(_c))})})

            def brk(p):
                return EnumV(rty, {1}, {1: StructV('Break', {'0': EnumV('std::result::Result<std::convert::Infallible, E>', {1}, {1: StructV('Err', {'0': p if p is not None else OpaqueV('err', next(_c))})})})})
            pk = (o.payload.get(0).fields.get('0') if o.payload.get(0) else None)
            pe = (o.payload.get(1).fields.get('0') if o.payload.get(1) else None)
            if o.tags == {0}:
                return cont(pk)
            if o.tags == {1}:
                return brk(pe)
            s2 = ctx.st.fork()
            return [(ctx.st, cont(pk)), (s2, brk(pe))]

        @regx(r'^<std::result::Result<T, F> as std::ops::FromResidual<.*>>::from_residual$')
        def _(ctx):
            return EnumV(ctx.ret_ty, {1}, {1: StructV('Err', {'0': OpaqueV('err', next(_c))})})

        @regx(r'^std::option::Option::<T>::(replace|insert)$')
        def _(ctx):
            a, v = ctx.args
            what = ctx.callee.split('::')[-1]
            if not isinstance(a, RefV):
                return eng.mk_default(ctx.st, ctx.ret_ty)
            old = eng.read(ctx.st, a.path)
            oty = old.ty if isinstance(old, EnumV) else 'std::option::Option<?>'
            eng.write(ctx.st, a.path, some(oty, v), log=(a.path[0] == ('H', 'S')))
            if what == 'replace':
                return old if isinstance(old, EnumV) else eng.mk_default(ctx.st, ctx.ret_ty)
            return RefV((a.path[0], a.path[1] + (('v', 1), ('f', '0', '?'))), True)

        @reg('std::option::Option::<T>::take')
        def _(ctx):
            a = ctx.args[0]
            if not isinstance(a, RefV):
                return eng.mk_default(ctx.st, ctx.ret_ty)
            old = eng.read(ctx.st, a.path)
            oty = old.ty if isinstance(old, EnumV) else ctx.ret_ty
            eng.write(ctx.st, a.path, none(oty), log=(a.path[0] == ('H', 'S')))
            return old if isinstance(old, EnumV) else eng.mk_default(ctx.st, ctx.ret_ty)

        @regx(r'^(std|core)::mem::replace$')
        def _(ctx):
            a, v = ctx.args
            if not isinstance(a, RefV):
                return eng.mk_default(ctx.st, ctx.ret_ty)
            old = eng.read(ctx.st, a.path)
            eng.write(ctx.st, a.path, v, log=(a.path[0] == ('H', 'S')))
            return old

        @regx(r'^(std|core)::mem::take$')
        def _(ctx):
            a = ctx.args[0]
            if not isinstance(a, RefV):
                return eng.mk_default(ctx.st, ctx.ret_ty)
            old = eng.read(ctx.st, a.path)
            out = []
            for (s2, dv) in default_value(ctx, ctx.st, ctx.ret_ty):
                eng.write(s2, a.path, dv, log=(a.path[0] == ('H', 'S')))
                out.append((s2, old))
            return out

        @reg('std::option::Option::<T>::unwrap_or_else')
        def _(ctx):
            f = ctx.args[1]
            return fork_opt(ctx, ctx.args[0], lambda s, p: call_closure(ctx, s, f, []), lambda s, p: p)

        @regx(r'^std::vec::Vec::<T, A>::(as_slice|as_mut_slice)$')
        def _(ctx):
            return ctx.args[0]

        @reg('std::string::String::clear')
        def _(ctx):
            r = ctx.args[0]
            if isinstance(r, RefV):
                eng.write(ctx.st, r.path, StrV('', prov=('cleared',)), log=(r.path[0] == ('H', 'S')))
            return UNIT

        @regx(r'^(std|core)::char::convert::<impl (std|core)::convert::From<char> for (u32|u64|u128)>::from$')
        def _(ctx):
            # the code point of the character (same as `c as u32`)
            v = deref(ctx, ctx.args[0])
            if isinstance(v, CharV):
                n = eng.char_num(ctx.st, v)
                return NumV(n.sym, n.k, ctx.ret_ty) if isinstance(n, NumV) else eng.mk_default(ctx.st, ctx.ret_ty)
            return eng.mk_default(ctx.st, ctx.ret_ty)

        @reg('<std::string::String as std::convert::From<char>>::from')
        def _(ctx):
            v = deref(ctx, ctx.args[0])
            if isinstance(v, CharV):
                if v.known is not None:
                    return StrV(v.known, prov=('char',))
                sv = StrV(None, oid=next(_c), prov=('char', v.key()))
                ctx.st.vn[('nonempty', sv.oid)] = True
                ctx.st.vn[('firstchar', sv.oid)] = v
                return sv
            return StrV(None, oid=next(_c))

        @regx(r'^std::char::methods::<impl char>::from_u32$|^core::char::methods::<impl char>::from_u32$|^std::char::from_u32$')
        def _(ctx):
            v = deref(ctx, ctx.args[0])
            rty = ctx.ret_ty
            if isinstance(v, NumV) and v.sym is None:
                if 0 <= v.k <= 0x10ffff and not (0xd800 <= v.k <= 0xdfff):
                    return some(rty, CharV(chr(v.k)))
                return none(rty)
            s2 = ctx.st.fork()
            ch = eng.int_to_char(ctx.st, v) if isinstance(v, NumV) else CharV(None, next(_c))
            return [(ctx.st, some(rty, ch)), (s2, none(rty))]

        @regx(r'impl std::cmp::PartialEq<\[U(; N)?\]> for (&|&mut )?\[T(; N)?\]>::eq$|impl std::cmp::PartialEq<std::vec::Vec<U, A2?>> for (&|&mut )?\[T(; N)?\]>::eq$|'
              r'impl std::cmp::PartialEq<(&|&mut )?\[U(; N)?\]> for std::vec::Vec<T, A>>::eq$|impl std::cmp::PartialEq<std::vec::Vec<U, A2>> for std::vec::Vec<T, A1>>::eq$')
        def _(ctx):
            a = deref(ctx, ctx.args[0])
            b = deref(ctx, ctx.args[1])
            if isinstance(a, CollV) and isinstance(b, CollV):
                la = NumV(None, len(a.known), 'usize') if a.known is not None else a.length
                lb = NumV(None, len(b.known), 'usize') if b.known is not None else b.length
                if isinstance(la, NumV) and isinstance(lb, NumV):
                    if eng.prove_cmp(ctx.st, 'ne', la, lb) is True or eng.prove_cmp(ctx.st, 'eq', la, lb) is False:
                        return BoolV(False)
                if a.known is not None and b.known is not None and len(a.known) == len(b.known):
                    xs = [deref(ctx, x) for x in a.known]
                    ys = [deref(ctx, y) for y in b.known]
                    res = True
                    for x, y in zip(xs, ys):
                        if isinstance(x, NumV) and isinstance(y, NumV):
                            r = eng.prove_cmp(ctx.st, 'eq', x, y)
                        elif _is_const(x) and _is_const(y):
                            r = x.key() == y.key()
                        else:
                            r = None
                        if r is False:
                            return BoolV(False)
                        if r is None:
                            res = None
                    if res is True:
                        return BoolV(True)
                    # a single undecided numeric element: the comparison is that equality
                    und = [(x, y) for x, y in zip(xs, ys) if isinstance(x, NumV) and isinstance(y, NumV) and eng.prove_cmp(ctx.st, 'eq', x, y) is None]
                    if len(und) == 1 and all(isinstance(x, NumV) and isinstance(y, NumV) for x, y in zip(xs, ys)):
                        return BoolV(None, ('cmp', 'eq', und[0][0], und[0][1]))
                # unknown length on one side, known contents on the other: equal only if the lengths agree
                if isinstance(la, NumV) and isinstance(lb, NumV) and (a.known is None) != (b.known is None):
                    kn, un = (a, b) if a.known is not None else (b, a)
                    # decided later by the branch: remember nothing more than a fact tied to both values
                    return bool_fact(ctx, ('slice-eq', a.key(), b.key()))
            return BoolV(None, ('fact', ('slice-eq?', next(_c))))

        @reg('std::option::Option::<T>::unwrap_or')
        def _(ctx):
            d = ctx.args[1]
            return fork_opt(ctx, ctx.args[0], lambda s, p: d, lambda s, p: p)

        @reg('std::option::Option::<T>::unwrap_or_default')
        def _(ctx):
            rty = ctx.ret_ty

            def dflt(s, p):
                if is_str(rty):
                    return StrV('')
                if rty in INT_RANGES:
                    return NumV(None, 0, rty)
                out_ = []
                for (s2, v) in default_value(with_state(ctx, s), s, rty):
                    if isinstance(v, CollV):
                        v = v.evolve(prov=('default', ctx.fr.func if ctx.fr else None))
                    out_.append((s2, v))
                return out_
            return fork_opt(ctx, ctx.args[0], dflt, lambda s, p: p)

        @reg('<T as std::convert::Into<U>>::into')
        def _(ctx):
            # the blanket `Into` (calls `U::from(t)`): text stays the same text, an integer widened losslessly the same number
            v = ctx.args[0]
            rty = ctx.ret_ty
            x = sval(ctx, v) if isinstance(v, (StrV, RefV)) else v
            if isinstance(x, StrV) and is_str(rty):
                return x
            if isinstance(v, NumV) and rty in INT_RANGES and v.ty in INT_RANGES:
                lo, hi = INT_RANGES[rty]
                l0, h0 = INT_RANGES[v.ty]
                if lo <= l0 and h0 <= hi:
                    return NumV(v.sym, v.k, rty)
            if isinstance(v, CharV) and rty in ('u32', 'u64'):
                n = eng.char_num(ctx.st, v)
                if isinstance(n, NumV):
                    return NumV(n.sym, n.k, rty)
            return self.total(ctx)[0][1]

        @regx(r'^<(bool|u8|u16|u32|u64|usize|i8|i16|i32|i64|isize|std::string::String|&str) as std::default::Default>::default$')
        def _(ctx):
            return default_value(ctx, ctx.st, ctx.ret_ty)

        @regx(r'^(std|core)::convert::num::<impl (std|core)::convert::From<(u8|u16|u32|u64|usize|i8|i16|i32|i64|isize|bool)> for (u8|u16|u32|u64|u128|usize|i8|i16|i32|i64|i128|isize)>::from$')
        def _(ctx):
            # lossless widening (`u64::from(x)`): the same number in the wider type
            v = deref(ctx, ctx.args[0]) if isinstance(ctx.args[0], RefV) else ctx.args[0]
            if isinstance(v, NumV):
                return NumV(v.sym, v.k, ctx.ret_ty)
            if isinstance(v, BoolV) and v.val is not None:
                return NumV(None, 1 if v.val else 0, ctx.ret_ty)
            return eng.mk_default(ctx.st, ctx.ret_ty)

        @regx(r'^(std|core)::convert::num::(ptr_try_from_impls::)?<impl (std|core)::convert::TryFrom<(\w+)> for (\w+)>::try_from$')
        def _(ctx):
            # checked integer conversion: Ok(the same number) exactly when it fits the target type
            import re as _re
            m = _re.search(r'TryFrom<(\w+)> for (\w+)>::try_from$', ctx.callee)
            dst = m.group(2)
            v = ctx.args[0]
            rty = ctx.ret_ty
            st = ctx.st
            if not (isinstance(v, NumV) and dst in INT_RANGES):
                return eng.mk_default(st, rty)
            lo, hi = INT_RANGES[dst]

            def ok_(val):
                return EnumV(rty, {0}, {0: StructV('Ok', {'0': NumV(val.sym, val.k, dst)})})

            def err_():
                return EnumV(rty, {1}, {1: StructV('Err', {'0': OpaqueV('TryFromIntError', next(_c))})})
            blo, bhi = eng.bounds(st, v)
            if blo >= lo and bhi <= hi:
                return ok_(v)
            if bhi < lo or blo > hi:
                return err_()
            out = []
            s_ok = st
            s_hi = st.fork()
            s_lo = st.fork()
            if eng.assume_le(s_ok, NumV(None, lo, v.ty), v) and eng.assume_le(s_ok, v, NumV(None, hi, v.ty)):
                out.append((s_ok, ok_(v)))
            if bhi > hi and eng.assume_cmp(s_hi, 'gt', v, NumV(None, hi, v.ty)):
                out.append((s_hi, err_()))
            if blo < lo and eng.assume_cmp(s_lo, 'lt', v, NumV(None, lo, v.ty)):
                out.append((s_lo, err_()))
            return out

        @reg('std::result::Result::<T, E>::unwrap_or')
        def _(ctx):
            o = deref1(ctx, ctx.args[0])
            d = ctx.args[1]
            if isinstance(o, EnumV):
                if o.tags == {0}:
                    p = o.payload.get(0)
                    return p.fields.get('0') if p and p.fields.get('0') is not None else eng.mk_default(ctx.st, ctx.ret_ty)
                if o.tags == {1}:
                    return d
                p = o.payload.get(0)
                pv = p.fields.get('0') if p and p.fields.get('0') is not None else eng.mk_default(ctx.st, ctx.ret_ty)
                if isinstance(pv, BoolV) and pv.val is None and pv.atom is None and isinstance(d, BoolV):
                    return BoolV(None)      # an unknown boolean or the default: an unknown boolean (no case split needed)
                s2 = ctx.st.fork()
                return [(ctx.st, pv), (s2, d)]
            return eng.mk_default(ctx.st, ctx.ret_ty)

        @reg('std::option::Option::<T>::or')
        def _(ctx):
            b = ctx.args[1]
            rty = ctx.ret_ty
            return fork_opt(ctx, ctx.args[0], lambda s, p: b, lambda s, p: some(rty, p))

        @reg('std::option::Option::<T>::map')
        def _(ctx):
            f = ctx.args[1]
            rty = ctx.ret_ty

            def on_some(s, p):
                return [(s2, some(rty, r)) for (s2, r) in call_closure(ctx, s, f, [p])]
            return fork_opt(ctx, ctx.args[0], lambda s, p: none(rty), on_some)

        @regx(r'^std::option::Option::<&(mut )?T>::(cloned|copied)$')
        def _(ctx):
            rty = ctx.ret_ty

            def cl(s, p):
                if not isinstance(p, RefV):
                    return some(rty, p)
                v = eng.read(s, p.path)
                if isinstance(v, CollV):
                    # a clone of a stored collection remembers where it was taken from
                    v = CollV(v.kind, v.ty, next(_c), 0, v.length, v.known, v.elem, prov=('clone', v.prov, origin_spath(s, p.path)))
                elif isinstance(v, StructV) and v.prov is None and p.path[1] and p.path[1][-1][0] == 'e':
                    v = StructV(v.ty, v.fields, prov=('elem-clone', p.path[0], p.path[1]))
                return some(rty, v)
            return fork_opt(ctx, ctx.args[0], lambda s, p: none(rty), cl)

        @regx(r'^std::option::Option::<T>::(as_ref|as_mut|as_deref|as_deref_mut|take)$')
        def _(ctx):
            a = ctx.args[0]
            rty = ctx.ret_ty
            what = ctx.callee.split('::')[-1]
            o = deref1(ctx, a)
            if isinstance(o, EnumV) and isinstance(a, RefV):
                if what == 'take':
                    eng.write(ctx.st, a.path, none(o.ty), log=(a.path[0] == ('H', 'S')))
                    return o
                if o.tags == {0}:
                    return none(rty)
                pay = RefV((a.path[0], a.path[1] + (('v', 1), ('f', '0', '?'))), what.endswith('mut'))
                if o.tags == {1}:
                    return some(rty, pay)
                return EnumV(rty, {0, 1}, {1: StructV('Some', {'0': pay})}, eid=o.eid)
            return eng.mk_default(ctx.st, rty)

        @reg('std::option::Option::<T>::map_or_else')
        def _(ctx):
            fd, f = ctx.args[1], ctx.args[2]
            return fork_opt(ctx, ctx.args[0], lambda s, p: call_closure(ctx, s, fd, []), lambda s, p: call_closure(ctx, s, f, [p]))

        @reg('std::option::Option::<T>::map_or')
        def _(ctx):
            d, f = ctx.args[1], ctx.args[2]
            return fork_opt(ctx, ctx.args[0], lambda s, p: d, lambda s, p: call_closure(ctx, s, f, [p]))

        @reg('std::option::Option::<T>::and_then')
        def _(ctx):
            f = ctx.args[1]
            rty = ctx.ret_ty
            return fork_opt(ctx, ctx.args[0], lambda s, p: none(rty), lambda s, p: call_closure(ctx, s, f, [p]))

        @regx(r'^core::bool::<impl bool>::then_some$')
        def _(ctx):
            b, v = ctx.args
            rty = ctx.ret_ty
            if isinstance(b, BoolV):
                t = eng.eval_bool(ctx.st, b)
                if t is True:
                    return some(rty, v)
                if t is False:
                    return none(rty)
                s2 = ctx.st.fork()
                out = []
                if eng.assume_bool(ctx.st, b, True):
                    out.append((ctx.st, some(rty, v)))
                if eng.assume_bool(s2, b, False):
                    out.append((s2, none(rty)))
                return out
            return opt_either(rty, v)

        @regx(r'^core::bool::<impl bool>::then$')
        def _(ctx):
            b, f = ctx.args
            rty = ctx.ret_ty
            out = []

            def yes(s):
                return [(s2, some(rty, r)) for (s2, r) in call_closure(ctx, s, f, [])]
            if isinstance(b, BoolV):
                t = eng.eval_bool(ctx.st, b)
                if t is True:
                    return yes(ctx.st)
                if t is False:
                    return none(rty)
                s2 = ctx.st.fork()
                if eng.assume_bool(s2, b, False):
                    out.append((s2, none(rty)))
                if eng.assume_bool(ctx.st, b, True):
                    out = yes(ctx.st) + out
                return out
            s2 = ctx.st.fork()
            return yes(ctx.st) + [(s2, none(rty))]

        @reg('std::option::Option::<std::option::Option<T>>::flatten')
        def _(ctx):
            rty = ctx.ret_ty
            return fork_opt(ctx, ctx.args[0], lambda s, p: none(rty),
                            lambda s, p: fork_opt(with_state(ctx, s), p, lambda s2, q: none(rty), lambda s2, q: some(rty, q)))

        @reg('std::option::Option::<T>::ok_or')
        def _(ctx):
            rty = ctx.ret_ty
            e = ctx.args[1]
            return fork_opt(ctx, ctx.args[0], lambda s, p: EnumV(rty, {1}, {1: StructV('Err', {'0': e})}),
                            lambda s, p: EnumV(rty, {0}, {0: StructV('Ok', {'0': p})}))

        @reg('std::option::Option::<T>::or_else')
        def _(ctx):
            f = ctx.args[1]
            rty = ctx.ret_ty
            return fork_opt(ctx, ctx.args[0], lambda s, p: call_closure(ctx, s, f, []), lambda s, p: some(rty, p))

        @reg('std::option::Option::<T>::and')
        def _(ctx):
            b = ctx.args[1]
            rty = ctx.ret_ty
            return fork_opt(ctx, ctx.args[0], lambda s, p: none(rty), lambda s, p: b)

        @reg('std::option::Option::<T>::xor')
        def _(ctx):
            b = ctx.args[1]
            rty = ctx.ret_ty
            return fork_opt(ctx, ctx.args[0],
                            lambda s, p: fork_opt(with_state(ctx, s), b, lambda s2, q: none(rty), lambda s2, q: some(rty, q)),
                            lambda s, p: fork_opt(with_state(ctx, s), b, lambda s2, q: some(rty, p), lambda s2, q: none(rty)))

        @reg('std::option::Option::<T>::ok_or_else')
        def _(ctx):
            rty = ctx.ret_ty
            f = ctx.args[1]
            return fork_opt(ctx, ctx.args[0],
                            lambda s, p: [(s2, EnumV(rty, {1}, {1: StructV('Err', {'0': e})})) for (s2, e) in call_closure(ctx, s, f, [])],
                            lambda s, p: EnumV(rty, {0}, {0: StructV('Ok', {'0': p})}))

        @reg('std::option::Option::<T>::is_none_or')
        def _(ctx):
            f = ctx.args[1]
            return fork_opt(ctx, ctx.args[0], lambda s, p: BoolV(True), lambda s, p: call_closure(ctx, s, f, [p]))

        @reg('std::option::Option::<T>::inspect')
        def _(ctx):
            f = ctx.args[1]
            rty = ctx.ret_ty
            return fork_opt(ctx, ctx.args[0], lambda s, p: none(rty),
                            lambda s, p: [(s2, some(rty, p)) for (s2, _r) in call_closure(ctx, s, f, [mkref(s, p)])])

        # ---- Result combinators (case split on Ok / Err, like the Option ones)
        def fork_res(ctx, o, f_ok, f_err):
            o = deref1(ctx, o)
            _h, targs = split_generic(getattr(o, 'ty', '') or '')

            def pay(tag):
                p = o.payload.get(tag) if isinstance(o, EnumV) else None
                v = p.fields.get('0') if p and p.fields else None
                if v is None:
                    v = eng.mk_default(ctx.st, targs[tag] if len(targs) > tag else '?')
                return v
            if isinstance(o, EnumV) and o.tags == {0}:
                return _results(ctx.st, f_ok(ctx.st, pay(0)))
            if isinstance(o, EnumV) and o.tags == {1}:
                return _results(ctx.st, f_err(ctx.st, pay(1)))
            s2 = ctx.st.fork()
            a, b = pay(0), pay(1)
            if isinstance(o, EnumV) and o.eid is not None:
                dec = ctx.st.vn.get(('tagof', o.eid))
                if dec == 0:
                    return _results(ctx.st, f_ok(ctx.st, a))
                if dec == 1:
                    return _results(ctx.st, f_err(ctx.st, b))
                eng.decide_tag(ctx.st, o.eid, 0)
                eng.decide_tag(s2, o.eid, 1)
            return _results(ctx.st, f_ok(ctx.st, a)) + _results(s2, f_err(s2, b))

        def ok_v(rty, v):
            return EnumV(rty, {0}, {0: StructV('Ok', {'0': v})})

        def err_v(rty, v):
            return EnumV(rty, {1}, {1: StructV('Err', {'0': v})})

        @reg('std::result::Result::<T, E>::ok')
        def _(ctx):
            rty = ctx.ret_ty
            return fork_res(ctx, ctx.args[0], lambda s, p: some(rty, p), lambda s, e: none(rty))

        @reg('std::result::Result::<T, E>::err')
        def _(ctx):
            rty = ctx.ret_ty
            return fork_res(ctx, ctx.args[0], lambda s, p: none(rty), lambda s, e: some(rty, e))

        @regx(r'^std::result::Result::<T, E>::(is_ok|is_err)$')
        def _(ctx):
            want_ok = ctx.callee.endswith('is_ok')
            return fork_res(ctx, ctx.args[0], lambda s, p: BoolV(want_ok), lambda s, e: BoolV(not want_ok))

        @reg('std::result::Result::<T, E>::map')
        def _(ctx):
            rty = ctx.ret_ty
            f = ctx.args[1]
            return fork_res(ctx, ctx.args[0], lambda s, p: [(s2, ok_v(rty, r)) for (s2, r) in call_closure(ctx, s, f, [p])], lambda s, e: err_v(rty, e))

        @reg('std::result::Result::<T, E>::map_err')
        def _(ctx):
            rty = ctx.ret_ty
            f = ctx.args[1]
            return fork_res(ctx, ctx.args[0], lambda s, p: ok_v(rty, p), lambda s, e: [(s2, err_v(rty, r)) for (s2, r) in call_closure(ctx, s, f, [e])])

        @reg('std::result::Result::<T, E>::and_then')
        def _(ctx):
            rty = ctx.ret_ty
            f = ctx.args[1]
            return fork_res(ctx, ctx.args[0], lambda s, p: call_closure(ctx, s, f, [p]), lambda s, e: err_v(rty, e))

        @reg('std::result::Result::<T, E>::or_else')
        def _(ctx):
            rty = ctx.ret_ty
            f = ctx.args[1]
            return fork_res(ctx, ctx.args[0], lambda s, p: ok_v(rty, p), lambda s, e: call_closure(ctx, s, f, [e]))

        @reg('std::result::Result::<T, E>::unwrap_or_else')
        def _(ctx):
            f = ctx.args[1]
            return fork_res(ctx, ctx.args[0], lambda s, p: p, lambda s, e: call_closure(ctx, s, f, [e]))

        @reg('std::result::Result::<T, E>::unwrap_or_default')
        def _(ctx):
            return fork_res(ctx, ctx.args[0], lambda s, p: p, lambda s, e: default_value(ctx, s, ctx.ret_ty))

        @reg('std::result::Result::<T, E>::map_or')
        def _(ctx):
            d, f = ctx.args[1], ctx.args[2]
            return fork_res(ctx, ctx.args[0], lambda s, p: call_closure(ctx, s, f, [p]), lambda s, e: d)

        @reg('std::result::Result::<T, E>::map_or_else')
        def _(ctx):
            fd, f = ctx.args[1], ctx.args[2]
            return fork_res(ctx, ctx.args[0], lambda s, p: call_closure(ctx, s, f, [p]), lambda s, e: call_closure(ctx, s, fd, [e]))

        @reg('std::result::Result::<T, E>::is_ok_and')
        def _(ctx):
            f = ctx.args[1]
            return fork_res(ctx, ctx.args[0], lambda s, p: call_closure(ctx, s, f, [p]), lambda s, e: BoolV(False))

        @reg('std::result::Result::<T, E>::is_err_and')
        def _(ctx):
            f = ctx.args[1]
            return fork_res(ctx, ctx.args[0], lambda s, p: BoolV(False), lambda s, e: call_closure(ctx, s, f, [e]))

        @reg('std::option::Option::<T>::zip')
        def _(ctx):
            rty = ctx.ret_ty
            b = ctx.args[1]
            _h, targs = split_generic(rty)
            tty = targs[0] if targs else 'tuple'
            return fork_opt(ctx, ctx.args[0], lambda s, p: none(rty),
                            lambda s, p: fork_opt(with_state(ctx, s), b, lambda s2, q: none(rty),
                                                  lambda s2, q: some(rty, StructV(tty, {'0': p, '1': q}))))

        @reg('std::option::Option::<T>::filter')
        def _(ctx):
            rty = ctx.ret_ty
            f = ctx.args[1]

            def keep(s, p):
                out = []
                for (s2, r) in call_closure(ctx, s, f, [mkref(s, p)]):
                    tv = eng.eval_bool(s2, r) if isinstance(r, BoolV) else None
                    if tv is True:
                        out.append((s2, some(rty, p)))
                    elif tv is False:
                        out.append((s2, none(rty)))
                    elif isinstance(r, BoolV):
                        s3 = s2.fork()
                        if eng.assume_bool(s2, r, True):
                            out.append((s2, some(rty, p)))
                        if eng.assume_bool(s3, r, False):
                            out.append((s3, none(rty)))
                    else:
                        out.append((s2, opt_either(rty, p)))
                return out
            return fork_opt(ctx, ctx.args[0], lambda s, p: none(rty), keep)

        @reg('std::option::Option::<T>::is_some_and')
        def _(ctx):
            f = ctx.args[1]
            return fork_opt(ctx, ctx.args[0], lambda s, p: BoolV(False), lambda s, p: call_closure(ctx, s, f, [p]))

        @regx(r'^std::option::Option::<T>::(is_some|is_none)$')
        def _(ctx):
            a = ctx.args[0]
            want = 1 if ctx.callee.endswith('is_some') else 0
            o = deref1(ctx, a)
            if isinstance(o, EnumV):
                if o.tags == {want}:
                    return BoolV(True)
                if want not in o.tags:
                    return BoolV(False)
                if isinstance(a, RefV):
                    return BoolV(None, ('tag', a.path, want))
            return BoolV(None, ('fact', ('is_some', next(_c))))

        @reg('<std::option::Option<T> as std::cmp::PartialEq>::eq', 'std::cmp::PartialEq::eq')
        def _(ctx):
            pa, pb = ctx.args[0], ctx.args[1]
            a = deref(ctx, pa)
            b = deref(ctx, pb)

            def payload_eq(x, y):
                if isinstance(x, NumV) and isinstance(y, NumV):
                    r = eng.prove_cmp(ctx.st, 'eq', x, y)
                    if r is not None:
                        return BoolV(r)
                    return BoolV(None, ('cmp', 'eq', x, y))
                if isinstance(x, BoolV) and isinstance(y, BoolV):
                    if x.val is not None and y.val is not None:
                        return BoolV(x.val == y.val)
                    if y.val is not None:
                        return x if y.val else BoolV(None, ('not', x))
                    if x.val is not None:
                        return y if x.val else BoolV(None, ('not', y))
                if isinstance(x, (StrV, CharV)) and isinstance(y, (StrV, CharV)):
                    return self.streq(ctx, x, y)
                if isinstance(x, StructV) and isinstance(y, StructV) and x.fields and set(x.fields) == set(y.fields):
                    # a derived PartialEq compares field by field
                    acc = BoolV(True)
                    for n in sorted(x.fields):
                        r = payload_eq(x.fields[n], y.fields[n])
                        if r is None:
                            return None
                        if r.val is False:
                            return BoolV(False)
                        if r.val is True:
                            continue
                        acc = r if acc.val is True else BoolV(None, ('and', acc, r))
                    return acc
                return None
            if isinstance(a, NumV) and isinstance(b, NumV):
                return payload_eq(a, b)
            if isinstance(a, (StrV, CharV)) and isinstance(b, (StrV, CharV)):
                return self.streq(ctx, a, b)
            if isinstance(a, StructV) and isinstance(b, StructV) and a.ty == b.ty and a.ty in eng.prog.adts:
                r = payload_eq(a, b)
                if r is not None:
                    return r
            if isinstance(a, EnumV) and isinstance(b, EnumV):
                if len(a.tags) == 1 and len(b.tags) == 1:
                    if a.tags != b.tags:
                        return BoolV(False)
                    if a.tags == {0}:
                        return BoolV(True)
                    r = payload_eq(a.payload[1].fields.get('0'), b.payload[1].fields.get('0'))
                    if r is not None:
                        return r
                else:
                    # one side a known variant, the other a place whose tag is still open:
                    # eq == (tag test) and (payload test); a branch on it narrows the place
                    for (pm, m, k) in ((pa, a, b), (pb, b, a)):
                        if len(k.tags) == 1 and len(m.tags) > 1 and isinstance(pm, RefV):
                            kt = next(iter(k.tags))
                            if kt not in m.tags:
                                return BoolV(False)
                            t = BoolV(None, ('tag', pm.path, kt))
                            if kt == 0:
                                return t
                            pl = m.payload.get(1)
                            r = payload_eq(pl.fields.get('0') if pl is not None else None, k.payload[1].fields.get('0'))
                            if r is not None:
                                if r.val is True:
                                    return t
                                if r.val is False:
                                    return BoolV(False)
                                return BoolV(None, ('and', t, r))
            return BoolV(None, ('fact', ('opteq', next(_c))))

        # ---------- numeric helpers -------------------------------------
        @regx(r'^std::cmp::Ord::min$|^std::cmp::min$|as std::cmp::Ord>::min$|impl std::cmp::Ord for \w+>::min$')
        def _(ctx):
            a, b = ctx.args
            if isinstance(a, NumV) and isinstance(b, NumV):
                return eng.num_min(ctx.st, a, b, a.ty)
            return eng.mk_default(ctx.st, ctx.ret_ty)

        @regx(r'^std::cmp::Ord::max$|^std::cmp::max$|as std::cmp::Ord>::max$|impl std::cmp::Ord for \w+>::max$')
        def _(ctx):
            a, b = ctx.args
            if isinstance(a, NumV) and isinstance(b, NumV):
                return eng.num_max(ctx.st, a, b, a.ty)
            return eng.mk_default(ctx.st, ctx.ret_ty)

        @regx(r'^std::cmp::Ord::clamp$|as std::cmp::Ord>::clamp$|impl std::cmp::Ord for \w+>::clamp$')
        def _(ctx):
            # x.clamp(lo, hi) = min(max(x, lo), hi); panics when lo > hi
            x, lo, hi = ctx.args
            if isinstance(x, NumV) and isinstance(lo, NumV) and isinstance(hi, NumV):
                ok = eng.prove_le(ctx.st, lo, hi) is True
                ctx.oblige('precondition', 'clamp: min <= max', ok, 'clamp(%r, %r)' % (lo, hi))
                eng.assume_le(ctx.st, lo, hi)
                return eng.num_min(ctx.st, eng.num_max(ctx.st, x, lo, x.ty), hi, x.ty)
            ctx.oblige('precondition', 'clamp: min <= max', False, 'clamp on %r' % (x,))
            return eng.mk_default(ctx.st, ctx.ret_ty)

        @regx(r'^core::num::<impl u(8|16|32|64|size)>::saturating_sub$')
        def _(ctx):
            a, b = ctx.args
            st = ctx.st
            if isinstance(a, NumV) and isinstance(b, NumV):
                if eng.prove_le(st, b, a) is True:
                    return eng.num_sub(st, a, b, a.ty)
                if eng.prove_le(st, a, b) is True:
                    return NumV(None, 0, a.ty)
                key = ('satsub', a.key(), b.key())
                if key in st.vn:
                    return st.vn[key]
                t = eng.fresh_num(st, a.ty, 0, None, name='satsub(%r,%r)' % (a, b))
                eng.assume_le(st, t, a)
                blo, bhi = eng.bounds(st, b)
                if bhi != INF:
                    # t >= a - bhi
                    eng.assume_le(st, NumV(a.sym, a.k - bhi, a.ty), t)
                st.vn[key] = t
                st.vn[('def', t.sym)] = ('satsub', a, b)
                return t
            return eng.mk_default(st, ctx.ret_ty)

        @regx(r'^core::num::<impl u(8|16|32|64|size)>::checked_sub$')
        def _(ctx):
            a, b = ctx.args
            st = ctx.st
            rty = ctx.ret_ty
            if isinstance(a, NumV) and isinstance(b, NumV):
                r = eng.prove_le(st, b, a)
                if r is True:
                    return some(rty, eng.num_sub(st, a, b, a.ty))
                if r is False:
                    return none(rty)
                s2 = st.fork()
                out = []
                if eng.assume_le(st, b, a):
                    out.append((st, some(rty, eng.num_sub(st, a, b, a.ty))))
                if eng.assume_cmp(s2, 'lt', a, b):
                    out.append((s2, none(rty)))
                return out
            return eng.mk_default(st, rty)

        @regx(r'^core::num::<impl u(8|16|32|64|size)>::wrapping_(add|sub)$')
        def _(ctx):
            # exact when no wrap can occur in this state, otherwise any value of the type
            a, b = ctx.args
            st = ctx.st
            if isinstance(a, NumV) and isinstance(b, NumV):
                rlo, rhi = INT_RANGES.get(a.ty, (None, None))
                if ctx.callee.endswith('wrapping_sub'):
                    if eng.prove_le(st, b, a) is True:
                        return eng.num_sub(st, a, b, a.ty)
                elif rhi is not None:
                    alo, ahi = eng.bounds(st, a)
                    blo, bhi = eng.bounds(st, b)
                    if ahi != INF and bhi != INF and ahi + bhi <= rhi:
                        return eng.num_add(st, a, b, a.ty)
                return eng.fresh_num(st, a.ty)
            return eng.mk_default(st, ctx.ret_ty)

        @regx(r'^core::num::<impl u(8|16|32|64|size)>::checked_add$')
        def _(ctx):
            a, b = ctx.args
            st = ctx.st
            rty = ctx.ret_ty
            if isinstance(a, NumV) and isinstance(b, NumV) and b.sym is None:
                rlo, rhi = INT_RANGES.get(a.ty, (None, None))
                if rhi is None:
                    return eng.mk_default(st, rty)
                top = NumV(None, rhi - b.k, a.ty)          # a + b fits  <=>  a <= MAX - b
                r = eng.prove_le(st, a, top)
                if r is True:
                    return some(rty, NumV(a.sym, a.k + b.k, a.ty))
                if r is False:
                    return none(rty)
                s2 = st.fork()
                out = []
                if eng.assume_le(st, a, top):
                    out.append((st, some(rty, NumV(a.sym, a.k + b.k, a.ty))))
                if eng.assume_cmp(s2, 'lt', top, a):
                    out.append((s2, none(rty)))
                return out
            return eng.mk_default(st, rty)

        @regx(r"^<&('a )?(u8|u16|u32|u64|usize|i32|i64) as std::ops::(Add|Sub|Mul|Div|Rem)<&?('a )?\2>>::(add|sub|mul|div|rem)$"
              r"|^<(u8|u16|u32|u64|usize|i32|i64) as std::ops::(Add|Sub|Mul|Div|Rem)<&('a )?\6>>::(add|sub|mul|div|rem)$")
        def _(ctx):
            # arithmetic on references to integers (`*c % 8` written `c % 8` with c: &u32): the operation on
            # the values, with the same panics (overflow, zero divisor) as the operator on values
            a = deref(ctx, ctx.args[0]) if isinstance(ctx.args[0], RefV) else ctx.args[0]
            b = deref(ctx, ctx.args[1]) if isinstance(ctx.args[1], RefV) else ctx.args[1]
            op = ctx.callee.rsplit('::', 1)[1]
            rty = ctx.ret_ty
            st = ctx.st
            if not (isinstance(a, NumV) and isinstance(b, NumV)):
                ctx.oblige('overflow', 'arithmetic on references: operands not numeric', False, '%r %s %r' % (a, op, b))
                return eng.mk_default(st, rty)
            if op in ('div', 'rem'):
                blo, bhi = eng.bounds(st, b)
                ctx.oblige('assert', 'attempt to divide / take the remainder with a divisor of zero', blo > 0 or bhi < 0, 'divisor %r in [%s, %s]' % (b, blo, bhi))
                return eng.num_divrem(st, 'Div' if op == 'div' else 'Rem', a, b, rty)
            res = {'add': eng.num_add, 'sub': eng.num_sub, 'mul': eng.num_mul}[op](st, a, b, rty)
            lo, hi = INT_RANGES.get(rty, (None, None))
            rlo, rhi = eng.bounds(st, res)
            ctx.oblige('overflow', 'attempt to %s with overflow' % op, lo is not None and rlo >= lo and rhi <= hi, '%r %s %r in [%s, %s]' % (a, op, b, rlo, rhi))
            return res

        @regx(r'as std::ops::Shl<i32>>::shl$|as std::ops::Shl<u32>>::shl$')
        def _(ctx):
            a = deref(ctx, ctx.args[0])
            b = deref(ctx, ctx.args[1])
            st = ctx.st
            ok = isinstance(b, NumV) and eng.bounds(st, b)[0] >= 0 and eng.bounds(st, b)[1] < 32
            ctx.oblige('assert', 'shift amount < bit width', ok, repr(b))
            if isinstance(a, NumV) and isinstance(b, NumV):
                # wrapping semantics of `<<` on the value; overflow of the shifted-out bits is not a panic
                if b.sym is None:
                    alo, ahi = eng.bounds(st, a)
                    if a.sym is None:
                        return NumV(None, (a.k << b.k) & 0xffffffff, a.ty)
                    if ahi != INF and (ahi << b.k) <= 0xffffffff:
                        return eng.num_opaque(st, a.ty, alo << b.k, ahi << b.k, ('shl', a.key(), b.k), '(%r<<%d)' % (a, b.k))
            return eng.fresh_num(st, 'u32')

        # ---------- strings ---------------------------------------------
        def streq(ctx, a, b):
            a = sval(ctx, a)
            b = sval(ctx, b)
            if isinstance(a, StrV) and isinstance(b, StrV):
                if a.known is not None and b.known is not None:
                    return BoolV(a.known == b.known)
                # the text of a boolean (`flag.to_string() == "true"`): the comparison is the flag itself
                for x, y in ((a, b), (b, a)):
                    if x.known is None and y.known is not None and isinstance(x.prov, tuple) and len(x.prov) == 2 and x.prov[0] == 'bool' \
                            and isinstance(x.prov[1], BoolV):
                        if y.known == 'true':
                            return x.prov[1]
                        if y.known == 'false':
                            return BoolV(None, ('not', x.prov[1]))
                        return BoolV(False)
                # learnt disequalities
                for x, y in ((a, b), (b, a)):
                    if x.known is None and x.oid is not None and y.known is not None:
                        ne = ctx.st.vn.get(('strne', x.oid), ())
                        if y.known in ne:
                            return BoolV(False)
                        dom = ctx.st.vn.get(('strdom', x.oid))
                        if dom is not None and y.known not in dom:
                            return BoolV(False)
                        return BoolV(None, ('streq', x, y.known))
                return BoolV(None, ('fact', ('streq', a.key(), b.key())))
            return BoolV(None, ('fact', ('streq?', next(_c))))
        self.streq = streq

        @reg('<std::string::String as std::cmp::PartialEq<&str>>::eq',
             'std::string::<impl std::cmp::PartialEq<std::string::String> for &str>::eq',
             'core::str::traits::<impl std::cmp::PartialEq for str>::eq',
             '<std::string::String as std::cmp::PartialEq>::eq',
             '<std::string::String as std::cmp::PartialEq<str>>::eq',
             'std::string::<impl std::cmp::PartialEq<std::string::String> for str>::eq')
        def _(ctx):
            return streq(ctx, ctx.args[0], ctx.args[1])

        @regx(r'^core::tuple::<impl (std|core)::cmp::PartialEq for \([A-Z, ]+\)>::(eq|ne)$')
        def _(ctx):
            # (a, b) == (c, d): every component equal (numbers, booleans, characters and strings; anything else stays unknown)
            a = deref(ctx, ctx.args[0])
            b = deref(ctx, ctx.args[1])
            ne = ctx.callee.endswith('::ne')
            if isinstance(a, StructV) and isinstance(b, StructV) and set(a.fields) == set(b.fields) and a.fields:
                parts = []
                for k in sorted(a.fields):
                    x, y = a.fields[k], b.fields[k]
                    if isinstance(x, NumV) and isinstance(y, NumV):
                        r = eng.prove_cmp(ctx.st, 'eq', x, y)
                        parts.append(BoolV(r) if r is not None else BoolV(None, ('cmp', 'eq', x, y)))
                    elif isinstance(x, (StrV, CharV)) and isinstance(y, (StrV, CharV)):
                        parts.append(streq(ctx, x, y))
                    elif isinstance(x, BoolV) and isinstance(y, BoolV) and x.val is not None and y.val is not None:
                        parts.append(BoolV(x.val == y.val))
                    else:
                        parts = None
                        break
                if parts is not None:
                    if any(p_.val is False for p_ in parts):
                        return BoolV(ne)
                    und = [p_ for p_ in parts if p_.val is None]
                    if not und:
                        return BoolV(not ne)
                    res = und[0]
                    for p_ in und[1:]:
                        res = BoolV(None, ('and', res, p_))
                    return BoolV(None, ('not', res)) if ne else res
            return BoolV(None, ('fact', ('tuple-eq', next(_c))))

        @reg('std::cmp::impls::<impl std::cmp::PartialEq<&B> for &A>::eq')
        def _(ctx):
            a = deref(ctx, ctx.args[0])
            b = deref(ctx, ctx.args[1])
            if isinstance(a, (StrV, CharV)) or isinstance(b, (StrV, CharV)):
                return streq(ctx, a, b)
            if isinstance(a, NumV) and isinstance(b, NumV):
                r = eng.prove_cmp(ctx.st, 'eq', a, b)
                if r is not None:
                    return BoolV(r)
                return BoolV(None, ('cmp', 'eq', a, b))
            return BoolV(None, ('fact', ('refeq', next(_c))))

        @reg('<std::string::String as std::ops::Deref>::deref', 'std::string::String::as_str',
             'std::str::<impl std::borrow::ToOwned for str>::to_owned', '<str as std::borrow::ToOwned>::to_owned', '<std::string::String as std::clone::Clone>::clone',
             '<std::borrow::Cow<\'_, B> as std::ops::Deref>::deref', 'std::borrow::Cow::<\'_, B>::into_owned',
             '<str as std::string::ToString>::to_string', '<std::string::String as std::convert::From<&str>>::from')
        def _(ctx):
            v = deref(ctx, ctx.args[0])
            if isinstance(v, StrV):
                return v
            return StrV(None, oid=next(_c), prov=('from', getattr(v, 'prov', None)))

        @reg('<T as std::string::ToString>::to_string')
        def _(ctx):
            v = deref(ctx, ctx.args[0])
            if isinstance(v, StrV):
                return v
            if isinstance(v, CharV):
                if v.known is not None:
                    return StrV(v.known, prov=('char',))
                s = StrV(None, oid=next(_c), prov=('char', v.key()))
                ctx.st.vn[('nonempty', s.oid)] = True
                ctx.st.vn[('firstchar', s.oid)] = v
                return s
            if isinstance(v, BoolV):
                cur = eng.eval_bool(ctx.st, v)
                if cur is not None:
                    return StrV('true' if cur else 'false', prov=('bool',))
                return StrV(None, oid=next(_c), prov=('bool', v))
            return StrV(None, oid=next(_c), prov=('display', getattr(v, 'key', lambda: None)()))

        @regx(r'^(core|std)::char::methods::<impl char>::encode_utf8$')
        def _(ctx):
            # the UTF-8 text of one character (the buffer only lends the storage)
            v = deref(ctx, ctx.args[0])
            if isinstance(v, CharV):
                if v.known is not None:
                    return StrV(v.known, prov=('char',))
                s = StrV(None, oid=next(_c), prov=('char', v.key()))
                ctx.st.vn[('nonempty', s.oid)] = True
                ctx.st.vn[('firstchar', s.oid)] = v
                return s
            return StrV(None, oid=next(_c), prov=('display', None))

        @reg('std::string::String::new')
        def _(ctx):
            return StrV('', prov=('lit',))

        @regx(r'^std::string::String::(len)$|^core::str::<impl str>::len$')
        def _(ctx):
            v = sval(ctx, ctx.args[0])
            if isinstance(v, StrV) and v.known is not None:
                return NumV(None, len(v.known.encode('utf-8')), 'usize')
            key = ('strlen', v.key()) if isinstance(v, StrV) else None
            n = eng.num_opaque(ctx.st, 'usize', 0, 2**40, key, 'len(%r)' % (v,))
            if isinstance(v, StrV) and v.oid is not None and ctx.st.vn.get(('nonempty', v.oid)):
                eng.assume_le(ctx.st, NumV(None, 1, 'usize'), n)
            return n

        @regx(r'^std::string::String::is_empty$|^core::str::<impl str>::is_empty$')
        def _(ctx):
            v = sval(ctx, ctx.args[0])
            if isinstance(v, StrV) and v.known is not None:
                return BoolV(v.known == '')
            if isinstance(v, StrV) and v.oid is not None:
                if ctx.st.vn.get(('nonempty', v.oid)):
                    return BoolV(False)
                return bool_fact(ctx, ('strempty', v.oid))
            return BoolV(None, ('fact', ('strempty', next(_c))))

        @reg('std::string::String::push')
        def _(ctx):
            r, ch = ctx.args
            cur = sval(ctx, r)
            if isinstance(cur, StrV) and cur.known is not None and isinstance(ch, CharV) and ch.known is not None:
                nv = StrV(cur.known + ch.known, prov=('push',))
            else:
                nv = StrV(None, oid=next(_c), prov=('push', cur.key() if isinstance(cur, V) else None, ch.key() if isinstance(ch, V) else None))
                ctx.st.vn[('nonempty', nv.oid)] = True
                ctx.st.vn[('pushdef', nv.oid)] = (cur, ch)
            log(ctx, 'str.push', spath(r.path) if isinstance(r, RefV) else None, ch)
            if isinstance(r, RefV):
                eng.write(ctx.st, r.path, nv)
            return UNIT

        @reg('std::string::String::push_str')
        def _(ctx):
            r, s = ctx.args
            cur = sval(ctx, r)
            s = sval(ctx, s)
            if isinstance(cur, StrV) and cur.known is not None and isinstance(s, StrV) and s.known is not None:
                nv = StrV(cur.known + s.known, prov=('push',))
            elif isinstance(cur, StrV) and cur.known == '' and isinstance(s, StrV):
                nv = s                   # appending to the empty string: the appended text itself
            elif isinstance(s, StrV) and s.known == '' and isinstance(cur, StrV):
                nv = cur
            else:
                nv = StrV(None, oid=next(_c), prov=('push_str', cur.key() if isinstance(cur, V) else None, s.key() if isinstance(s, V) else None))
                ctx.st.vn[('pushdef', nv.oid)] = (cur, s)
                def _ne(x):
                    return isinstance(x, StrV) and ((x.known or '') != '' or (x.oid and ctx.st.vn.get(('nonempty', x.oid))))
                if _ne(cur) or _ne(s):
                    ctx.st.vn[('nonempty', nv.oid)] = True
            if isinstance(r, RefV):
                eng.write(ctx.st, r.path, nv)
            return UNIT

        @reg('<std::string::String as std::ops::AddAssign<&str>>::add_assign')
        def _(ctx):
            # `s += t` is `s.push_str(t)`
            c2 = type(ctx)(ctx.eng, ctx.st, ctx.fr, ctx.bi, ctx.t, ctx.fn, 'std::string::String::push_str', ctx.args, ctx.depth)
            return self.table['std::string::String::push_str'](c2)

        @reg('<T as std::borrow::ToOwned>::to_owned')
        def _(ctx):
            # the blanket impl (`T: Clone`): a copy of the value; for text the same text
            v = deref(ctx, ctx.args[0])
            if isinstance(v, (StrV, NumV, BoolV, CharV)):
                return v
            return self.total(ctx)[0][1]

        @reg('<std::string::String as std::ops::Add<&str>>::add')
        def _(ctx):
            a = sval(ctx, ctx.args[0])
            b = sval(ctx, ctx.args[1])
            if isinstance(a, StrV) and isinstance(b, StrV) and a.known is not None and b.known is not None:
                return StrV(a.known + b.known)
            if isinstance(a, StrV) and a.known == '' and isinstance(b, StrV):
                return b
            if isinstance(b, StrV) and b.known == '' and isinstance(a, StrV):
                return a

            def _ne(x):
                return isinstance(x, StrV) and ((x.known or '') != '' or (x.oid and ctx.st.vn.get(('nonempty', x.oid))))
            if _ne(a) or _ne(b):
                nv = StrV(None, oid=next(_c), prov=('concat', a.key() if isinstance(a, V) else None, b.key() if isinstance(b, V) else None))
                ctx.st.vn[('nonempty', nv.oid)] = True
                if isinstance(a, StrV) and (a.known or '') != '':
                    ctx.st.vn[('firstchar', nv.oid)] = CharV(a.known[0])
                return nv
            return StrV(None, oid=next(_c), prov=('concat', a.key() if isinstance(a, V) else None, b.key() if isinstance(b, V) else None))

        @reg('core::str::<impl str>::chars')
        def _(ctx):
            s = sval(ctx, ctx.args[0])
            return IterV('chars', ctx.ret_ty, (s,), iid=next(_c))

        @reg('core::str::<impl str>::char_indices')
        def _(ctx):
            s = sval(ctx, ctx.args[0])
            return IterV('chars', ctx.ret_ty, (s,), ops=(('char_indices', s),), iid=next(_c))

        @regx(r'^(std|core)::char::methods::<impl char>::len_utf8$')
        def _(ctx):
            ch = deref(ctx, ctx.args[0])
            if isinstance(ch, CharV) and ch.known is not None:
                return NumV(None, len(ch.known.encode('utf-8')), 'usize')
            return eng.num_opaque(ctx.st, 'usize', 1, 4, ('len_utf8', ch.key() if isinstance(ch, V) else None), 'len_utf8(%r)' % (ch,))

        @reg('core::str::<impl str>::contains')
        def _(ctx):
            h = sval(ctx, ctx.args[0])
            n = sval(ctx, ctx.args[1])
            if isinstance(h, StrV) and isinstance(n, StrV) and h.known is not None and n.known is not None:
                return BoolV(n.known in h.known)
            if isinstance(h, StrV) and h.known is not None and isinstance(n, StrV) and n.oid is not None:
                return bool_fact(ctx, ('strcontains', h.known, n.oid))
            return BoolV(None, ('fact', ('strcontains', next(_c))))

        @reg('core::str::<impl str>::starts_with')
        def _(ctx):
            h = sval(ctx, ctx.args[0])
            n = sval(ctx, ctx.args[1])
            if isinstance(n, CharV) and n.known is not None:
                n = StrV(n.known)
            if isinstance(h, StrV) and isinstance(n, StrV) and h.known is not None and n.known is not None:
                return BoolV(h.known.startswith(n.known))
            if isinstance(h, StrV) and isinstance(n, StrV) and n.known is not None and h.oid is not None:
                return bool_fact(ctx, ('startswith', h.oid, n.known))
            return BoolV(None, ('fact', ('startswith', next(_c))))

        @regx(r'^core::str::<impl str>::strip_(prefix|suffix)$')
        def _(ctx):
            h = sval(ctx, ctx.args[0])
            n = sval(ctx, ctx.args[1])
            rty = ctx.ret_ty
            pre = ctx.callee.endswith('strip_prefix')
            pat = ctx.args[1]
            if isinstance(pat, ClosureV) and isinstance(h, StrV) and pre:
                # a predicate on the first character (`strip_prefix(|c: char| ..)`)
                if h.known is not None:
                    if h.known == '':
                        return none(rty)
                    rs = eng.call_value(ctx.st, pat, [CharV(h.known[0])], ctx.depth, ctx.fr, ctx.bi)
                    out = []
                    for (s2, r) in rs:
                        t_ = eng.eval_bool(s2, r) if isinstance(r, BoolV) else None
                        out.append((s2, some(rty, StrV(h.known[1:], prov=('collect',))) if t_ is True else none(rty) if t_ is False else
                                    opt_either(rty, StrV(None, oid=next(_c), prov=('strip', h.known)))))
                    return out
                s2 = ctx.st.fork()
                rs = eng.call_value(s2, pat, [CharV(None, next(_c))], ctx.depth, ctx.fr, ctx.bi)
                ts = [eng.eval_bool(s3, r) if isinstance(r, BoolV) else None for (s3, r) in rs]
                if ts and all(t_ is True for t_ in ts):
                    # whatever the first character is, it is dropped: the rest is `chars().skip(1).collect()`
                    it2 = IterV('chars', 'std::str::Chars', (h,), ops=(('skip', NumV(None, 1, 'usize')),), iid=next(_c))
                    c2 = type(ctx)(ctx.eng, ctx.st, ctx.fr, ctx.bi, dict(ctx.t, dest=dict(ctx.t['dest'], ty='std::string::String')), ctx.fn,
                                   'std::iter::Iterator::collect', [it2], ctx.depth)
                    tail = self.table['std::iter::Iterator::collect'](c2)
                    if isinstance(tail, list):
                        tail = tail[0][1]
                    if h.oid is not None and ctx.st.vn.get(('nonempty', h.oid)):
                        return some(rty, tail)
                    s4 = ctx.st.fork()
                    return [(ctx.st, some(rty, tail)), (s4, none(rty))]
                if ts and all(t_ is False for t_ in ts):
                    return none(rty)
                return opt_either(rty, StrV(None, oid=next(_c), prov=('strip', h.key())))
            if isinstance(n, CharV) and n.known is not None:
                n = StrV(n.known)
            if not (isinstance(h, StrV) and isinstance(n, StrV) and n.known is not None):
                return opt_either(rty, StrV(None, oid=next(_c), prov=('strip', None)))

            def cut(v):
                if pre:
                    return v[len(n.known):] if v.startswith(n.known) else None
                return v[:len(v) - len(n.known)] if v.endswith(n.known) else None
            if h.known is not None:
                r = cut(h.known)
                return none(rty) if r is None else some(rty, StrV(r, prov=('strip', h.known)))
            if h.prov and h.prov[0] in ('table-value', 'table-value-slice'):
                # some value of a constant table: both outcomes, the remainder ranges over the members that match
                vals = h.prov[2]
                hit = tuple(cut(v) for v in vals if cut(v) is not None)
                miss = tuple(v for v in vals if cut(v) is None)
                out = []
                if hit:
                    out.append((ctx.st if not miss else ctx.st.fork(), some(rty, StrV(None, oid=next(_c), prov=('table-value-slice', h.prov[1], hit)))))
                if miss:
                    out.append((ctx.st, none(rty)))
                return out
            return opt_either(rty, StrV(None, oid=next(_c), prov=('strip', h.key())))

        @reg('core::slice::<impl [T]>::contains')
        def _(ctx):
            path, c = coll_at(ctx, ctx.args[0])
            x = deref(ctx, ctx.args[1])
            x = sval(ctx, x) if isinstance(x, (StrV, CharV)) else x
            if c.known is not None and isinstance(x, StrV) and x.known is not None and all(isinstance(e, StrV) and e.known is not None for e in c.known):
                return BoolV(any(e.known == x.known for e in c.known))
            if c.known is not None and isinstance(x, NumV) and x.sym is None and all(isinstance(e, NumV) and e.sym is None for e in c.known):
                return BoolV(any(e.k == x.k for e in c.known))
            return bool_fact(ctx, ('contains', c.key(), x.key() if isinstance(x, V) else None))

        @regx(r'^<char as std::convert::From<u8>>::from$|^std::char::convert::<impl std::convert::From<u8> for char>::from$|^core::char::convert::<impl std::convert::From<u8> for char>::from$')
        def _(ctx):
            v = deref(ctx, ctx.args[0])
            if isinstance(v, NumV):
                return eng.int_to_char(ctx.st, v)
            return CharV(None, next(_c))

        @reg('std::char::methods::<impl char>::is_ascii_digit')
        def _(ctx):
            ch = deref(ctx, ctx.args[0])
            if isinstance(ch, CharV) and ch.known is not None:
                return BoolV(ch.known in '0123456789')
            return bool_fact(ctx, ('isdigit', ch.key() if isinstance(ch, V) else None))

        @reg('core::str::<impl str>::parse')
        def _(ctx):
            s = sval(ctx, ctx.args[0])
            rty = ctx.ret_ty
            head, args = split_generic(rty)
            oty = args[0] if args else '?'
            st = ctx.st
            if isinstance(s, StrV):
                if s.known is not None:
                    if oty == 'bool':
                        if s.known in ('true', 'false'):
                            return EnumV(rty, {0}, {0: StructV('Ok', {'0': BoolV(s.known == 'true')})})
                        return EnumV(rty, {1}, {1: StructV('Err', {})})
                    if oty in INT_RANGES:
                        try:
                            n = int(s.known) if re.fullmatch(r'\+?[0-9]+', s.known) else None
                        except Exception:
                            n = None
                        lo, hi = INT_RANGES[oty]
                        if n is not None and lo <= n <= hi:
                            return EnumV(rty, {0}, {0: StructV('Ok', {'0': NumV(None, n, oty)})})
                        return EnumV(rty, {1}, {1: StructV('Err', {})})
                if oty == 'bool' and s.prov and s.prov[0] == 'bool':
                    b = s.prov[1] if len(s.prov) > 1 else None
                    if isinstance(b, BoolV):
                        return EnumV(rty, {0}, {0: StructV('Ok', {'0': b})})
            if oty in INT_RANGES and oty != 'bool':
                pay = eng.fresh_num(st, oty, name='parsed(%r)' % (s,))
                prov = ('parse', s.key() if isinstance(s, V) else None)
                st.vn[('def', pay.sym)] = prov
            else:
                pay = eng.mk_default(st, oty)
            r = EnumV(rty, {0, 1}, {0: StructV('Ok', {'0': pay}), 1: StructV('Err', {})})
            if isinstance(s, StrV) and s.oid is not None:
                st.vn[('parse-of', r.eid)] = (s, oty)
                st.vn[('parse-pay', r.eid)] = pay
            return r

        @reg('<std::string::String as std::ops::Index<I>>::index', 'core::str::traits::<impl std::ops::Index<I> for str>::index',
             'std::str::traits::<impl std::ops::Index<I> for str>::index')
        def _(ctx):
            s = sval(ctx, ctx.args[0])
            r = ctx.args[1]
            st = ctx.st
            ok = False
            facts = repr(s)
            res = StrV(None, oid=next(_c), prov=('slice', s.key() if isinstance(s, V) else None))
            lo = r.fields.get('start') if isinstance(r, StructV) else None
            hi = r.fields.get('end') if isinstance(r, StructV) else None
            chat = st.vn.get(('char-at', s.key() if isinstance(s, V) else None, lo.sym)) if isinstance(lo, NumV) and lo.sym is not None and lo.k == 0 else None
            if isinstance(chat, CharV) and isinstance(hi, NumV) and 'Inclusive' not in getattr(r, 'ty', ''):
                # `&s[i..i + c.len_utf8()]` with (i, c) from s.char_indices(): exactly the character c
                if chat.known is not None:
                    ln = NumV(None, len(chat.known.encode('utf-8')), 'usize')
                else:
                    ln = eng.num_opaque(st, 'usize', 1, 4, ('len_utf8', chat.key()), 'len_utf8(%r)' % (chat,))
                want = eng.num_add(st, lo, ln, 'usize')
                if eng.prove_cmp(st, 'eq', hi, want) is True:
                    ctx.oblige('precondition', 'str range index in bounds and on a char boundary', True, 'the slice of one character at its own offset')
                    st.log(('char-slice', ctx.fr.func if ctx.fr else None, ctx.t['span'].get('line')))
                    if chat.known is not None:
                        return StrV(chat.known, prov=('char',))
                    one = StrV(None, oid=next(_c), prov=('char', chat.key()))
                    st.vn[('nonempty', one.oid)] = True
                    st.vn[('firstchar', one.oid)] = chat
                    return one
            st.log(('str.index', ctx.fr.func if ctx.fr else None, ctx.t['span'].get('line')))
            if isinstance(s, StrV) and s.known is not None:
                b = s.known.encode('utf-8')
                l = lo.k if isinstance(lo, NumV) and lo.sym is None else (0 if lo is None else None)
                h = hi.k if isinstance(hi, NumV) and hi.sym is None else (len(b) if hi is None else None)
                if l is not None and h is not None and 0 <= l <= h <= len(b):
                    try:
                        res = StrV(b[l:h].decode('utf-8'))
                        ok = True
                    except Exception:
                        ok = False
            elif isinstance(s, StrV) and s.prov and s.prov[0] in ('table-value', 'table-value-slice'):
                # value of a constant table: every member is checked
                vals = s.prov[2]
                l = lo.k if isinstance(lo, NumV) and lo.sym is None else (0 if lo is None else None)
                if l is not None and hi is None:
                    ok = all(len(v.encode()) >= l and _is_boundary(v, l) for v in vals)
                    res = StrV(None, oid=next(_c), prov=('table-value-slice', s.prov[1], tuple(v.encode()[l:].decode() for v in vals) if ok else ()))
                    facts = 'table %s values %r' % (s.prov[1], vals)
            ctx.oblige('precondition', 'str range index in bounds and on a char boundary', ok, facts)
            return res

        @regx(r'^std::str::<impl str>::repeat$|^alloc::str::<impl str>::repeat$')
        def _(ctx):
            sv = sval(ctx, ctx.args[0])
            n = ctx.args[1]
            if isinstance(sv, StrV) and sv.known is not None and isinstance(n, NumV) and n.sym is None and 0 <= n.k * len(sv.known) <= 4096:
                return StrV(sv.known * n.k)
            ok = True
            if isinstance(n, NumV):
                lo, hi = eng.bounds(ctx.st, n)
                ok = hi != INF and hi <= 2 ** 40
            ctx.oblige('precondition', 'str::repeat: total length does not overflow', ok, 'count %r' % (n,))
            r = StrV(None, oid=next(_c), prov=('repeat', sv.key() if isinstance(sv, V) else None, n.key() if isinstance(n, V) else None))
            return r

        @regx(r"^<&(?:'a )?(u8|u16|u32|u64|usize|i32|i64) as std::ops::(Add|Sub|Mul)<(?:&(?:'a )?)?(u8|u16|u32|u64|usize|i32|i64)>>::(add|sub|mul)$|"
              r"^<(u8|u16|u32|u64|usize|i32|i64) as std::ops::(Add|Sub|Mul)<&(?:'a )?(u8|u16|u32|u64|usize|i32|i64)>>::(add|sub|mul)$")
        def _(ctx):
            a = deref(ctx, ctx.args[0])
            b = deref(ctx, ctx.args[1])
            op = ctx.callee.rsplit('::', 1)[1]
            ty = ctx.ret_ty if ctx.ret_ty in INT_RANGES else 'u32'
            if not (isinstance(a, NumV) and isinstance(b, NumV)):
                return eng.mk_default(ctx.st, ty)
            r = {'add': eng.num_add, 'sub': eng.num_sub, 'mul': eng.num_mul}[op](ctx.st, a, b, ty)
            lo, hi = INT_RANGES[ty]
            rlo, rhi = eng.bounds(ctx.st, r)
            ctx.oblige('overflow', 'arithmetic overflow in `%s` on references' % op, rlo >= lo and rhi <= hi, '%r in [%s, %s]' % (r, rlo, rhi))
            return r

        @regx(r'^core::str::<impl str>::split_at$')
        def _(ctx):
            sv = sval(ctx, ctx.args[0])
            i = ctx.args[1]
            st = ctx.st
            ok = False
            facts = repr(sv)
            a = StrV(None, oid=next(_c), prov=('split', 0))
            b = StrV(None, oid=next(_c), prov=('split', 1))
            if isinstance(i, NumV) and i.sym is None:
                if isinstance(sv, StrV) and sv.known is not None:
                    bs = sv.known.encode('utf-8')
                    if 0 <= i.k <= len(bs) and _is_boundary(sv.known, i.k):
                        ok = True
                        a, b = StrV(bs[:i.k].decode('utf-8')), StrV(bs[i.k:].decode('utf-8'))
                elif isinstance(sv, StrV) and sv.prov and sv.prov[0] == 'table-value':
                    vals = sv.prov[2]
                    ok = all(len(v.encode()) >= i.k and _is_boundary(v, i.k) for v in vals)
                    facts = 'table %s values %r' % (sv.prov[1], vals)
                    if ok:
                        a = StrV(None, oid=next(_c), prov=('table-value-slice', sv.prov[1], tuple(v.encode()[:i.k].decode() for v in vals)))
                        b = StrV(None, oid=next(_c), prov=('table-value-slice', sv.prov[1], tuple(v.encode()[i.k:].decode() for v in vals)))
            ctx.oblige('precondition', 'str::split_at index in bounds and on a char boundary', ok, facts)
            return StructV(ctx.ret_ty, {'0': a, '1': b})

        def _is_boundary(s, i):
            b = s.encode('utf-8')
            if i == len(b):
                return True
            return i < len(b) and (b[i] & 0xC0) != 0x80

        # ---------- fmt -------------------------------------------------
        @regx(r"^core::fmt::rt::Argument::<'_>::new_(display|lower_hex|debug|upper_hex)$")
        def _(ctx):
            v = deref(ctx, ctx.args[0])
            kind = ctx.callee.split('new_')[-1]
            return OpaqueV('fmt::Argument', next(_c), prov=(kind, v))

        @regx(r"^std::fmt::Arguments::<'a>::(new|from_str|new_const|new_v1)$")
        def _(ctx):
            tmpl = deref(ctx, ctx.args[0])
            args = deref(ctx, ctx.args[1]) if len(ctx.args) > 1 else None
            items = ()
            if isinstance(args, CollV) and args.known is not None:
                items = tuple(a.prov if isinstance(a, OpaqueV) else None for a in args.known)
            t = None
            if isinstance(tmpl, CollV) and tmpl.known is not None:
                try:
                    t = bytes(x.k for x in tmpl.known)
                except Exception:
                    t = None
            if isinstance(tmpl, StrV):
                t = tmpl.known
            return OpaqueV('fmt::Arguments', next(_c), prov=('fmt', t, items))

        @reg('std::fmt::format')
        def _(ctx):
            a = ctx.args[0]
            return StrV(None, oid=next(_c), prov=('format',) + (a.prov[1:] if isinstance(a, OpaqueV) and a.prov else ()))

        @reg('std::hint::must_use')
        def _(ctx):
            return ctx.args[0]

        @reg('std::io::_print')
        def _(ctx):
            ctx.oblige('io', 'println! (A-IO: stdout is writable)', True)
            return UNIT

        @reg('std::rt::panic_fmt', 'core::panicking::panic_fmt', 'core::panicking::panic', 'std::rt::begin_panic')
        def _(ctx):
            ctx.oblige('panic', 'explicit panic reachable', False, 'call to %s' % ctx.callee)
            return []

        # ---------- clone / deref of values -------------------------------
        @regx(r'^std::clone::impls::<impl std::clone::Clone for (bool|u32|u8|usize|i32|char|u64)>::clone$|^<std::ops::Range<Idx> as std::clone::Clone>::clone$')
        def _(ctx):
            return deref1(ctx, ctx.args[0])

        @reg('std::array::<impl std::clone::Clone for [T; N]>::clone', '<std::collections::HashMap<K, V, S, A> as std::clone::Clone>::clone',
             '<std::collections::HashSet<T, S, A> as std::clone::Clone>::clone', '<std::vec::Vec<T, A> as std::clone::Clone>::clone',
             'std::slice::<impl [T]>::to_vec')
        def _(ctx):
            path, c = coll_at(ctx, ctx.args[0])
            kind = c.kind
            ty = c.ty
            if ctx.callee.endswith('to_vec'):
                kind, ty = 'vec', ctx.ret_ty
            return CollV(kind, ty, next(_c), 0, c.length, c.known, c.elem, prov=('clone', c.prov, origin_spath(ctx.st, path)))

        @reg('<std::vec::Vec<T> as std::convert::From<&[T]>>::from')
        def _(ctx):
            path, c = coll_at(ctx, ctx.args[0])
            return CollV('vec', ctx.ret_ty, next(_c), 0, c.length, c.known, c.elem, prov=('clone', c.prov, spath(path)))

        @reg('<std::vec::Vec<T, A> as std::ops::Deref>::deref', '<std::vec::Vec<T, A> as std::ops::DerefMut>::deref_mut')
        def _(ctx):
            return ctx.args[0]

        @reg('<std::sync::Arc<T, A> as std::clone::Clone>::clone')
        def _(ctx):
            return deref1(ctx, ctx.args[0])

        @reg('<std::sync::Arc<T, A> as std::ops::Deref>::deref')
        def _(ctx):
            a = ctx.args[0]
            return a

        @reg('std::sync::Arc::<T>::new', 'std::sync::Mutex::<T>::new', 'std::boxed::Box::<T>::new')
        def _(ctx):
            v = ctx.args[0]
            if ctx.callee.startswith('std::boxed::Box'):
                root = ('H', 'box%d' % next(_c))
                ctx.st.store[root] = v
                return RefV((root, ()), True)
            return OpaqueV(ctx.ret_ty, next(_c), prov=('wrap', v))

        @reg('std::boxed::Box::<T>::new_uninit')
        def _(ctx):
            root = ('H', 'box%d' % next(_c))
            ctx.st.store[root] = StructV('MaybeUninit', {})
            return RefV((root, ()), True)

        @reg('std::boxed::box_assume_init_into_vec_unsafe')
        def _(ctx):
            v = deref(ctx, ctx.args[0])

            def find(x, d=0):
                if isinstance(x, CollV):
                    return x
                if isinstance(x, StructV) and d < 6:
                    for y in x.fields.values():
                        r = find(y, d + 1)
                        if r is not None:
                            return r
                return None
            c = find(v)
            if c is None:
                ctx.oblige('unknown-callee', 'vec! contents not found', False)
                return eng.mk_default(ctx.st, ctx.ret_ty)
            return CollV('vec', ctx.ret_ty, next(_c), 0, c.length, c.known, c.elem, prov=('vec!',))

        @reg('std::sync::Mutex::<T>::lock')
        def _(ctx):
            m = deref(ctx, ctx.args[0])
            ty = getattr(m, 'ty', '?')
            which = 'listener'
            arg_ty = ctx.t['args'][0]['place']['ty'] if ctx.t.get('args') and ctx.t['args'][0].get('place') else ''
            if 'ParserState' in arg_ty or 'ParserState' in str(ty):
                which = 'parser_state'
            for h in eng.hooks:
                h('lock', ctx.st, ctx.fr, ctx.bi, which, ctx.args, ctx.t)
            return OpaqueV('LockResult', which, prov='lockresult')

        @reg("<std::sync::MutexGuard<'_, T> as std::ops::Deref>::deref", "<std::sync::MutexGuard<'_, T> as std::ops::DerefMut>::deref_mut")
        def _(ctx):
            g = deref1(ctx, ctx.args[0])
            which = g.prov[1] if isinstance(g, OpaqueV) and isinstance(g.prov, tuple) else 'listener'
            if which == 'parser_state':
                root = ('H', 'PS')
                if root not in ctx.st.store:
                    ctx.st.store[root] = StructV('parser::ParserState', {})
                return RefV((root, ()), True)
            return RefV((('H', 'S'), ()), True)

        @reg('lazy_static::lazy::Lazy::<T>::get')
        def _(ctx):
            # the static's value is computed by interpreting its initialiser once (constant mode)
            m = re.match(r'^<(.*) as std::ops::Deref>::deref::__stability$', ctx.fr.func)
            name = m.group(1) if m else ctx.fr.func
            root = ('H', 'static:' + name)
            if root not in ctx.st.store:
                from .tables import static_value
                v = static_value(eng, name)
                ctx.st.store[root] = v
            return RefV((root, ()))

        # ---------- collections -------------------------------------------
        @regx(r'^std::collections::(HashMap::<K, V>|HashSet::<T>)::(new|with_capacity)$|^std::vec::Vec::<T>::(new|with_capacity)$|^std::collections::BTreeMap::<K, V>::new$')
        def _(ctx):
            rty = ctx.ret_ty
            head, _a = split_generic(rty)
            kind = {'std::vec::Vec': 'vec', 'std::collections::HashSet': 'set', 'std::collections::BTreeSet': 'set'}.get(head, 'map')
            return CollV(kind, rty, next(_c), length=NumV(None, 0, 'usize'), known=(), prov=('new', ctx.fr.func if ctx.fr else None))

        def log(ctx, *ev):
            ctx.st.log(ev + (ctx.t['span'].get('line'), ctx.fr.func if ctx.fr else None))
            if eng.event_hook is not None:
                eng.event_hook(ctx, ev)

        @regx(r'^std::collections::(HashMap::<K, V, S, A>|BTreeMap::<K, V, A>)::insert$')
        def _(ctx):
            r, k, v = ctx.args
            path, c = coll_at(ctx, r, 'map')
            # known to be absent before this insert (`if !m.contains_key(&k) { m.insert(k, blank) }` is a
            # materialisation, like `entry(k).or_insert(blank)`): recorded for the rules
            absent = isinstance(k, V) and ctx.st.vn.get(('fact', ('contains', c.key(), k.key()))) is False
            ctx.st.vn['ins-absent'] = absent
            if absent:
                ctx.st.log(('note', 'absent-before-insert', spath(path), k))
            log(ctx, 'map.insert', spath(path), k, v)
            ctx.st.vn.pop('ins-absent', None)
            known = None
            if c.known is not None and _is_const(k):
                kn = [kv for kv in c.known if not (_is_const(kv[0]) and kv[0].key() == k.key())]
                kn.append((k, v))
                known = tuple(kn)
            # what the map held under k before: Some(old value) / None, decided lazily (most callers drop it)
            rty = ctx.ret_ty
            was = ctx.st.vn.get(('fact', ('contains', c.key(), k.key()))) if isinstance(k, V) else None
            hit = map_lookup(ctx, c, k)
            ety = elem_type(c.ty, 'map')
            nc = bump(ctx, path, c, known=known, length=None)
            # the key is present from now on (until the map changes again)
            carry_contains(ctx, c, nc, k, True)
            if hit is not None:
                return none(rty) if hit == ('absent',) else some(rty, hit)
            if not rty.startswith('std::option::Option'):
                return OpaqueV(rty, next(_c))
            old = eng.mk_default(ctx.st, ety)
            if isinstance(old, CollV):
                old = old.evolve(prov=('removed', spath(path), k))
            elif isinstance(old, StructV):
                old = StructV(old.ty, old.fields, prov=('removed', spath(path), k))
            if was is True:
                return some(rty, old)
            if was is False:
                return none(rty)
            res = EnumV(rty, {0, 1}, {1: StructV('Some', {'0': old})})
            if isinstance(k, V):
                ctx.st.vn[('ondecide', res.eid)] = ('map.insert', spath(path), k, ctx.t['span'].get('line'), ctx.fr.func if ctx.fr else None, c.key())
            return res

        def _is_const(v):
            return (isinstance(v, NumV) and v.sym is None) or (isinstance(v, StrV) and v.known is not None) or \
                (isinstance(v, CharV) and v.known is not None)

        def map_lookup(ctx, c, k):
            """for exact maps: the value for constant key k, ('absent',) or None (unknown)"""
            if c.known is None or not _is_const(k):
                return None
            for (kk, vv) in c.known:
                if _is_const(kk) and kk.key() == k.key():
                    return vv
            if all(_is_const(kk) for kk, _ in c.known):
                return ('absent',)
            return None

        def table_value(ctx, c):
            """some value of an exactly known string-valued constant table (key not constant)"""
            if c.known is None or not c.known:
                return None
            vals = tuple(v.known for _, v in c.known if isinstance(v, StrV) and v.known is not None)
            if len(vals) != len(c.known):
                return None
            name = c.prov[1] if isinstance(c.prov, tuple) and len(c.prov) > 1 else '?'
            return StrV(None, oid=next(_c), prov=('table-value', name, vals))

        @regx(r'^std::collections::HashMap::<K, V, S, A>::(get|get_mut)$')
        def _(ctx):
            r, kr = ctx.args
            path, c = coll_at(ctx, r, 'map')
            k = deref(ctx, kr)
            if isinstance(k, (StrV, CharV)):
                k = sval(ctx, k)
            mut = ctx.callee.endswith('get_mut')
            rty = ctx.ret_ty
            hit = map_lookup(ctx, c, k)
            if hit == ('absent',):
                return none(rty)
            if hit is not None:
                root = ('H', 'tmp%d' % next(_c))
                ctx.st.store[root] = hit
                return some(rty, RefV((root, ())))
            osp = origin_spath(ctx.st, path)
            log(ctx, 'map.get', osp, k, mut)
            tv = table_value(ctx, c)
            if tv is not None and not mut:
                root = ('H', 'tmp%d' % next(_c))
                ctx.st.store[root] = tv
                ref = RefV((root, ()))
            elif path is not None:
                ref = RefV((path[0], path[1] + (('e', k),)), mut)
            else:
                ref = OpaqueV('&elem', next(_c))
            # value-numbered presence: the same (map version, key) is present or absent consistently
            key = ('contains', c.key(), k.key() if isinstance(k, V) else None)
            cur = ctx.st.vn.get(('fact', key))
            if cur is True:
                return some(rty, ref)
            if cur is False:
                return none(rty)
            s2 = ctx.st.fork()
            ctx.st.vn[('fact', key)] = True
            s2.vn[('fact', key)] = False
            ctx.st.log(('branch', 'map.get.some', osp, k, ctx.t['span'].get('line'), ctx.fr.func if ctx.fr else None))
            s2.log(('branch', 'map.get.none', osp, k, ctx.t['span'].get('line'), ctx.fr.func if ctx.fr else None))
            return [(ctx.st, some(rty, ref)), (s2, none(rty))]

        @reg('std::collections::HashMap::<K, V, S, A>::contains_key')
        def _(ctx):
            r, kr = ctx.args
            path, c = coll_at(ctx, r, 'map')
            k = deref(ctx, kr)
            hit = map_lookup(ctx, c, k)
            if hit == ('absent',):
                return BoolV(False)
            if hit is not None:
                return BoolV(True)
            if c.known is not None and all(_is_const(kk) for kk, _ in c.known) and isinstance(k, NumV):
                # exact constant key set, symbolic probe: a finite-domain fact; learning it true
                # restricts the probe to the key set
                keys = sorted(kk.k for kk, _ in c.known if isinstance(kk, NumV))
                lo, hi = eng.bounds(ctx.st, k)
                if all(not (lo <= x <= hi) for x in keys):
                    return BoolV(False)
            return bool_fact(ctx, ('contains', c.key(), k.key() if isinstance(k, V) else None))

        @reg('<std::collections::HashMap<K, V, S, A> as std::ops::Index<&Q>>::index')
        def _(ctx):
            r, kr = ctx.args
            path, c = coll_at(ctx, r, 'map')
            k = deref(ctx, kr)
            hit = map_lookup(ctx, c, k)
            ok = False
            res = None
            if hit is not None and hit != ('absent',):
                ok = True
                root = ('H', 'tmp%d' % next(_c))
                ctx.st.store[root] = hit
                res = RefV((root, ()))
            else:
                f = ctx.st.vn.get(('fact', ('contains', c.key(), k.key() if isinstance(k, V) else None)))
                ok = (f is True)
                if c.known is not None:
                    tv = table_value(ctx, c)
                    root = ('H', 'tmp%d' % next(_c))
                    ctx.st.store[root] = tv if tv is not None else eng.mk_default(ctx.st, elem_type(c.ty, 'map'))
                    res = RefV((root, ()))
                elif path is not None:
                    res = RefV((path[0], path[1] + (('e', k),)))
                else:
                    res = eng.mk_default(ctx.st, ctx.ret_ty)
            ctx.oblige('precondition', 'HashMap index: key present', ok, 'map %r key %r' % (c, k))
            return res

        @reg('std::collections::HashMap::<K, V, S, A>::remove')
        def _(ctx):
            r, kr = ctx.args
            path, c = coll_at(ctx, r, 'map')
            k = deref(ctx, kr)
            log(ctx, 'map.remove', spath(path), k)
            rty = ctx.ret_ty
            ety = elem_type(c.ty, 'map')
            if isinstance(k, (StrV, CharV)):
                k = sval(ctx, k)
            hit = map_lookup(ctx, c, k)
            if hit is not None:
                # exactly known map, constant key: the outcome is decided
                kn = tuple(kv for kv in c.known if not (_is_const(kv[0]) and kv[0].key() == k.key()))
                nc0 = bump(ctx, path, c, known=kn, length=None)
                carry_contains(ctx, c, nc0, k, False)
                return none(rty) if hit == ('absent',) else some(rty, hit)
            key = ('contains', c.key(), k.key() if isinstance(k, V) else None)
            cur = ctx.st.vn.get(('fact', key))
            val = eng.mk_default(ctx.st, ety)
            if isinstance(val, StrV) and val.prov is None and isinstance(k, StrV) and k.known is not None:
                val = StrV(None, oid=val.oid, prov=('map-value-const', k.known))      # the text the map held under this key
            if isinstance(val, CollV):
                val = val.evolve(prov=('removed', spath(path), k))
            elif isinstance(val, StructV):
                val = StructV(val.ty, val.fields, prov=('removed', spath(path), k))
            nc = bump(ctx, path, c, known=None, length=None)
            carry_contains(ctx, c, nc, k, False)
            if cur is True:
                return some(rty, val)
            if cur is False:
                return none(rty)
            s2 = ctx.st.fork()
            ctx.st.log(('branch', 'map.remove.some', spath(path), k, ctx.t['span'].get('line'), ctx.fr.func if ctx.fr else None))
            s2.log(('branch', 'map.remove.none', spath(path), k, ctx.t['span'].get('line'), ctx.fr.func if ctx.fr else None))
            return [(ctx.st, some(rty, val)), (s2, none(rty))]

        @reg('std::collections::HashMap::<K, V, S, A>::entry')
        def _(ctx):
            r, k = ctx.args
            path, c = coll_at(ctx, r, 'map')
            return StructV('Entry', {'map': r, 'key': k})

        def default_value(ctx, st, ty):
            """[(state, value)] of `<ty as Default>::default()`"""
            head, _a = split_generic(ty)
            kind = {'std::vec::Vec': 'vec', 'std::collections::HashSet': 'set', 'std::collections::HashMap': 'map',
                    'std::collections::BTreeMap': 'map', 'std::collections::BTreeSet': 'set'}.get(head)
            if kind is not None:
                return [(st, CollV(kind, ty, next(_c), length=NumV(None, 0, 'usize'), known=(), prov=('new', ctx.fr.func if ctx.fr else None)))]
            if is_str(ty):
                return [(st, StrV(''))]
            if head == 'std::option::Option':
                return [(st, none(ty))]
            if ty == 'bool':
                return [(st, BoolV(False))]
            if ty in INT_RANGES:
                return [(st, NumV(None, 0, ty))]
            impl = '<%s as std::default::Default>::default' % ty
            if impl in eng.prog.bodies:
                return eng.exec_body(st, impl, [], ctx.depth + 1)
            return [(st, eng.mk_default(st, ty))]

        @regx(r"^std::collections::hash_map::Entry::<'a, K, V(, A)?>::(or_insert|or_insert_with|or_default)$")
        def _(ctx):
            e = ctx.args[0]
            r = e.fields['map']
            k = e.fields['key']
            path, c = coll_at(ctx, r, 'map')
            results = []
            if ctx.callee.endswith('or_insert'):
                results = [(ctx.st, ctx.args[1])]
            elif ctx.callee.endswith('or_insert_with'):
                results = eng.call_value(ctx.st, ctx.args[1], [], ctx.depth, ctx.fr, ctx.bi)
            else:
                results = default_value(ctx, ctx.st, elem_type(c.ty, 'map'))
            out = []
            for (s, dv) in results:
                c2 = type(ctx)(ctx.eng, s, ctx.fr, ctx.bi, ctx.t, ctx.fn, ctx.callee, ctx.args, ctx.depth)
                log(c2, 'map.entry_or_insert', spath(path), k, dv)
                p2, cc = coll_at(c2, r, 'map')
                nc2 = bump(c2, p2, cc, known=None, length=None)
                if isinstance(k, V):
                    s.vn[('fact', ('contains', nc2.key(), k.key()))] = True
                if path is not None:
                    out.append((s, RefV((path[0], path[1] + (('e', k),)), True)))
                else:
                    out.append((s, OpaqueV('&mut elem', next(_c))))
            return out

        @regx(r'^std::collections::(HashMap|HashSet)::<.*>::clear$|^std::vec::Vec::<T, A>::clear$')
        def _(ctx):
            path, c = coll_at(ctx, ctx.args[0])
            log(ctx, 'coll.clear', spath(path))
            bump(ctx, path, c, known=(), length=NumV(None, 0, 'usize'), prov=('cleared', c.prov))
            return UNIT

        @regx(r'^<std::collections::(HashMap<K, V>|HashSet<T>|BTreeMap<K, V>) as std::convert::From<\[.*; N\]>>::from$|^<std::vec::Vec<T> as std::convert::From<\[T; N\]>>::from$')
        def _(ctx):
            src = deref1(ctx, ctx.args[0])
            rty = ctx.ret_ty
            head, _a = split_generic(rty)
            kind = {'std::vec::Vec': 'vec', 'std::collections::HashSet': 'set', 'std::collections::BTreeSet': 'set'}.get(head, 'map')
            if isinstance(src, CollV) and src.known is not None:
                kn = build_known(kind, list(src.known))
                if kn is not None:
                    return CollV(kind, rty, next(_c), length=NumV(None, len(kn), 'usize') if kind == 'vec' else None, known=kn, prov=('from-array',))
            return eng.mk_default(ctx.st, rty)

        @regx(r"^<std::string::String as std::iter::Extend<(&'a )?char>>::extend$")
        def _(ctx):
            r = ctx.args[0]
            cur = sval(ctx, r)
            it = to_iter(ctx, ctx.args[1])
            ex = exact_items(ctx, ctx.st, it) if isinstance(it, IterV) else None
            if ex is not None and len(ex) == 1 and ex[0][0] is ctx.st and isinstance(cur, StrV) and cur.known is not None:
                parts = []
                for x in ex[0][1]:
                    x = deref(ctx, x)
                    if isinstance(x, CharV) and x.known is not None:
                        parts.append(x.known)
                    else:
                        parts = None
                        break
                if parts is not None:
                    nv = StrV(cur.known + ''.join(parts), prov=('extend',))
                    if isinstance(r, RefV):
                        eng.write(ctx.st, r.path, nv)
                    return UNIT
            analyse_adaptors(ctx, ctx.st, it)
            if isinstance(cur, StrV) and cur.known == '' and isinstance(it, IterV):
                # an empty string extended with an iterator is that iterator collected
                nv = StrV(None, prov=('collect', it.key(), tuple(o[0] for o in it.ops), it), oid=next(_c))
            else:
                nv = StrV(None, oid=next(_c), prov=('extend', cur.key() if isinstance(cur, V) else None))
            if isinstance(r, RefV):
                eng.write(ctx.st, r.path, nv)
            return UNIT

        @reg('<std::collections::HashMap<K, V, S, A> as std::iter::Extend<(K, V)>>::extend')
        def _(ctx):
            path, c = coll_at(ctx, ctx.args[0])
            src = ctx.args[1]
            log(ctx, 'map.extend', spath(path), src)
            known = None
            sv = deref1(ctx, src)
            if isinstance(sv, CollV) and sv.kind != 'map':
                sv = to_iter(ctx, src)      # an array / vector / slice of (key, value) pairs
            if c.known is not None and isinstance(sv, CollV) and sv.known is not None and all(_is_const(k) for k, _ in sv.known) \
                    and all(_is_const(k) for k, _ in c.known):
                kn = list(c.known)
                for (k, v) in sv.known:
                    kn = [kv for kv in kn if kv[0].key() != k.key()]
                    kn.append((k, v))
                known = tuple(kn)
            elif isinstance(sv, IterV):
                ex = exact_items(ctx, ctx.st, sv)
                if ex is not None and len(ex) == 1 and ex[0][0] is ctx.st and c.known is not None and all(_is_const(k) for k, _ in c.known):
                    add = build_known('map', ex[0][1])
                    if add is not None:
                        kn = list(c.known)
                        for (k, v) in add:
                            kn = [kv for kv in kn if kv[0].key() != k.key()]
                            kn.append((k, v))
                        known = tuple(kn)
                elif ex is None:
                    # element by element, as the loop `for (k, v) in iter { map.insert(k, v) }` would
                    def put(s_, x_):
                        if isinstance(x_, StructV) and '0' in x_.fields and '1' in x_.fields:
                            c2_ = with_state(ctx, s_)
                            p2_, cc_ = coll_at(c2_, ctx.args[0])
                            log(c2_, 'map.insert', spath(p2_), x_.fields['0'], x_.fields['1'])
                    closure_loop(ctx, sv, None, on_elem=put)
                    path, c = coll_at(ctx, ctx.args[0])
            bump(ctx, path, c, known=known, length=None)
            return UNIT

        @regx(r'^std::collections::(HashMap|HashSet)::<.*>::retain$|^std::vec::Vec::<T, A>::retain$')
        def _(ctx):
            path, c = coll_at(ctx, ctx.args[0])
            f = ctx.args[1]
            st = ctx.st
            # the predicate is analysed on an arbitrary element (scratch state); what it keeps is
            # recorded for the pruning rules: the kept elements satisfy the predicate
            desc = None
            if c.kind in ('set', 'vec') and c.known is not None and len(c.known) <= 64:
                # exactly known contents: the predicate decides every element
                states = [(st, [])]
                for e in c.known:
                    nxt = []
                    for (s, acc) in states:
                        for (s3, r) in eng.call_value(s, f, [mkref(s, e)], ctx.depth, ctx.fr, ctx.bi):
                            t = eng.eval_bool(s3, r) if isinstance(r, BoolV) else None
                            if t is True:
                                nxt.append((s3, acc + [e]))
                            elif t is False:
                                nxt.append((s3, acc))
                            elif isinstance(r, BoolV):
                                s4 = s3.fork()
                                if eng.assume_bool(s3, r, True):
                                    nxt.append((s3, acc + [e]))
                                if eng.assume_bool(s4, r, False):
                                    nxt.append((s4, acc))
                    states = nxt
                    if len(states) > 64:
                        break
                else:
                    out = []
                    for (s, acc) in states:
                        c2 = with_state(ctx, s)
                        p2, cc = coll_at(c2, ctx.args[0])
                        log(c2, 'coll.retain', spath(p2), ('exact', tuple(acc)))
                        bump(c2, p2, cc, known=tuple(acc), length=NumV(None, len(acc), 'usize') if cc.kind == 'vec' else None)
                        out.append((s, UNIT))
                    return out
            s2 = st.fork()
            if c.kind == 'map':
                head, args = split_generic(c.ty)
                k = eng.mk_default(s2, args[0] if args else '?', name='retain.key')
                vref = RefV((path[0], path[1] + (('e', k),)), True) if path is not None else eng.mk_default(s2, '?')
                res = eng.call_value(s2, f, [mkref(s2, k), vref], ctx.depth, ctx.fr, ctx.bi)
                desc = retain_bound(res, k)
            else:
                e = eng.mk_default(s2, elem_type(c.ty, c.kind), name='retain.elem')
                res = eng.call_value(s2, f, [mkref(s2, e)], ctx.depth, ctx.fr, ctx.bi)
                desc = retain_bound(res, e)
            log(ctx, 'coll.retain', spath(path), desc)
            nc = bump(ctx, path, c, known=None, length=None)
            if c.kind == 'set' and isinstance(f, ClosureV):
                # x in retained  <=>  x in old and pred(&x)
                st.vn[('filtered', nc.cid)] = (c.key(), freeze_closure(st, f), 1, nc.ver)
            return UNIT

        def negate(r):
            if not isinstance(r, BoolV):
                return r
            if r.val is not None:
                return BoolV(not r.val)
            a = r.atom
            if a and a[0] == 'cmp' and a[1] in ('lt', 'le', 'gt', 'ge'):
                return BoolV(None, ('cmp', {'lt': 'ge', 'le': 'gt', 'gt': 'le', 'ge': 'lt'}[a[1]], a[2], a[3]))
            if a and a[0] == 'not' and isinstance(a[1], BoolV):
                return a[1]
            return BoolV(None, ('not', r))

        def remove_all(st, fr, bi, depth, recv_path, fl):
            """`for k in keys { coll.remove(&k) }` where keys was selected from coll itself by a predicate p
            (`coll.keys().filter(p).copied().collect()`): coll.retain(|k| !p(k)), in one step"""
            from .engine import CallCtx
            ctx = CallCtx(eng, st, fr, bi, fr.body.blocks[bi]['term'], None, 'idiom:remove-all', [], depth)
            c = eng.read(st, recv_path)
            srckey, pred, nref = fl[0], fl[1], fl[2]
            if c.kind == 'map':
                s2 = st.fork()
                head, args = split_generic(c.ty)
                k = eng.mk_default(s2, args[0] if args else '?', name='retain.key')
                probe = mkref(s2, k)
                if nref == 2:
                    probe = mkref(s2, probe)
                res = eng.call_value(s2, pred, [probe], depth, fr, bi)
                desc = retain_bound([(s3, negate(r)) for (s3, r) in res], k)
                log(ctx, 'coll.retain', spath(recv_path), desc)
                bump(ctx, recv_path, c, known=None, length=None)
            else:
                log(ctx, 'coll.retain', spath(recv_path), None)
                nc = bump(ctx, recv_path, c, known=None, length=None)
                st.vn[('filtered', nc.cid)] = (c.key(), pred, nref, nc.ver, True)
        self.h['remove_all'] = remove_all

        def retain_bound(res, k):
            """if the predicate is `key < bound` (for every path), return ('lt', bound)"""
            if not isinstance(k, NumV):
                return None
            bound = None
            for (s3, r) in res:
                if not isinstance(r, BoolV):
                    return None
                a = r.atom
                if r.val is None and a and a[0] == 'cmp' and a[1] == 'lt' and isinstance(a[2], NumV) and a[2].key() == k.key():
                    b = ('lt', a[3])
                elif r.val is None and a and a[0] == 'cmp' and a[1] == 'le' and isinstance(a[2], NumV) and a[2].key() == k.key():
                    b = ('le', a[3])
                else:
                    return None
                if bound is not None and (bound[0] != b[0] or bound[1].key() != b[1].key()):
                    return None
                bound = b
            return bound

        @reg('std::collections::HashSet::<T, S, A>::insert')
        def _(ctx):
            r, v = ctx.args
            path, c = coll_at(ctx, r, 'set')
            log(ctx, 'set.insert', spath(path), v)
            known = None
            if c.known is not None and _is_const(v):
                known = tuple(x for x in c.known if x.key() != v.key()) + (v,)
            nc = bump(ctx, path, c, known=known, length=None)
            carry_contains(ctx, c, nc, v, True)
            return BoolV(None, ('fact', ('setinsert', next(_c))))

        @reg('std::collections::HashSet::<T, S, A>::remove')
        def _(ctx):
            r, v = ctx.args
            path, c = coll_at(ctx, r, 'set')
            vv = deref(ctx, v)
            log(ctx, 'set.remove', spath(path), vv)
            if c.known is not None and _is_const(vv) and all(_is_const(x) for x in c.known):
                had = any(x.key() == vv.key() for x in c.known)
                bump(ctx, path, c, known=tuple(x for x in c.known if x.key() != vv.key()), length=None)
                return BoolV(had)
            nc = bump(ctx, path, c, known=None, length=None)
            carry_contains(ctx, c, nc, vv, False)
            return BoolV(None, ('fact', ('setremove', next(_c))))

        def set_member(ctx, c, v, path=None):
            """is v a member of the set / list c?  exact on known contents; through the predicate of a
            `retain` / `filter..collect` that produced c; otherwise one value-numbered fact per (version, value)"""
            if c.known is not None and _is_const(v) and all(_is_const(x) for x in c.known):
                return BoolV(any(x.key() == v.key() for x in c.known))
            fl = ctx.st.vn.get(('filtered', c.cid))
            if fl is not None and fl[3] != c.ver:
                fl = None      # the collection changed since it was filtered
            if fl is not None and _is_const(v):
                srckey, pred, nref, _ver = fl[:4]
                neg = len(fl) > 4 and fl[4]
                outs = []
                probe = mkref(ctx.st, v)
                if nref == 2:
                    probe = mkref(ctx.st, probe)
                for (s2, r2) in eng.call_value(ctx.st.fork(), pred, [probe], ctx.depth, ctx.fr, ctx.bi):
                    outs.append(eng.eval_bool(s2, r2) if isinstance(r2, BoolV) else None)
                if neg:
                    outs = [None if o is None else (not o) for o in outs]      # kept: the elements the predicate rejects
                if outs and all(o is False for o in outs):
                    return BoolV(False)
                if outs and all(o is True for o in outs):
                    return bool_fact(ctx, ('contains', srckey, v.key()))
            fk = ('contains', c.key(), v.key() if isinstance(v, V) else None)
            if path is not None and isinstance(v, V):
                ctx.st.vn[('contains-site', fk)] = (spath(path), v)
                if ctx.st.vn.get(('fact', fk)) is True:
                    ctx.st.log(('set.member', spath(path), v))
            return bool_fact(ctx, fk)

        @reg('std::collections::HashSet::<T, S, A>::take')
        def _(ctx):
            # like remove, but hands the element back
            r, v = ctx.args
            path, c = coll_at(ctx, r, 'set')
            vv = deref(ctx, v)
            rty = ctx.ret_ty
            log(ctx, 'set.remove', spath(path), vv)
            if c.known is not None and _is_const(vv) and all(_is_const(x) for x in c.known):
                had = any(x.key() == vv.key() for x in c.known)
                bump(ctx, path, c, known=tuple(x for x in c.known if x.key() != vv.key()), length=None)
                return some(rty, vv) if had else none(rty)
            was = ctx.st.vn.get(('fact', ('contains', c.key(), vv.key() if isinstance(vv, V) else None)))
            nc = bump(ctx, path, c, known=None, length=None)
            carry_contains(ctx, c, nc, vv, False)
            if was is True:
                return some(rty, vv)
            if was is False:
                return none(rty)
            return opt_either(rty, vv)

        @regx(r'^(std|core)::iter::once$')
        def _(ctx):
            return IterV('known', ctx.ret_ty, ((ctx.args[0],), 0), iid=next(_c))

        @reg('std::collections::HashSet::<T, S, A>::contains')
        def _(ctx):
            r, vr = ctx.args
            path, c = coll_at(ctx, r, 'set')
            v = deref(ctx, vr)
            log(ctx, 'set.contains', spath(path), v)
            return set_member(ctx, c, v, path)

        @regx(r'^<std::collections::HashSet<T, S, A> as std::iter::Extend<(&\'a )?T>>::extend$')
        def _(ctx):
            path, c = coll_at(ctx, ctx.args[0], 'set')
            src = ctx.args[1]
            if isinstance(src, StructV) and not src.ty.startswith('std::ops::Range') and range_like(src.ty):
                src = to_iter(ctx, src)        # a crate-local range-like iterator: the range it stands for
            desc = src
            if isinstance(src, StructV) and src.ty.startswith('std::ops::Range'):
                desc = ('range', src.fields.get('start'), src.fields.get('end'), 'Inclusive' in src.ty)
            elif isinstance(src, IterV):
                if src.kind == 'range':
                    desc = ('range', src.args[0], src.args[1], src.args[2], tuple(o[0] for o in src.ops), src.ops)
                else:
                    desc = ('iter', src)
            known = None
            it = to_iter(ctx, src)
            ex = exact_items(ctx, ctx.st, it) if isinstance(it, IterV) and it.kind != 'range' else None
            if ex is not None and len(ex) == 1 and ex[0][0] is ctx.st and len(ex[0][1]) <= 8:
                # a handful of exactly known elements (`extend(Some(y))`, `extend(once(y))`, a short
                # constant list): the same as inserting them one by one
                for x in ex[0][1]:
                    log(ctx, 'set.insert', spath(path), deref(ctx, x))
            else:
                log(ctx, 'set.extend', spath(path), desc)
            if c.known is not None and isinstance(it, IterV) and all(_is_const(x) for x in c.known):
                if ex is None:
                    ex = exact_items(ctx, ctx.st, it)
                if ex is not None and len(ex) == 1 and ex[0][0] is ctx.st:
                    items = [deref(ctx, x) for x in ex[0][1]]
                    if all(_is_const(x) for x in items):
                        kn = list(c.known)
                        for x in items:
                            if not any(y.key() == x.key() for y in kn):
                                kn.append(x)
                        known = tuple(kn)
            bump(ctx, path, c, known=known, length=None)
            return UNIT

        @reg('std::vec::Vec::<T, A>::push')
        def _(ctx):
            r, v = ctx.args
            path, c = coll_at(ctx, r, 'vec')
            log(ctx, 'vec.push', spath(path), v)
            if isinstance(c.prov, tuple) and c.prov and c.prov[0] == 'capinv':
                ok = False
                facts = repr(v)
                if isinstance(v, NumV):
                    lo, hi = eng.bounds(ctx.st, v)
                    ok = lo >= 0 and hi <= eng.cfg['arg_max']
                    facts = 'pushed value %r in [%s, %s]' % (v, lo, hi)
                ctx.oblige('capinv', 'value pushed in a loop stays in 0..=%d' % eng.cfg['arg_max'], ok, facts)
            ln = None
            if isinstance(c.length, NumV):
                ln = NumV(c.length.sym, c.length.k + 1, 'usize')
            known = c.known + (v,) if c.known is not None else None
            bump(ctx, path, c, known=known, length=ln)
            return UNIT

        @reg('std::vec::Vec::<T, A>::pop')
        def _(ctx):
            r = ctx.args[0]
            path, c = coll_at(ctx, r, 'vec')
            rty = ctx.ret_ty
            if c.known is not None:
                if len(c.known) == 0:
                    log(ctx, 'vec.pop', spath(path), 'none')
                    return none(rty)
                v = c.known[-1]
                log(ctx, 'vec.pop', spath(path), v)
                bump(ctx, path, c, known=c.known[:-1], length=NumV(None, len(c.known) - 1, 'usize'))
                return some(rty, v)
            e = inst(ctx.st, c.elem) if c.elem is not None else eng.materialise_struct(ctx.st, elem_type(c.ty, 'vec'), name='popped')
            st = ctx.st
            if isinstance(c.length, NumV):
                r0 = eng.prove_cmp(st, 'ge', c.length, NumV(None, 1, 'usize'))
                if r0 is True:
                    log(ctx, 'vec.pop', spath(path), e)
                    bump(ctx, path, c, length=NumV(c.length.sym, c.length.k - 1, 'usize'))
                    return some(rty, e)
                if r0 is False:
                    log(ctx, 'vec.pop', spath(path), 'none')
                    return none(rty)
                s2 = st.fork()
                out = []
                if eng.assume_cmp(st, 'ge', c.length, NumV(None, 1, 'usize')):
                    log(ctx, 'vec.pop', spath(path), e)
                    bump(ctx, path, c, length=NumV(c.length.sym, c.length.k - 1, 'usize'))
                    out.append((st, some(rty, e)))
                if eng.assume_cmp(s2, 'eq', c.length, NumV(None, 0, 'usize')):
                    c3 = with_state(ctx, s2)
                    log(c3, 'vec.pop', spath(path), 'none')
                    out.append((s2, none(rty)))
                return out
            s2 = st.fork()
            log(ctx, 'vec.pop', spath(path), e)
            log(with_state(ctx, s2), 'vec.pop', spath(path), 'none')
            bump(ctx, path, c)
            return [(st, some(rty, e)), (s2, none(rty))]

        @regx(r'^std::vec::Vec::<T, A>::len$|^core::slice::<impl \[T\]>::len$')
        def _(ctx):
            path, c = coll_at(ctx, ctx.args[0])
            if c.known is not None:
                return NumV(None, len(c.known), 'usize')
            if isinstance(c.length, NumV):
                return c.length
            ln = eng.fresh_num(ctx.st, 'usize', 0, 2**40, name='len')
            if path is not None:
                eng.write(ctx.st, path, c.evolve(length=ln), log=False)
            return ln

        @reg('core::slice::<impl [T]>::is_empty', 'std::vec::Vec::<T, A>::is_empty', 'std::collections::HashMap::<K, V, S, A>::is_empty',
             'std::collections::HashSet::<T, S, A>::is_empty', 'std::collections::VecDeque::<T, A>::is_empty')
        def _(ctx):
            path, c = coll_at(ctx, ctx.args[0])
            if c.known is not None:
                return BoolV(len(c.known) == 0)
            ln = c.length
            if not isinstance(ln, NumV):
                ln = eng.fresh_num(ctx.st, 'usize', 0, 2**40, name='len')
                if path is not None:
                    eng.write(ctx.st, path, c.evolve(length=ln), log=False)
            r = eng.prove_cmp(ctx.st, 'eq', ln, NumV(None, 0, 'usize'))
            if r is not None:
                return BoolV(r)
            return BoolV(None, ('cmp', 'eq', ln, NumV(None, 0, 'usize')))

        @reg('<std::vec::Vec<T, A> as std::ops::Index<I>>::index', 'core::slice::index::<impl std::ops::Index<I> for [T]>::index',
             'std::slice::index::<impl std::ops::Index<I> for [T]>::index')
        def _(ctx):
            r, i = ctx.args
            path, c = coll_at(ctx, r, 'vec')
            st = ctx.st
            ity = ctx.t['args'][1].get('ty') or (ctx.t['args'][1].get('place') or {}).get('ty', '') if len(ctx.t.get('args', [])) > 1 else ''
            if 'RangeFull' in ity or (isinstance(i, StructV) and 'RangeFull' in i.ty) or i is UNIT:
                return r if isinstance(r, RefV) else eng.mk_default(st, ctx.ret_ty)
            if isinstance(i, StructV):
                # range index -> subslice
                lo = i.fields.get('start')
                hi = i.fields.get('end')
                ok = False
                facts = 'range %r..%r of %r' % (lo, hi, c)
                ln = c.length if isinstance(c.length, NumV) else (NumV(None, len(c.known), 'usize') if c.known is not None else None)
                newlen = None
                if ln is not None and isinstance(lo, NumV) and hi is None:
                    ok = eng.prove_le(st, lo, ln) is True
                    facts = 'start %r in %s, length %r in %s' % (lo, eng.bounds(st, lo), ln, eng.bounds(st, ln))
                    if ok:
                        newlen = eng.num_sub(st, ln, lo, 'usize')
                elif ln is not None and isinstance(hi, NumV) and lo is None:
                    ok = eng.prove_le(st, hi, ln) is True
                    newlen = hi
                elif ln is not None and isinstance(hi, NumV) and isinstance(lo, NumV):
                    ok = eng.prove_le(st, hi, ln) is True and eng.prove_le(st, lo, hi) is True
                    if ok:
                        newlen = eng.num_sub(st, hi, lo, 'usize')
                ctx.oblige('bounds', 'slice range index within length', ok, facts)
                root = ('H', 'sub%d' % next(_c))
                kn = None
                if ok and c.known is not None and (lo is None or (isinstance(lo, NumV) and lo.sym is None)) and (hi is None or (isinstance(hi, NumV) and hi.sym is None)):
                    # exactly known contents, constant bounds: the sub-slice is exactly known too
                    a_ = lo.k if lo is not None else 0
                    b_ = hi.k if hi is not None else len(c.known)
                    if 'Inclusive' in i.ty and hi is not None:
                        b_ += 1
                    if 0 <= a_ <= b_ <= len(c.known):
                        kn = tuple(c.known[a_:b_])
                        newlen = NumV(None, len(kn), 'usize')
                st.store[root] = CollV('slice', elem_type(c.ty, c.kind), next(_c), length=newlen if newlen is not None else eng.fresh_num(st, 'usize', 0, 2**40),
                                       known=kn, elem=c.elem, prov=('subslice', c.prov))
                return RefV((root, ()))
            ok = False
            facts = ''
            if isinstance(i, NumV):
                if c.known is not None:
                    lo, hi = eng.bounds(st, i)
                    ok = lo >= 0 and hi < len(c.known)
                    facts = 'index %r in [%s,%s], length %d' % (i, lo, hi, len(c.known))
                elif isinstance(c.length, NumV):
                    ok = eng.prove_cmp(st, 'lt', i, c.length) is True
                    facts = 'index %r in %s, length %r in %s' % (i, eng.bounds(st, i), c.length, eng.bounds(st, c.length))
                else:
                    facts = 'length unknown'
            ctx.oblige('bounds', 'Vec index < len', ok, facts)
            log(ctx, 'vec.index', spath(path), i, c.prov)
            if c.known is not None and isinstance(i, NumV) and i.sym is None and 0 <= i.k < len(c.known):
                root = ('H', 'tmp%d' % next(_c))
                st.store[root] = c.known[i.k]
                return RefV((root, ()))
            if c.known is not None and c.elem is None and all(isinstance(x, StrV) for x in c.known):
                root = ('H', 'tmp%d' % next(_c))
                st.store[root] = StrV(None, oid=next(_c), prov=('vec-elem', c.prov, i))
                return RefV((root, ()))
            if path is not None:
                return RefV((path[0], path[1] + (('e', i),)))
            return eng.mk_default(st, ctx.ret_ty)

        @regx(r'^core::slice::<impl \[T\]>::(get|first|last)(::<.*>)?$')
        def _(ctx):
            what = re.search(r'\]>::(get|first|last)', ctx.callee).group(1)
            r = ctx.args[0]
            path, c = coll_at(ctx, r)
            st = ctx.st
            rty = ctx.ret_ty
            if what == 'get':
                i = ctx.args[1]
                if not isinstance(i, NumV):
                    return eng.mk_default(st, rty)
            ln = NumV(None, len(c.known), 'usize') if c.known is not None else c.length
            if not isinstance(ln, NumV):
                ln = eng.fresh_num(st, 'usize', 0, 2**40, name='len')
                if path is not None:
                    eng.write(st, path, c.evolve(length=ln), log=False)
            if what == 'first':
                i = NumV(None, 0, 'usize')
            elif what == 'last':
                i = NumV(ln.sym, ln.k - 1, 'usize')

            def elem(s):
                c2 = type(ctx)(ctx.eng, s, ctx.fr, ctx.bi, ctx.t, ctx.fn, ctx.callee, ctx.args, ctx.depth)
                log(c2, 'vec.index', spath(path), i, c.prov)
                if c.known is not None and i.sym is None and 0 <= i.k < len(c.known):
                    root = ('H', 'tmp%d' % next(_c))
                    s.store[root] = c.known[i.k]
                    return RefV((root, ()))
                if c.known is not None and c.elem is None and all(isinstance(x, StrV) for x in c.known):
                    root = ('H', 'tmp%d' % next(_c))
                    s.store[root] = StrV(None, oid=next(_c), prov=('vec-elem', c.prov, i))
                    return RefV((root, ()))
                if path is not None:
                    return RefV((path[0], path[1] + (('e', i),)))
                return mkref(s, eng.mk_default(s, elem_type(c.ty, c.kind)))
            if what == 'last':
                inb = eng.prove_cmp(st, 'gt', ln, NumV(None, 0, 'usize'))
            else:
                inb = eng.prove_cmp(st, 'lt', i, ln)
            if inb is True:
                return some(rty, elem(st))
            if inb is False:
                return none(rty)
            s2 = st.fork()
            out = []
            if what == 'last':
                ok1 = eng.assume_cmp(st, 'gt', ln, NumV(None, 0, 'usize'))
                ok0 = eng.assume_cmp(s2, 'eq', ln, NumV(None, 0, 'usize'))
            else:
                ok1 = eng.assume_cmp(st, 'lt', i, ln)
                ok0 = eng.assume_cmp(s2, 'ge', i, ln)
            if ok1:
                out.append((st, some(rty, elem(st))))
            if ok0:
                out.append((s2, none(rty)))
            return out

        @regx(r'^std::string::String::drain$|^std::vec::Vec::<T, A>::drain$')
        def _(ctx):
            r, rng = ctx.args[0], ctx.args[1]
            full = isinstance(rng, StructV) and 'RangeFull' in rng.ty or rng is UNIT
            ctx.oblige('bounds', 'drain range within the sequence (and on char boundaries)', bool(full), 'range %r' % (rng,))
            cur = deref1(ctx, r)
            if isinstance(cur, StrV):
                it = IterV('chars', ctx.ret_ty, (cur,), iid=next(_c))
                if isinstance(r, RefV):
                    eng.write(ctx.st, r.path, StrV('', prov=('drained',)))
                return it
            path, c = coll_at(ctx, r)
            root = ('H', 'drained%d' % next(_c))
            ctx.st.store[root] = c
            bump(ctx, path, c, known=(), length=NumV(None, 0, 'usize'))
            return IterV('coll', ctx.ret_ty, ((root, ()), c.key(), 'val'), iid=next(_c))

        @regx(r"^<std::vec::Vec<T, A> as std::iter::Extend<(&'a )?T>>::extend$")
        def _(ctx):
            path, c = coll_at(ctx, ctx.args[0], 'vec')
            src = ctx.args[1]
            it = to_iter(ctx, src)
            byref = "Extend<&'a" in ctx.callee
            ex = exact_items(ctx, ctx.st, it) if isinstance(it, IterV) else None
            if ex is not None and c.known is not None:
                out = []
                for (s, items) in ex:
                    if byref:
                        items = [eng.read(s, x.path) if isinstance(x, RefV) else x for x in items]
                    c2 = type(ctx)(ctx.eng, s, ctx.fr, ctx.bi, ctx.t, ctx.fn, ctx.callee, ctx.args, ctx.depth)
                    p2, cc = coll_at(c2, ctx.args[0], 'vec')
                    log(c2, 'vec.extend', spath(p2), tuple(items))
                    kn = cc.known + tuple(items) if cc.known is not None else None
                    bump(c2, p2, cc, known=kn, length=NumV(None, len(kn), 'usize') if kn is not None else None)
                    out.append((s, UNIT))
                return out
            analyse_adaptors(ctx, ctx.st, it)
            log(ctx, 'vec.extend', spath(path), ('iter', it))
            bump(ctx, path, c, known=None, length=eng.fresh_num(ctx.st, 'usize', 0, 2**40))
            return UNIT

        @reg('std::vec::Vec::<T, A>::extend_from_slice')
        def _(ctx):
            path, c = coll_at(ctx, ctx.args[0], 'vec')
            p2, src = coll_at(ctx, ctx.args[1])
            ln = None
            if isinstance(c.length, NumV) and isinstance(src.length, NumV):
                ln = eng.num_add(ctx.st, c.length, src.length, 'usize')
            bump(ctx, path, c, known=None, length=ln)
            return UNIT

        @reg('core::slice::<impl [T]>::reverse')
        def _(ctx):
            path, c = coll_at(ctx, ctx.args[0])
            bump(ctx, path, c, known=tuple(reversed(c.known)) if c.known is not None else None,
                 prov=('reversed', c.prov))
            return UNIT

        @reg('std::slice::<impl [T]>::sort', 'core::slice::<impl [T]>::sort_unstable')
        def _(ctx):
            path, c = coll_at(ctx, ctx.args[0])
            log(ctx, 'vec.sort', spath(path))
            if c.known is not None:
                vals = [deref(ctx, x) for x in c.known]
                if all(isinstance(v, NumV) and v.sym is None for v in vals):
                    order = sorted(range(len(vals)), key=lambda i: vals[i].k)
                    bump(ctx, path, c, known=tuple(c.known[i] for i in order), prov=('sorted', c.prov))
                    return UNIT
            bump(ctx, path, c, known=None, prov=('sorted', c.prov))
            return UNIT

        # ---------- unicode / decoding / generator -------------------------
        @reg('<char as unicode_width::UnicodeWidthChar>::width')
        def _(ctx):
            ch = deref(ctx, ctx.args[0])
            key = ('width', ch.key() if isinstance(ch, V) else None)
            st = ctx.st
            for h in eng.hooks:
                h('width', st, ctx.fr, ctx.bi, ch)
            w = eng.num_opaque(st, 'usize', 0, 2, key, 'width(%r)' % (ch,))
            prev = st.vn.get(('widthenum',) + key[1:])
            if isinstance(prev, EnumV) and key[1] is not None:
                return prev          # the same character has the same width (Some / None and the number) every time it is asked
            r = EnumV(ctx.ret_ty, {0, 1}, {1: StructV('Some', {'0': w})})
            st.vn[('widthopt',) + key[1:]] = r.eid
            st.vn[('widthenum',) + key[1:]] = r
            return r

        @regx(r'^<str as unicode_width::UnicodeWidthStr>::width(_cjk)?$')
        def _(ctx):
            sv = sval(ctx, ctx.args[0])
            for h in eng.hooks:
                h('strwidth', ctx.st, ctx.fr, ctx.bi, sv)
            return eng.num_opaque(ctx.st, 'usize', 0, 2**40, ('strwidth', sv.key() if isinstance(sv, V) else None), 'width(%r)' % (sv,))

        @reg('unicode_normalization::char::is_combining_mark')
        def _(ctx):
            ch = ctx.args[0]
            return bool_fact(ctx, ('combining', ch.key() if isinstance(ch, V) else None))

        @regx(r'unicode_normalization::UnicodeNormalization<.*>>::nfc$')
        def _(ctx):
            s = sval(ctx, ctx.args[0])
            return IterV('chars', ctx.ret_ty, (StrV(None, oid=next(_c), prov=('nfc', s.key() if isinstance(s, V) else None)),), iid=next(_c))

        @reg('encoding_rs::Encoding::decode_with_bom_removal')
        def _(ctx):
            for h in eng.hooks:
                h('decode', ctx.st, ctx.fr, ctx.bi, ctx.callee, ctx.args, ctx.t)
            cow = StrV(None, oid=next(_c), prov=('decoded',))
            return StructV(ctx.ret_ty, {'0': cow, '1': BoolV(None, ('fact', ('haderr', next(_c))))})

        @regx(r'^encoding_rs::Encoding::new_decoder(_with_bom_removal|_without_bom_handling|_with_bom_handling)?$')
        def _(ctx):
            for h in eng.hooks:
                h('decoder-new', ctx.st, ctx.fr, ctx.bi, ctx.callee, ctx.args, ctx.t)
            return OpaqueV('encoding_rs::Decoder', next(_c), prov=('decoder', ctx.callee.split('::')[-1]))

        @regx(r'^encoding_rs::Decoder::max_utf8_buffer_length(_without_replacement)?$')
        def _(ctx):
            n = ctx.args[1]
            st = ctx.st
            hi = None
            if isinstance(n, NumV):
                lo, h = eng.bounds(st, n)
                if h != INF:
                    hi = 3 * h + 16
            v = eng.fresh_num(st, 'usize', 0, hi, name='max_utf8_len')
            # which bound this is: with room for U+FFFD replacements or not, and for how many input bytes
            st.vn[('def', v.sym)] = ('max_utf8_len', 'without_replacement' if ctx.callee.endswith('_without_replacement') else 'with_replacement', n)
            r_ = EnumV(ctx.ret_ty, {0, 1}, {1: StructV('Some', {'0': v})})
            st.vn[('max_utf8_opt', r_.eid)] = n
            return r_

        @regx(r'^encoding_rs::Decoder::decode_to_(string|str|utf8)(_without_replacement)?$')
        def _(ctx):
            for h in eng.hooks:
                h('decode', ctx.st, ctx.fr, ctx.bi, ctx.callee, ctx.args, ctx.t)
            dst = ctx.args[2] if len(ctx.args) > 2 else None
            if isinstance(dst, RefV):
                eng.write(ctx.st, dst.path, StrV(None, oid=next(_c), prov=('decoded',)))
            n = ctx.args[1]
            ln = None
            if isinstance(n, RefV):
                c = eng.read(ctx.st, n.path)
                if isinstance(c, CollV) and isinstance(c.length, NumV):
                    ln = c.length
            rd = eng.fresh_num(ctx.st, 'usize', 0, None, name='read')
            if ln is not None:
                eng.assume_le(ctx.st, rd, ln)
            return StructV(ctx.ret_ty, {'0': OpaqueV('encoding_rs::CoderResult', next(_c)), '1': rd,
                                        '2': BoolV(None, ('fact', ('haderr', next(_c))))})

        @reg('std::string::String::with_capacity')
        def _(ctx):
            n = ctx.args[0]
            ok = isinstance(n, NumV) and eng.bounds(ctx.st, n)[1] <= 2**63 - 1
            ctx.oblige('precondition', 'String::with_capacity(cap <= isize::MAX)', ok, repr(n))
            return StrV('', prov=('with_capacity', n))

        @regx(r'^encoding_rs::')
        def _(ctx):
            for h in eng.hooks:
                h('decode', ctx.st, ctx.fr, ctx.bi, ctx.callee, ctx.args, ctx.t)
            ctx.oblige('unknown-callee', ctx.callee, False, 'encoding_rs function without a summary')
            return eng.mk_default(ctx.st, ctx.ret_ty)

        @reg('generator::Gn::<A>::new_scoped')
        def _(ctx):
            return OpaqueV(ctx.ret_ty, next(_c), prov=('generator', ctx.args[0]))

        @reg("generator::gen_impl::GeneratorObj::<'a, A, T, LOCAL>::send")
        def _(ctx):
            for h in eng.hooks:
                h('send', ctx.st, ctx.fr, ctx.bi, ctx.callee, ctx.args, ctx.t)
            # A-GEN: send resumes the coroutine; its own panic sites are the coroutine's (analysed
            # separately); result: the value passed to the next yield_
            return eng.mk_default(ctx.st, ctx.ret_ty)

        @reg("generator::Scope::<'a, A, T>::yield_")
        def _(ctx):
            for h in eng.hooks:
                r = h('yield', ctx.st, ctx.fr, ctx.bi, ctx.callee, ctx.args, ctx.t)
                if r is not None:
                    return r
            s = StrV(None, oid=next(_c), prov=('sent',))
            ctx.st.vn[('nonempty', s.oid)] = True
            return some(ctx.ret_ty, s)
