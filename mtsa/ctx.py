"""Shared analysis context: facts, program model, effects, E4 runs (computed lazily, once per process)."""
import fcntl
import os
import time

from . import facts, inv, runner
from .effects import Effects
from .engine import Budget, Engine, State
from .model import Program, short
from .values import CollV, NumV, RefV, StrV, some

CLOSURE = "parser::Parser::<'a, T>::new::{closure#0}"
PARSER_FNS = ["parser::Parser::<'a, T>::new", "parser::Parser::<'a, T>::feed",
              "parser::Parser::<'a, T>::is_special_start", "parser::Parser::<'a, T>::set_use_utf8"]
BYTE_FNS = ["byte_parser::ByteParser::<'a, T>::new", "byte_parser::ByteParser::<'a, T>::feed",
            "byte_parser::ByteParser::<'a, T>::select_other_charset"]


def yield_wrappers(prog):
    """crate-local helpers (closures of the coroutine, private functions) that call `yield_` themselves: a call of one of
    them from the coroutine body is a suspension point of the coroutine (`let mut next = |v| co.yield_(v).unwrap_or_default()`)"""
    cache = prog.__dict__.setdefault('_yield_wrappers', None)
    if cache is not None:
        return cache
    out = set()
    for f, b in prog.bodies.items():
        if f == CLOSURE:
            continue
        for bi, t in prog.calls(b):
            fn = t['func'].get('fn')
            if fn and (fn.get('resolved') or fn['path']).endswith('::yield_'):
                out.add(f)
                break
    prog.__dict__['_yield_wrappers'] = out
    return out


def yield_site_of(fr, bi):
    """the suspension point of the coroutine a `yield_` executed in frame fr at block bi belongs to: (coroutine frame, block)
    - the call itself, or the call of the helper it is made in; None when it is not made on behalf of the coroutine"""
    if fr.func == CLOSURE:
        return fr, bi
    c = getattr(fr, 'caller', None)
    if c is not None and c[0] is not None and c[0].func == CLOSURE:
        return c[0], c[1]
    return None


def coroutine_scope(prog):
    """the parser coroutine and the private helpers of the parser module it calls (transitively):
    what they do counts as done by the state machine"""
    out = {CLOSURE}
    work = [CLOSURE]
    while work:
        f = work.pop()
        b = prog.bodies.get(f)
        if b is None:
            continue
        for c in prog.closures_of.get(f, []):
            if c not in out:
                out.add(c)
                work.append(c)
        for bi, t in prog.calls(b):
            kind, callee = prog.resolve_callee(t['func'].get('fn'), bind_listener=False)
            if kind == 'local' and callee not in out and 'ParserListener' not in callee and not callee.startswith('<screen::') \
                    and not callee.startswith('screen::'):
                out.add(callee)
                work.append(callee)
    return out


class Ctx:
    def __init__(self, tier='quick'):
        self.tier = tier
        os.makedirs(facts.CACHE, exist_ok=True)
        with open(os.path.join(facts.CACHE, 'lock'), 'w') as lk:
            fcntl.flock(lk, fcntl.LOCK_EX)
            self.facts_path, self.tree_hash, self.reused = facts.extract('ship')
            self.test_path = None
            if tier == 'thorough':
                self.test_path = facts.extract('test')[0]
        self.prog = Program(self.facts_path)
        self._eff = None
        self._screen_run = None
        self._parser_run = None
        self._test_prog = None

    @property
    def eff(self):
        if self._eff is None:
            self._eff = Effects(self.prog)
        return self._eff

    @property
    def test_prog(self):
        if self._test_prog is None and self.test_path:
            self._test_prog = Program(self.test_path)
        return self._test_prog

    def new_engine(self, **cfg):
        c = dict(max_steps=6_000_000)
        c.update(cfg)
        return Engine(self.prog, self.eff, config=c)

    # ------------------------------------------------------------------
    def screen_run(self):
        """E4 over every Screen entry point x partition. returns dict(engine, results{func: [EntryResult]})"""
        if self._screen_run is not None:
            return self._screen_run
        eng = self.new_engine()
        eng.contract = lambda callee, caller: caller.startswith('parser_listener::ParserListener::') and callee.startswith(runner.LP)
        eps = runner.listener_entry_points(self.prog) + [f for f in runner.SCREEN_FNS if f in self.prog.bodies]
        results = {}
        events = []

        def event_hook(c, ev):
            # snapshot of the state at every collection operation (rules query it lazily)
            if c.fr is None:
                return
            a0 = c.t['args'][0] if c.t.get('args') else None
            rty = a0['place']['ty'] if a0 and a0.get('k') in ('copy', 'move') else ''
            events.append(dict(ev=ev, st=c.st.fork(), func=c.fr.func, bb=c.bi, stack=c.st.stack, entry=eng.entry_name,
                               span=c.t['span'], ep=cur[0], recv_ty=rty))
        cur = [None]
        eng.event_hook = event_hook
        segments = []     # loop-body path segments that ended at a back edge: (ep, func, head, state, entry label)

        callsnaps = []
        widths = []       # every character whose display width is measured: (ep, func, char value)

        def hook(kind, st_, fr, bi, *a):
            if kind == 'backedge':
                segments.append(dict(ep=cur[0], func=fr.func, head=bi, st=st_, entry=eng.entry_name))
            elif kind == 'width':
                widths.append(dict(ep=cur[0], func=fr.func if fr is not None else None, ch=a[0], st=st_.fork()))
            elif kind == 'call' and fr.func == 'screen::Screen::resize':
                callee, args, t = a
                callsnaps.append(dict(caller=fr.func, callee=callee, st=st_.fork(), args=list(args), entry=eng.entry_name))
            return None
        eng.hooks = [hook]
        t0 = time.time()
        for ep in eps:
            cur[0] = ep
            results[ep] = runner.run_entry(eng, ep)
        eng.event_hook = None
        eng.hooks = []
        self._screen_run = dict(engine=eng, results=results, wall=time.time() - t0, entry_points=eps, events=events,
                                segments=segments, callsnaps=callsnaps, widths=widths)
        return self._screen_run

    def yield_sites(self, prog=None):
        prog = prog or self.prog
        body = prog.bodies.get(CLOSURE)
        if body is None:
            return []
        ys = []
        wr = yield_wrappers(prog)
        for bi, t in prog.calls(body):
            fn = t['func'].get('fn')
            if fn and (fn.get('resolved') or fn['path']).endswith('::yield_'):
                ys.append(bi)
            elif fn and wr:
                kind, callee = prog.resolve_callee(fn, bind_listener=False)
                if kind == 'local' and callee in wr:
                    ys.append(bi)      # a call of a helper that suspends on behalf of the coroutine
        ys.sort(key=lambda b: (body.blocks[b]['term']['span']['line'], body.blocks[b]['term']['span']['col']))
        return ys

    def parser_run(self):
        """E4 over Parser / ByteParser functions and over the coroutine from its entry and from every
        resume point (locals unknown of their type; listener calls by contract)."""
        if self._parser_run is not None:
            return self._parser_run
        prog = self.prog
        eng = self.new_engine()
        eng.contract = lambda callee, caller: callee.startswith(runner.LP) or callee.startswith('parser_listener::ParserListener::')
        results = {}
        errors = {}
        sends = []
        psegments = []     # loop-body path segments (back-edge states) of the parser-side run
        pushes = []

        def call_ord(func, bi, suffix):
            body = prog.bodies[func]
            blks = [b for b, t in prog.calls(body)
                    if ((t['func'].get('fn') or {}).get('resolved') or (t['func'].get('fn') or {}).get('path', '')).endswith(suffix)]
            blks.sort(key=lambda b: (body.blocks[b]['term']['span']['line'], body.blocks[b]['term']['span']['col'], b))
            return blks.index(bi) if bi in blks else -1

        def base_hook(kind, st_, fr, bi, *a):
            if kind == 'send':
                callee, args, t = a
                v = args[1] if len(args) > 1 else None
                while isinstance(v, RefV):
                    v = eng.read(st_, v.path)
                known = v.known if isinstance(v, StrV) else None
                ne = bool(known) or (isinstance(v, StrV) and v.oid is not None and bool(st_.vn.get(('nonempty', v.oid))))
                sends.append(dict(func=fr.func, ord=call_ord(fr.func, bi, '::send'), arg=repr(v), known=known, nonempty=ne, span=t['span']))
            elif kind == 'decode':
                callee, args, t = a
                dst = None
                if len(args) > 2 and isinstance(args[2], RefV):
                    try:
                        dst = eng.read(st_, args[2].path)
                    except Exception:
                        dst = None
                st_.log(('decode', callee, tuple(args), fr.func, t['span'].get('line'), dst))
            elif kind == 'decoder-new':
                callee, args, t = a
                st_.log(('decoder-new', callee, fr.func, t['span'].get('line')))
            elif kind == 'call':
                callee, args, t = a
                st_.log(('localcall', callee, tuple(args), fr.func, t['span'].get('line')))
            elif kind == 'backedge':
                psegments.append(dict(func=fr.func, head=bi, st=st_))
            return None

        cscope = coroutine_scope(prog)

        def event_hook(c, ev):
            if ev[0] == 'vec.push' and c.fr is not None and c.fr.func in cscope:
                v = ev[2]
                cty = c.t['args'][0]['place']['ty'] if c.t['args'][0]['k'] in ('copy', 'move') else ''
                if 'Vec<u32>' not in cty:
                    return
                st_ = c.st
                ok = False
                detail = repr(v)
                if isinstance(v, NumV):
                    lo, hi = eng.bounds(st_, v)
                    ok = lo >= 0 and hi <= eng.cfg['arg_max']
                    detail = 'pushed value %r in [%s, %s]' % (v, lo, hi)
                # R-CAP (b): on the Err branch of the digit-run parse the value must be 0 for an empty
                # run and the cap for an overflowing one
                for k in list(st_.vn):
                    if isinstance(k, tuple) and k and k[0] == 'parse-of' and st_.vn.get(('tagof', k[1])) == 1:
                        sv, oty = st_.vn[k]
                        emp = st_.vn.get(('fact', ('strempty', sv.oid)))
                        if sv.known is not None:
                            emp = (sv.known == '')
                        if isinstance(v, NumV):
                            lo, hi = eng.bounds(st_, v)
                            if emp is True:
                                good = (lo == hi == 0)
                            elif emp is False:
                                good = (lo == hi == eng.cfg['arg_max'])
                            else:
                                good = False
                            if not good:
                                ok = False
                                detail += '; digit run failed to parse as %s (empty or overflow, emptiness %s) and yields [%s, %s]: an overflowing run must saturate at %d, an empty one gives 0' % (
                                    oty, {True: 'known empty', False: 'known non-empty', None: 'not tested'}[emp], lo, hi, eng.cfg['arg_max'])
                # R-CAP (c): when the digit run parses, the value pushed is the parsed number capped at
                # 9999 - the number itself, not a narrowed or otherwise reduced copy of it (a run like
                # 4294967299 must saturate, not wrap to 3)
                oks = [k[1] for k in st_.vn if isinstance(k, tuple) and k and k[0] == 'parse-pay' and st_.vn.get(('tagof', k[1])) == 0]
                if oks and isinstance(v, NumV):
                    pay = st_.vn[('parse-pay', max(oks))]
                    if isinstance(pay, NumV):
                        from . import plt as _plt
                        cap = NumV(None, eng.cfg['arg_max'], pay.ty)
                        okc, wc = _plt.prove_rel(eng, st_, 'eq', v, lambda s_, pay=pay, cap=cap: eng.num_min(s_, pay, cap, pay.ty))
                        if not okc:
                            ok = False
                            detail += '; the pushed value is not shown to be min(parsed number, %d) (%s)' % (eng.cfg['arg_max'], wc)
                pushes.append(dict(func=c.fr.func, ord=call_ord(c.fr.func, c.bi, '::push'), in_range=ok, detail=detail, span=c.t['span']))
        eng.hooks = [base_hook]
        eng.event_hook = event_hook
        for f in PARSER_FNS + BYTE_FNS:
            if f not in prog.bodies:
                continue
            st = State()
            inv.screen_init(eng, st)
            body = prog.bodies[f]
            args = [eng.mk_default(st, body.locals[i]['ty'], name=body.local_name(i)) for i in range(1, body.arg_count + 1)]
            eng.entry_name = f
            try:
                results[f] = eng.exec_body(st, f, args)
            except Budget as e:
                errors[f] = str(e)
        body = prog.bodies.get(CLOSURE)
        ys = self.yield_sites()
        arrivals = {}
        if body is not None:
            # the coroutine body from its entry: loops are cut at their heads, a yield_ returns an
            # arbitrary non-empty string (A-GEN + R-SEND); the state in which each yield site is
            # reached is kept for the transition extraction of E5
            st = State()
            inv.screen_init(eng, st)

            def hook(kind, st_, fr, bi, *a):
                ys_ = yield_site_of(fr, bi) if kind == 'yield' else None
                if ys_ is not None:
                    lst = arrivals.setdefault(ys_[1], [])
                    if len(lst) < 12:
                        lst.append((st_.fork(), ys_[0]))
                return None
            eng.hooks = [base_hook, hook]
            eng.entry_name = 'coroutine body'
            try:
                args = [eng.mk_default(st, body.locals[i]['ty']) for i in range(1, body.arg_count + 1)]
                eng.exec_body(st, CLOSURE, args)
            except Budget as e:
                errors['coroutine'] = str(e)
            eng.hooks = []
        eng.event_hook = None
        self._parser_run = dict(engine=eng, results=results, errors=errors, arrivals=arrivals, yield_sites=ys,
                                sends=sends, pushes=pushes, segments=psegments)
        return self._parser_run

