"""Run the E0 extractor on /repo's current working tree (fail closed)."""
import hashlib
import json
import os
import shutil
import subprocess
import sys
import time

VERIF = os.path.dirname(os.path.dirname(os.path.abspath(__file__)))
REPO = os.environ.get('MTSA_REPO', '/repo')
CACHE = os.path.join(VERIF, '.cache')
DRIVER = os.path.join(VERIF, 'driver', 'target', 'release', 'mtfacts')


def tree_hash():
    h = hashlib.sha256()
    files = []
    for root, dirs, fs in os.walk(os.path.join(REPO, 'src')):
        for f in fs:
            files.append(os.path.join(root, f))
    files += [os.path.join(REPO, 'Cargo.toml'), os.path.join(REPO, 'Cargo.lock')]
    for f in sorted(files):
        h.update(f.encode())
        try:
            h.update(open(f, 'rb').read())
        except OSError:
            h.update(b'<missing>')
    try:
        h.update(open(DRIVER, 'rb').read()[:4096])
        h.update(str(os.path.getmtime(DRIVER)).encode())
    except OSError:
        pass
    return h.hexdigest()[:24]


def sysroot():
    return subprocess.check_output(['rustc', '+nightly', '--print', 'sysroot'], text=True).strip()


def extract(config='ship'):
    """returns path of the fact file for the current tree; raises SystemExit(2) on failure"""
    if not os.path.exists(DRIVER):
        # MANIFEST.setup_cmd was not run (fresh restore): build the extractor now (offline, ~20 s)
        sys.stderr.write('mtsa: building the fact extractor (MANIFEST.setup_cmd)\n')
        r = subprocess.run(['cargo', 'build', '--release', '--offline'], cwd=os.path.join(VERIF, 'driver'),
                           env=dict(os.environ, CARGO_NET_OFFLINE='true'), stdout=subprocess.PIPE, stderr=subprocess.STDOUT, text=True)
        if r.returncode != 0 or not os.path.exists(DRIVER):
            sys.stderr.write('mtsa: driver could not be built:\n%s\n' % r.stdout[-2000:])
            raise SystemExit(2)
    th = tree_hash()
    outdir = os.path.join(CACHE, 'facts', th)
    fpath = os.path.join(outdir, 'facts-%s.json' % config)
    if os.path.exists(fpath):
        return fpath, th, True
    # one extraction at a time (the cargo target directory and its fingerprints are shared)
    import fcntl
    os.makedirs(CACHE, exist_ok=True)
    with open(os.path.join(CACHE, 'extract.lock'), 'w') as lk:
        fcntl.flock(lk, fcntl.LOCK_EX)
        if os.path.exists(fpath):
            return fpath, th, True
        return _extract_locked(config, th, outdir, fpath)


def _extract_locked(config, th, outdir, fpath):
    os.makedirs(outdir, exist_ok=True)
    target = os.path.join(CACHE, 'target-' + config)
    # cargo's freshness cache would skip the wrapper: force memterm to be re-checked
    fp = os.path.join(target, 'debug', '.fingerprint')
    if os.path.isdir(fp):
        for d in os.listdir(fp):
            if d.startswith('memterm-'):
                shutil.rmtree(os.path.join(fp, d), ignore_errors=True)
    env = dict(os.environ)
    env.update({
        'LD_LIBRARY_PATH': os.path.join(sysroot(), 'lib'),
        'MTFACTS_OUT': outdir,
        'RUSTFLAGS': '-Zmir-opt-level=0 -Coverflow-checks=on -Cdebug-assertions=on -Awarnings',
        'RUSTC_WORKSPACE_WRAPPER': DRIVER,
        'CARGO_TARGET_DIR': target,
        'CARGO_NET_OFFLINE': 'true',
    })
    cmd = ['cargo', '+nightly', 'check', '--offline', '--lib']
    if config == 'test':
        cmd += ['--profile', 'test']
    t0 = time.time()
    p = subprocess.run(cmd, cwd=REPO, env=env, stdout=subprocess.PIPE, stderr=subprocess.STDOUT, text=True)
    if p.returncode != 0 or not os.path.exists(fpath):
        sys.stderr.write('mtsa: fact extraction failed (config %s, exit %d)\n' % (config, p.returncode))
        sys.stderr.write(p.stdout[-4000:])
        shutil.rmtree(outdir, ignore_errors=True)
        raise SystemExit(2)
    # keep only a few fact generations
    base = os.path.join(CACHE, 'facts')
    gens = sorted((os.path.getmtime(os.path.join(base, d)), d) for d in os.listdir(base)
                  if os.path.isdir(os.path.join(base, d)))
    for _, d in gens[:-int(os.environ.get("MTSA_KEEP_FACTS", "8")):]:
        shutil.rmtree(os.path.join(base, d), ignore_errors=True)
    return fpath, th, False
