"""Screen-side properties C04-C08, C10, C12-C18: compositions of the generic rules of rules_grid
with property-specific clauses."""
from . import inv, plt, runner, structural
from . import rules_grid as g
from .engine import Budget, Engine, State
from .model import short
from .rules_c09 import site_ord
from .rules_common import (DECAWM, DECCOLM, DECOM, DECSCNM, DECTCEM, IRM, LNM, LP, each_final, ep, get,
                           margins_tb, mode_fact, norm_count, opt_payload)
from .values import BoolV, CharV, CollV, EnumV, NumV, OpaqueV, RefV, StrV, StructV

GRID_FUNCS = ['draw', 'insert_characters', 'delete_characters', 'erase_characters', 'erase_in_line', 'erase_in_display',
              'insert_lines', 'delete_lines', 'index', 'reverse_index', 'linefeed', 'alignment_display', 'reset',
              'set_mode', 'reset_mode', 'display']


def F(names):
    out = {ep(n) for n in names}
    out.add('screen::Screen::resize')
    return out


def closures_of(ctx, funcs):
    """the implementation scope of the given methods: the methods themselves, their closures, and
    (transitively) the crate-local helpers they call that are not themselves entry points of the
    analysis (listener methods / public Screen methods have their own rules) - so that moving code
    into a private helper does not move it out of a rule's sight"""
    prog = ctx.prog
    entry = set(runner.SCREEN_FNS) | set(runner.listener_entry_points(prog))
    out = set(funcs)
    work = list(funcs)
    while work:
        f = work.pop()
        b = prog.bodies.get(f)
        if b is None:
            continue
        for c in prog.closures_of.get(f, []):
            if c not in out:
                out.add(c)
                work.append(c)
        for bi, t in prog.calls(b):
            kind, callee = prog.resolve_callee(t['func'].get('fn'))
            if kind != 'local' or callee in out or callee in entry:
                continue
            if callee.startswith('<') and (' as std::' in callee or ' as core::' in callee):
                continue      # derived / std trait impls on crate types (Clone, PartialEq, Default ...)
            # any other crate-local function is a helper of the method that calls it, whichever module it
            # lives in (`screen_util::fill_cells`, a private trait implemented for a std type such as
            # `impl RowMap for HashMap<u32, CharOpts>`); the parser side is never called from the screen
            owner = callee[1:].split(' as ')[0].lstrip('&').replace('mut ', '') if callee.startswith('<') else callee
            if not owner.startswith(('parser::', 'byte_parser::', 'parser_listener::')):
                out.add(callee)
                work.append(callee)
    return out


# ===========================================================================
def run_c10(ctx, chk):
    """display() is a faithful and side-effect-free rendering"""
    chk.assume('A-LIB', 'A-PUB', 'A-TOOL')
    # D1 purity
    g.frame(ctx, chk, 'display', [], rule='R-FRAME')
    # D2 representation independence of the sparse grid in every mutator
    funcs = closures_of(ctx, F(GRID_FUNCS))
    na, nb = g.r_absent(ctx, chk, funcs)
    chk.cover('materialisation sites', na.eps, ['draw'])
    chk.cover('branched lookups on the grid', nb.eps, ['insert_characters', 'delete_characters', 'insert_lines', 'delete_lines'])
    # D3 rendering structure: rows ascending over 0..lines, columns ascending over 0..columns
    from .rules_c09 import loop_range
    prog = ctx.prog
    disp = ep('display')
    body = prog.bodies.get(disp)
    sr = ctx.screen_run()
    ranges = []
    disp_scope = sorted(closures_of(ctx, {disp}))      # display, its closures and private helpers (e.g. a row renderer)
    for f in disp_scope:
        b = prog.bodies[f]
        for h in b.loops()[0]:
            ht = b.blocks[h]['term']
            sem = semantic_loop_range(sr, disp, f, h)
            if ht['k'] == 'call' and ((ht['func'].get('fn') or {}).get('path', '')).endswith('::next'):
                rng = loop_range(ctx, sr['engine'], f, h)
                ity = ht['args'][0]['place']['ty']
                if sem is not None:
                    rng = sem
                    rl_ = getattr(sr['engine'], 'rangelike', {})
                    if any(v_ and k_ in ity for k_, v_ in rl_.items()):
                        ity = 'std::ops::Range<u32> (as %s, whose next() is a range\'s)' % ity
                ranges.append((f, rng, ity))
            elif sem is not None:
                # a counting `while` the engine recognised as walking this range upwards
                ranges.append((f, sem, 'while counting through std::ops::Range<u32>'))
            elif structural.guard_switch(b, h, b.loops()[0][h]) is not None:
                ranges.append((f, None, 'while loop (not recognised as a walk over a range)'))
    # the same iteration written with iterator adaptors: `(0..lines).map(render).collect()`
    coll_rows = []
    for r_ in sr['results'].get(disp, []):
        for (st, ret) in r_.finals:
            for ev in st.event_list():
                if ev[0] == 'iter.collect' and ev[-1] in disp_scope:
                    _k, lo, hi, incl = ev[1]
                    lines = get(sr['engine'], st, 'lines')
                    zero = isinstance(lo, NumV) and lo.sym is None and lo.k == 0
                    full = isinstance(hi, NumV) and isinstance(lines, NumV) and not incl and sr['engine'].prove_cmp(st, 'eq', hi, lines) is True
                    if zero and full:
                        coll_rows.append((ev[-1], ev[2], ev[3]))
    for (f_, ops_, clos_) in sorted(set(coll_rows)):
        ranges.append((f_, ('0', 'lines'), 'collect over std::ops::Range<u32> %s' % (list(ops_),) if 'rev' not in ops_ else 'Rev collect'))
    rset = {r[1] for r in ranges}
    ok = ('0', 'lines') in rset and any(r and r[0] == '0' and r[1].endswith('columns') for r in rset) and \
        all('Range<u32>' in r[2] and 'Rev' not in r[2] for r in ranges)
    chk.instance('R-RENDER', short(disp), 'rows 0..lines and columns 0..columns in ascending order', ok, detail='loops: %s' % ranges, span=body.span,
                 what='display() does not iterate rows 0..lines / columns 0..columns in order: %s' % ranges)
    # D3b: no state is carried from the rendering of one row to the next (only the result vector and
    # the row iterator are loop-carried in the row loop)
    carried = loop_carried(prog, disp, ('0', 'lines'), ctx, sr)
    if carried is None and coll_rows:
        # adaptor form: what survives from one row to the next is what the row closure captures mutably
        carried = []
        for (f_, ops_, clos_) in sorted(set(coll_rows)):
            for c in clos_:
                carried += closure_carried(prog, c)
    rl_ = {k_ for k_, v_ in getattr(sr['engine'], 'rangelike', {}).items() if v_}
    bad = [c for c in carried if not (c[1] == 'std::vec::Vec<std::string::String>' or 'Range<u32>' in c[1] or c[1] in rl_)]
    chk.instance('R-RENDER', short(disp), 'each row is rendered independently of the others', carried is not None and not bad,
                 detail='loop-carried mutable locals of the row loop: %s' % (carried,), span=body.span,
                 what='state other than the result vector survives from one row to the next while rendering: %s' % [(b[0], b[1]) for b in bad])
    # D4: reader and writer agree on how many columns a cell takes: draw() measures
    # UnicodeWidthChar::width of the character it stores first in the cell; display() must decide
    # "the next cell is a placeholder" by the same measure of the first character of the cell text
    scope = list(disp_scope)
    other = []
    for f_ in scope:
        for bi_, t_ in prog.calls(prog.bodies[f_]):
            nm = (t_['func'].get('fn') or {}).get('resolved') or (t_['func'].get('fn') or {}).get('path', '')
            if 'unicode_width' in nm and not nm.startswith('<char as unicode_width::UnicodeWidthChar>::width'):
                other.append('%s (line %s)' % (nm, t_['span'].get('line')))
    ws = [w for w in sr['widths'] if w['ep'] == disp and w['func'] in scope]
    notfirst = []
    for w in ws:
        ch = w['ch']
        pv = getattr(ch, 'prov', None)
        if not (isinstance(pv, tuple) and pv and pv[0] == 'char-of' and pv[2] == 'first'):
            notfirst.append(repr(ch))
    chk.instance('R-AGREE', short(disp), 'cell width measured as in draw: char width of the first character of the cell text',
                 bool(ws) and not other and not notfirst,
                 detail='; '.join(other + sorted(set(notfirst))[:2]) or '%d width measurements, all of the first character of a cell text' % len(ws), span=body.span,
                 what='display() decides the placeholder skip by a different width measure than draw(): %s' % (
                     '; '.join(other + sorted(set(notfirst))[:2]) or 'no width measurement found'))
    chk.trust('may-write analysis E3 (mtsa/effects.py)', 'collection summaries')


def semantic_loop_range(sr, epn, func, head):
    """('0', 'lines') / ('0', 'columns') when the loop (func, head), as entered during the analysis of
    entry point epn, iterates 0..lines / 0..columns of the screen in ascending order (decided on the
    recorded range values, whatever expression produced them); None if it was never entered or is
    something else"""
    eng = sr['engine']
    seen = None
    states = [sg['st'] for sg in sr['segments'] if sg['ep'] == epn] + [st for r_ in sr['results'].get(epn, []) for (st, _r) in r_.finals]
    for st in states:
        for ev in st.event_list():
            if ev[0] != 'loop-head' or ev[1] != func or ev[2] != head or len(ev) < 5 or ev[4] is None:
                continue
            d = ev[4]
            if d[4] or d[3] or not (isinstance(d[1], NumV) and isinstance(d[2], NumV)):
                return None
            if not (d[1].sym is None and d[1].k == 0):
                return None
            kind = None
            for nm in ('lines', 'columns'):
                v = get(eng, st, nm)
                if isinstance(v, NumV) and eng.prove_cmp(st, 'eq', d[2], v) is True:
                    kind = nm
            if kind is None or (seen is not None and seen != kind):
                return None
            seen = kind
    return ('0', seen) if seen else None


def closure_carried(prog, c, depth=0):
    """state a closure can carry from one call to the next: captures by mutable borrow, owned captures
    it assigns to, and (transitively) the same for closures it captures"""
    cb = prog.bodies.get(c)
    if cb is None:
        return [(short(c), 'closure body not found')]
    out = []
    ups = cb.j.get('upvars', [])
    assigned = set()
    for bb in cb.blocks:
        for s_ in bb['stmts']:
            if s_['k'] == 'assign' and s_['place']['local'] == 1:
                names = [e['name'] for e in s_['place']['proj'] if e['k'] == 'field']
                if names and names[0].isdigit():
                    assigned.add(int(names[0]))
    for i, u in enumerate(ups):
        b = u.get('borrow')
        ty = u.get('ty', '?')
        if 'closure@' in ty or '{closure' in ty:
            if depth < 3:
                for c2 in prog.closures_of.get(cb.parent, []) + prog.closures_of.get(c, []):
                    if c2 != c and prog.bodies[c2].span.get('line') and ('%s' % prog.bodies[c2].span.get('line')) in ty:
                        out += closure_carried(prog, c2, depth + 1)
            if b in ('mut', 'uniq'):
                out.append((u.get('name', '?'), ty))
            continue
        if b in ('mut', 'uniq'):
            out.append((u.get('name', '?'), ty))
        elif b in ('value', 'use') and i in assigned:
            out.append((u.get('name', '?'), ty))
    return out


def loop_carried(prog, func, want_range, ctx, sr):
    """locals defined outside the loop over `want_range` in `func` that are assigned or mutably
    borrowed inside it: list of (name, type)"""
    from .rules_c09 import loop_range
    body = prog.bodies[func]
    loops, back, idom, preds = body.loops()
    for h, blocks in loops.items():
        ht = body.blocks[h]['term']
        is_for = ht['k'] == 'call' and ((ht['func'].get('fn') or {}).get('path', '')).endswith('::next')
        if not ((is_for and loop_range(ctx, sr['engine'], func, h) == want_range) or semantic_loop_range(sr, func, func, h) == want_range):
            continue
        own = sr['engine'].loop_counters.get((func, h), set())     # a counting `while`: its counter plays the part of the range iterator
        inside_def = set()
        mutated = set()
        for b in blocks:
            bb = body.blocks[b]
            for s in bb['stmts']:
                if s['k'] == 'assign':
                    pl = s['place']
                    if not pl['proj']:
                        inside_def.add(pl['local'])
                    elif not any(e['k'] == 'deref' for e in pl['proj']):
                        mutated.add(pl['local'])
                    rv = s['rv']
                    if rv['k'] in ('ref', 'rawptr') and rv.get('mut') and not any(e['k'] == 'deref' for e in rv['place']['proj']):
                        mutated.add(rv['place']['local'])
            t = bb['term']
            if t['k'] == 'call' and not t['dest']['proj']:
                inside_def.add(t['dest']['local'])
        # defined outside = has an assignment in a block outside the loop (or is an argument)
        outside_def = set(range(1, body.arg_count + 1))
        for bi, bb in enumerate(body.blocks):
            if bi in blocks or bb['cleanup']:
                continue
            for s in bb['stmts']:
                if s['k'] == 'assign' and not s['place']['proj']:
                    outside_def.add(s['place']['local'])
            t = bb['term']
            if t['k'] == 'call' and not t['dest']['proj']:
                outside_def.add(t['dest']['local'])
        out = []
        for l in sorted((mutated | (inside_def & outside_def)) & outside_def):
            ty = body.locals[l]['ty']
            if l in own:
                continue
            if ty == '()' or ty.startswith('&') and 'mut' not in ty:
                continue
            if ty == 'bool' and body.local_name(l) == '_%d' % l and all(
                    s_['rv']['k'] == 'use' and s_['rv']['op']['k'] == 'const' for bb_ in body.blocks for s_ in bb_['stmts']
                    if s_['k'] == 'assign' and s_['place']['local'] == l and not s_['place']['proj']):
                continue      # a drop flag the compiler keeps for a value that is moved out conditionally (no source-level state)
            # closures: only those with a mutable environment carry state
            if 'closure@' in ty:
                cl = [c for c in prog.closures_of.get(func, []) if prog.bodies[c].locals[1]['ty'].startswith('&mut')]
                if not cl:
                    continue
            out.append((body.local_name(l), ty))
        return out
    return None


# ===========================================================================
COUNT_METHODS = [('cursor_up', 0), ('cursor_down', 0), ('cursor_forward', 0), ('cursor_back', 0), ('cursor_up1', 0), ('cursor_down1', 0),
                 ('cursor_to_column', 0), ('cursor_to_line', 0)]
MOVES = ['cursor_up', 'cursor_down', 'cursor_forward', 'cursor_back', 'cursor_up1', 'cursor_down1', 'cursor_to_column', 'cursor_to_line',
         'cursor_position', 'backspace', 'cariage_return']


def ref_move(eng, st, meth, r):
    """reference final (x, y) as values in state st; None = unchanged component"""
    x0, y0 = st.vn[('entry', 'x')], st.vn[('entry', 'y')]
    cols, lines = st.vn[('entry', 'columns')], st.vn[('entry', 'lines')]
    tb = margins_tb(eng, st)
    top = tb[0] if tb else NumV(None, 0, 'u32')
    bottom = tb[1] if tb else NumV(lines.sym, lines.k - 1, 'u32')
    lastcol = NumV(cols.sym, cols.k - 1, 'u32')
    lastrow = NumV(lines.sym, lines.k - 1, 'u32')
    a0 = st.vn.get(('entry-arg', 0))
    a1 = st.vn.get(('entry-arg', 1))
    n = norm_count(eng, st, a0) if a0 is not None else None
    if meth in ('cursor_up', 'cursor_up1'):
        sub = sat_sub(eng, st, y0, n)
        y = eng.num_max(st, sub, top, 'u32')
        return (NumV(None, 0, 'u32') if meth.endswith('1') else x0, y)
    if meth in ('cursor_down', 'cursor_down1'):
        y = eng.num_min(st, eng.num_add(st, y0, n, 'u32'), bottom, 'u32')
        return (NumV(None, 0, 'u32') if meth.endswith('1') else x0, y)
    if meth == 'cursor_forward':
        return (eng.num_min(st, eng.num_add(st, x0, n, 'u32'), lastcol, 'u32'), y0)
    if meth in ('cursor_back', 'backspace'):
        if meth == 'backspace':
            n = NumV(None, 1, 'u32')
        xs = eng.num_min(st, x0, lastcol, 'u32')
        return (sat_sub(eng, st, xs, n), y0)
    if meth == 'cariage_return':
        return (NumV(None, 0, 'u32'), y0)
    if meth == 'cursor_to_column':
        return (eng.num_min(st, NumV(n.sym, n.k - 1, 'u32'), lastcol, 'u32'), y0)
    if meth == 'cursor_to_line':
        decom = mode_fact(eng, st, DECOM)
        base = NumV(n.sym, n.k - 1, 'u32')
        if decom and tb:
            return (x0, eng.num_min(st, eng.num_add(st, base, top, 'u32'), bottom, 'u32'))
        if decom is None and tb:
            return None
        return (x0, eng.num_min(st, base, lastrow, 'u32'))
    if meth == 'cursor_position':
        ln = norm_count(eng, st, a0)
        cn = norm_count(eng, st, a1)
        if ln is None or cn is None:
            return None
        decom = mode_fact(eng, st, DECOM)
        xr = eng.num_min(st, NumV(cn.sym, cn.k - 1, 'u32'), lastcol, 'u32')
        if tb and decom is None:
            return None
        if tb and decom:
            tgt = eng.num_add(st, NumV(ln.sym, ln.k - 1, 'u32'), top, 'u32')
            r0 = eng.prove_le(st, tgt, bottom)
            if r0 is True:
                return (xr, tgt)
            if r0 is False:
                return (x0, y0)
            return 'split', tgt, bottom, (xr, tgt), (x0, y0)
        return (xr, eng.num_min(st, NumV(ln.sym, ln.k - 1, 'u32'), lastrow, 'u32'))
    return None


def sat_sub(eng, st, a, b):
    if eng.prove_le(st, b, a) is True:
        return eng.num_sub(st, a, b, 'u32')
    if eng.prove_le(st, a, b) is True:
        return NumV(None, 0, 'u32')
    key = ('satsub', a.key(), b.key())
    if key in st.vn:
        return st.vn[key]
    t = eng.fresh_num(st, 'u32', 0, None, name='satsub(%r,%r)' % (a, b))
    eng.assume_le(st, t, a)
    st.vn[key] = t
    st.vn[('def', t.sym)] = ('satsub', a, b)
    return t


def run_c05(ctx, chk):
    chk.assume('A-DIM', 'A-ARG', 'A-PUB', 'A-TOOL')
    from .rules_c03 import param_fidelity
    param_fidelity(ctx, chk, fsm=True, prop='C05', finals='ABCDEFGHfdae`', basic='\x08\x0d')      # through the parser the numbers arrive as typed (R-CAP)
    sr = ctx.screen_run()
    eng = sr['engine']
    prog = ctx.prog
    # D1 frames
    for m in MOVES:
        g.frame(ctx, chk, m, ['cursor.x', 'cursor.y'])
    # D3 zero == absent
    n = g.r_zero1(ctx, chk, COUNT_METHODS + [('cursor_position', 0), ('cursor_position', 1)])
    chk.floor('zero/absent comparisons', n, 16)
    # D4/D5 closed forms (E7) on every exit state
    nf = 0
    for m in MOVES:
        f = ep(m)
        bad = []
        cnt = 0
        skipped = 0
        for r, st, ret in each_final(sr, f):
            s2 = st.fork()
            try:
                refv = ref_move(eng, s2, m, r)
            except Exception as e:
                refv = None
            if refv is None:
                skipped += 1
                continue
            x = get(eng, s2, 'cursor', 'x')
            y = get(eng, s2, 'cursor', 'y')
            cases = []
            if isinstance(refv, tuple) and refv and refv[0] == 'split':
                _, a, b, inside, outside = refv
                s_in = s2.fork()
                s_out = s2.fork()
                if eng.assume_le(s_in, a, b):
                    cases.append((s_in, inside))
                if eng.assume_cmp(s_out, 'gt', a, b):
                    cases.append((s_out, outside))
            else:
                cases.append((s2, refv))
            for (s3, (rx, ry)) in cases:
                cnt += 1
                okx, wx = plt.prove_rel(eng, s3, 'eq', x, lambda s, rx=rx: rx)
                oky, wy = plt.prove_rel(eng, s3, 'eq', y, lambda s, ry=ry: ry)
                if not okx:
                    bad.append('[%s] column: %s is not the documented %s (%s)' % (r.label, g.term(eng, s3, x), g.term(eng, s3, rx), wx))
                if not oky:
                    bad.append('[%s] row: %s is not the documented %s (%s)' % (r.label, g.term(eng, s3, y), g.term(eng, s3, ry), wy))
        nf += 1
        chk.instance('R-PLT', short(f), 'final position equals the documented closed form', cnt > 0 and not bad,
                     detail=('; '.join(bad[:3])) or '%d exit states compared (%d skipped: origin-mode flag undecided on the path)' % (cnt, skipped),
                     span=prog.bodies[f].span, what='%s: %s' % (m, '; '.join(bad[:2])))
    chk.floor('closed-form instances', nf, 11)
    chk.trust('E7 ordering enumeration (mtsa/plt.py)', 'may-write analysis E3')


# ===========================================================================
def run_c13(ctx, chk):
    chk.assume('A-DIM', 'A-ARG', 'A-PUB', 'A-TOOL')
    from .rules_c03 import param_fidelity
    param_fidelity(ctx, chk, fsm=True, prop='C13', finals='@P')      # through the parser the numbers arrive as typed (R-CAP)
    for m in ('insert_characters', 'delete_characters'):
        g.frame(ctx, chk, m, ['buffer', 'dirty'])
    n = g.r_zero1(ctx, chk, [('insert_characters', 0), ('delete_characters', 0)])
    chk.floor('zero/absent comparisons', n, 4)
    funcs = closures_of(ctx, {ep('insert_characters'), ep('delete_characters')})
    # "discarded characters never reappear": ICH / DCH may rely on no cell living beyond the right edge
    # of any row, which every grid mutator has to maintain - the grid-bounds rule over all of them
    ng = g.r_grid(ctx, chk, funcs | closures_of(ctx, F(GRID_FUNCS)))
    chk.cover('grid key sites', ng.eps, ['insert_characters', 'delete_characters'])
    na, nb = g.r_absent(ctx, chk, funcs)
    chk.cover('branched lookups', nb.eps, ['insert_characters', 'delete_characters'])
    footprint_row(ctx, chk, ['insert_characters', 'delete_characters'])
    blank_provenance(ctx, chk, ['insert_characters', 'delete_characters'], 'default_char')
    shift_distance(ctx, chk)
    # must-footprint: every cell from the cursor column to the right edge is rewritten (stored or
    # removed) - a loop that touches the cell of its element in every iteration, cannot be left early
    # and covers [cursor column, columns)
    sr = ctx.screen_run()
    eng = sr['engine']
    loops = g.cell_store_loops(ctx, sr, touch=True)
    for m in ('insert_characters', 'delete_characters'):
        f = ep(m)
        bad = []
        cnt = 0
        for r, st, ret in each_final(sr, f):
            cnt += 1
            x0, cols = st.vn[('entry', 'x')], st.vn[('entry', 'columns')]
            ok = False
            why = 'no loop that rewrites a cell of the cursor row in every iteration is run'
            for ev in st.event_list():
                if ev[0] == 'loop-head' and ev[1] in funcs and len(ev) > 4 and ev[4] is not None and 'cursor-row' in loops.get((f, ev[1], ev[2]), ()):
                    okc, w = g.range_covers(eng, st, ev[4], x0, cols)
                    if okc:
                        ok = True
                        break
                    why = 'the loop over %s..%s%s does not cover cursor column .. right edge (%s)' % (g.term(eng, st, ev[4][1]), '=' if ev[4][3] else '', g.term(eng, st, ev[4][2]), w)
            if not ok:
                bad.append('[%s] %s' % (r.label, why))
        chk.instance('R-MUSTFOOT', short(f), 'every cell from the cursor column to the right edge is rewritten', cnt > 0 and not bad,
                     detail='; '.join(bad[:2]) or '%d exit paths' % cnt, span=ctx.prog.bodies[f].span, what='%s leaves cells of the rest of the row untouched: %s' % (m, '; '.join(bad[:2])))
    from .rules_c01 import panic_obligations
    panic_obligations(chk, 'C13', sr['engine'], only_funcs=funcs)


def shift_distance(ctx, chk):
    """ICH / DCH move every surviving cell by exactly the count asked for (absent or 0: one): a cell stored at column d that
    was taken from column s of the same row has d = s + n (ICH) resp. s = d + n (DCH), on every path - also where the count is
    larger than what fits (the clamp `min(n, columns - x)` of the statement changes nothing there, because nothing survives)"""
    sr = ctx.screen_run()
    eng = sr['engine']
    prog = ctx.prog
    for meth, sign in (('insert_characters', 1), ('delete_characters', -1)):
        f = ep(meth)
        scope = closures_of(ctx, {f})
        agg = {}
        for e in sr['events']:
            ev = e['ev']
            if e['ep'] != f or e['func'] not in scope or ev[0] != 'map.insert' or g.level_of(e) != 'cell':
                continue
            st = e['st']
            d, v = ev[2], ev[3]
            pv = getattr(v, 'prov', None)
            src = None
            if isinstance(pv, tuple) and pv and pv[0] == 'removed' and len(pv) > 2 and isinstance(pv[2], NumV):
                src = pv[2]
            elif isinstance(pv, tuple) and pv and pv[0] == 'elem-clone' and pv[2] and pv[2][-1][0] == 'e' and isinstance(pv[2][-1][1], NumV):
                src = pv[2][-1][1]
            if src is None or not isinstance(d, NumV):
                continue          # a blank (R-BLANK decides what it is) or a value of unknown origin (R-BLANK reports it)
            a0 = st.vn.get(('entry-arg', 0))
            n = opt_payload(a0)
            if isinstance(a0, EnumV) and a0.tags == {0}:
                n = NumV(None, 1, 'u32')
            elif isinstance(n, NumV) and eng.prove_cmp(st, 'eq', n, NumV(None, 0, 'u32')) is True:
                n = NumV(None, 1, 'u32')
            ok = False
            why = 'count not known'
            if isinstance(n, NumV) and eng.prove_le(st, NumV(None, 1, 'u32'), n) is True:
                a, b = (src, d) if sign > 0 else (d, src)          # b = a + n
                ok, w = plt.prove_rel(eng, st, 'eq', b, lambda s_, a=a, n=n: eng.num_add(s_, a, n, 'u32'))
                why = 'the cell stored at column %s comes from column %s, documented a distance of %s (%s)' % (
                    g.term(eng, st, d), g.term(eng, st, src), g.term(eng, st, n), w)
            k = (short(e['func']), 'moved cell @%s' % site_ord(prog, e))
            a_ = agg.setdefault(k, dict(ok=True, why='', span=e['span'], n=0))
            a_['n'] += 1
            if not ok and a_['ok']:
                a_['ok'] = False
                a_['why'] = why + ' | ' + str(e['entry'])
        for (ff, c), a_ in sorted(agg.items()):
            chk.instance('R-SHIFT', ff, c, a_['ok'], detail=a_['why'] or '%d visits' % a_['n'], span=a_['span'],
                         what='%s does not move the rest of the row by exactly the count: %s' % (meth, a_['why']))
        chk.floor('%s moved-cell stores' % meth, len(agg), 1)


def footprint_row(ctx, chk, meths, rule='R-FOOT'):
    """every cell operation of these methods is on the cursor row and at a column >= the cursor column"""
    sr = ctx.screen_run()
    eng = sr['engine']
    prog = ctx.prog
    funcs = {ep(m) for m in meths}
    scope = closures_of(ctx, funcs)
    agg = {}
    eps_seen = set()
    for e in sr['events']:
        ev = e['ev']
        if e['func'] not in scope or e['ep'] not in funcs:
            continue
        if ev[0] not in ('map.insert', 'map.remove', 'map.entry_or_insert') or g.level_of(e) != 'cell':
            continue
        eps_seen.add(e['ep'].split('::')[-1])
        st = e['st']
        row = g.row_of_path(ev[1])
        y0, x0 = st.vn.get(('entry', 'y')), st.vn.get(('entry', 'x'))
        col = ev[2]
        ok_row = isinstance(row, NumV) and eng.prove_cmp(st, 'eq', row, y0) is True
        ok_col = isinstance(col, NumV) and eng.prove_le(st, x0, col) is True
        k = (short(e['func']), '%s on cursor row, column >= cursor @%s' % (ev[0], site_ord(prog, e)))
        a = agg.setdefault(k, dict(ok=True, why='', span=e['span'], n=0))
        a['n'] += 1
        if not (ok_row and ok_col) and a['ok']:
            a['ok'] = False
            a['why'] = 'row %s, column %s (cursor at row %s, column %s)' % (g.term(eng, st, row) if isinstance(row, NumV) else row, g.term(eng, st, col) if isinstance(col, NumV) else col,
                                                                        g.term(eng, st, y0), g.term(eng, st, x0))
    for (f, c), a in sorted(agg.items()):
        chk.instance(rule, f, c, a['ok'], detail=a['why'] or '%d visits' % a['n'], span=a['span'], what='cell outside the rest of the cursor row is touched: ' + a['why'])
    chk.cover('footprint sites', eps_seen, meths)


def peeled(eng, st, evl, lh):
    """the range of the loop entered at event `lh`, extended by the cells of the cursor row that are stored one by one
    after it on this path at the column just past its end (a peeled last iteration)"""
    d = lh[4]
    if d is None or not g.elementwise(d[4]) or not (isinstance(d[1], NumV) and isinstance(d[2], NumV)):
        return None
    try:
        i0 = max(i for i, e in enumerate(evl) if e is lh or e == lh)
    except ValueError:
        return None
    hi = NumV(d[2].sym, d[2].k + 1, d[2].ty) if d[3] else d[2]
    y0 = st.vn.get(('entry', 'y'))
    grew = False
    for e in evl[i0 + 1:]:
        if e[0] == 'loop-head':
            break
        if e[0] == 'map.insert' and e[1] and e[1][0] == 'S' and len(e[1]) > 2 and e[1][1] == 'buffer' and isinstance(e[2], NumV):
            row = g.row_of_path(e[1])
            if isinstance(row, NumV) and isinstance(y0, NumV) and eng.prove_cmp(st, 'eq', row, y0) is True and eng.prove_cmp(st, 'eq', e[2], hi) is True:
                hi = NumV(hi.sym, hi.k + 1, hi.ty)
                grew = True
    return ('range', d[1], hi, False, d[4]) if grew else None


def blank_provenance(ctx, chk, meths, want, rule='R-BLANK'):
    """blank cells stored by these methods: want = 'default_char' (default rendition) or 'cursor.attr'"""
    sr = ctx.screen_run()
    eng = sr['engine']
    prog = ctx.prog
    funcs = {ep(m) for m in meths}
    agg = {}
    eps_seen = set()
    for e in sr['events']:
        ev = e['ev']
        # every cell stored while the method runs, whichever helper performs the store
        if e['ep'] not in funcs or ev[0] != 'map.insert' or g.level_of(e) != 'cell':
            continue
        v = ev[3]
        eps_seen.add(e['ep'].split('::')[-1])
        pv = getattr(v, 'prov', None)
        moved = isinstance(v, (OpaqueV,)) or (isinstance(v, StructV) and pv is None) or (isinstance(pv, tuple) and pv[0] in ('removed', 'elem-clone'))
        if want == 'default_char':
            good = moved or g.is_default_char(eng, e['st'], v)[0]
            desc = 'a moved cell or default_char()'
        else:
            good = g.is_cursor_attr(eng, e['st'], v)
            desc = 'a copy of the cursor rendition'
        k = (short(e['func']), 'stored value @%s' % site_ord(prog, e))
        a = agg.setdefault(k, dict(ok=True, why='', span=e['span'], n=0))
        a['n'] += 1
        if not good and a['ok']:
            a['ok'] = False
            a['why'] = 'stores %r (provenance %r), documented %s' % (v, pv, desc)
    for (f, c), a in sorted(agg.items()):
        chk.instance(rule, f, c, a['ok'], detail=a['why'] or '%d visits' % a['n'], span=a['span'], what=a['why'])
    chk.cover('stored-value sites', eps_seen, meths)


# ===========================================================================
def run_c07(ctx, chk):
    chk.assume('A-DIM', 'A-ARG', 'A-PUB', 'A-TOOL')
    from .rules_c03 import param_fidelity
    param_fidelity(ctx, chk, fsm=True, prop='C07', finals='JKX')      # through the parser the numbers arrive as typed (R-CAP)
    sr = ctx.screen_run()
    eng = sr['engine']
    prog = ctx.prog
    er = ['erase_in_display', 'erase_in_line', 'erase_characters']
    for m in er:
        g.frame(ctx, chk, m, ['buffer', 'dirty'])
        g.noread(ctx, chk, m, ['margins', 'mode'])
    # absent selector == 0 ; zero count == absent
    n = g.r_zero1(ctx, chk, [('erase_in_display', 0), ('erase_in_line', 0), ('erase_characters', 0)])
    chk.floor('absent/zero comparisons', n, 6)
    funcs = closures_of(ctx, {ep(m) for m in er})
    ng = g.r_grid(ctx, chk, funcs)
    chk.cover('grid key sites', ng.eps, er)
    blank_provenance(ctx, chk, er, 'cursor.attr')
    # may-footprint: every cell stored lies in the documented region for the selector of that path
    agg = {}
    for e in sr['events']:
        ev = e['ev']
        if e['ep'] not in {ep(m) for m in er} or e['func'] not in funcs:
            continue
        if ev[0] != 'map.insert' or g.level_of(e) != 'cell':
            continue
        st = e['st']
        row = g.row_of_path(ev[1])
        col = ev[2]
        y0, x0 = st.vn.get(('entry', 'y')), st.vn.get(('entry', 'x'))
        cols = st.vn.get(('entry', 'columns'))
        a0 = st.vn.get(('entry-arg', 0))
        how = opt_payload(a0)
        hv = None
        if isinstance(a0, EnumV) and a0.tags == {0}:
            hv = 0
        elif isinstance(how, NumV):
            lo, hi = eng.bounds(st, how)
            hv = lo if lo == hi else ('range', lo, hi)
        meth = e['ep'].split('::')[-1]
        ok, why = erase_region_ok(eng, st, meth, hv, row, col, x0, y0, cols, a0)
        k = (short(e['func']), 'erased cell inside the documented range @%s [%s]' % (site_ord(prog, e), meth))
        a = agg.setdefault(k, dict(ok=True, why='', span=e['span'], n=0))
        a['n'] += 1
        if not ok and a['ok']:
            a['ok'] = False
            a['why'] = why + ' | ' + str(e['entry'])
    for (f, c), a in sorted(agg.items()):
        chk.instance('R-FOOT', f, c, a['ok'], detail=a['why'] or '%d visits' % a['n'], span=a['span'], what='erase touches a cell outside the documented range: ' + a['why'])
    chk.cover('erase footprint sites', {k[1].rsplit('[', 1)[1].rstrip(']') for k in agg}, er)
    # erased cells take the cursor rendition: dropping a cell / row from the sparse grid instead (it then
    # reads as default_char()) is only the same thing when the cursor rendition is default_char()
    rem = {}
    for e in sr['events']:
        ev = e['ev']
        if e['ep'] not in {ep(m) for m in er} or e['func'] not in funcs or ev[0] != 'map.remove':
            continue
        lvl = g.level_of(e)
        if lvl is None:
            continue
        st = e['st']
        cur = get(eng, st, 'cursor', 'attr')
        okd, whyd = g.is_default_char(eng, st, cur)
        k = (short(e['func']), 'removed %s reads as the cursor rendition @%s' % (lvl, site_ord(prog, e)))
        a = rem.setdefault(k, dict(ok=True, why='', span=e['span'], n=0))
        a['n'] += 1
        if not okd and a['ok']:
            a['ok'] = False
            a['why'] = 'a %s is removed from the grid while the cursor rendition is not shown to be default_char(): %s | %s' % (lvl, whyd, e['entry'])
    for (f, c), a in sorted(rem.items()):
        chk.instance('R-ABSENT', f, c, a['ok'], detail=a['why'] or '%d visits' % a['n'], span=a['span'],
                     what='erase drops cells from the grid, which then read as the default blank instead of the cursor rendition: ' + a['why'])
    must_footprint(ctx, chk, funcs)
    # unsupported selectors are ignored: no grid operation on those paths
    for m, first_bad in (('erase_in_line', 3), ('erase_in_display', 4)):
        f = ep(m)
        bad = []
        cnt = 0
        for seg in g.all_segments(sr, {f}):
            st = seg['st']
            how = opt_payload(st.vn.get(('entry-arg', 0)))
            if not isinstance(how, NumV):
                continue
            lo, hi = eng.bounds(st, how)
            if lo >= first_bad:
                cnt += 1
                evs = [ev for ev in st.event_list() if ev[0].startswith('map.') and ev[1] and ev[1][0] == 'S']
                if evs:
                    bad.append('selector in [%s, %s] performs %s' % (lo, hi, evs[0][0]))
        chk.instance('R-DISPATCH', short(f), 'selectors >= %d change no cell' % first_bad, cnt > 0 and not bad, detail='; '.join(bad[:2]) or '%d paths' % cnt,
                     span=prog.bodies[f].span, what='%s with an unsupported selector: %s' % (m, '; '.join(bad[:2])))
    from .rules_c01 import panic_obligations
    panic_obligations(chk, 'C07', eng, only_funcs=funcs)


def must_footprint(ctx, chk, scope):
    """every documented cell IS erased: on each exit path the method ran a loop (in its own code or a
    private helper) that stores a cell in every iteration, cannot be left early, and iterates a range
    containing the documented columns (for ED: rows, with an inner loop over all columns)"""
    sr = ctx.screen_run()
    eng = sr['engine']
    prog = ctx.prog
    loops = g.cell_store_loops(ctx, sr)

    def sel(st):
        a0 = st.vn.get(('entry-arg', 0))
        if isinstance(a0, EnumV) and a0.tags == {0}:
            return 0
        how = opt_payload(a0)
        if isinstance(how, NumV):
            lo, hi = eng.bounds(st, how)
            return lo if lo == hi else None
        return None

    def path_loops(evs, want_row, epn):
        out = []
        for ev in evs:
            if ev[0] == 'loop-head' and ev[1] in scope and len(ev) > 4 and ev[4] is not None:
                rows = loops.get((epn, ev[1], ev[2]))
                if rows and (want_row is None or want_row in rows):
                    out.append(ev)
        return out

    def line_range(meth, hv, st):
        x0, cols = st.vn[('entry', 'x')], st.vn[('entry', 'columns')]
        zero = NumV(None, 0, 'u32')
        if meth == 'erase_characters':
            n = norm_count(eng, st, st.vn.get(('entry-arg', 0)))
            if n is None:
                return None
            return (x0, lambda s: eng.num_min(s, eng.num_add(s, x0, n, 'u32'), cols, 'u32'))
        if hv == 0:
            return (x0, cols)
        if hv == 1:
            return (zero, lambda s: NumV(*_plus1(eng.num_min(s, x0, NumV(cols.sym, cols.k - 1, 'u32'), 'u32'))))
        if hv == 2:
            return (zero, cols)
        return None
    for meth in ('erase_in_line', 'erase_characters'):
        f = ep(meth)
        bad = []
        cnt = 0
        for r, st, ret in each_final(sr, f):
            hv = sel(st) if meth == 'erase_in_line' else 0
            rng = line_range(meth, hv, st)
            if rng is None:
                continue
            cnt += 1
            cands = path_loops(st.event_list(), 'cursor-row', f)
            ok = False
            why = 'no loop that stores a cell of the cursor row in every iteration is run'
            evl = st.event_list()
            for ev in cands:
                okc, w = g.range_covers(eng, st, ev[4], rng[0], rng[1])
                if not okc:
                    # a last (or first) iteration written out after the loop: `while x < stop { put(x); x += 1 } put(stop)`
                    d2 = peeled(eng, st, evl, ev)
                    if d2 is not None:
                        okc, w = g.range_covers(eng, st, d2, rng[0], rng[1])
                if okc:
                    ok = True
                    break
                why = 'the loop over %s..%s%s does not cover the documented columns (%s)' % (
                    g.term(eng, st, ev[4][1]), '=' if ev[4][3] else '', g.term(eng, st, ev[4][2]), w)
            if not ok:
                bad.append('[%s] %s' % (r.label, why))
        chk.instance('R-MUSTFOOT', short(f), 'every documented cell of the cursor row is erased', cnt > 0 and not bad,
                     detail='; '.join(bad[:2]) or '%d exit paths with a supported selector / count' % cnt, span=prog.bodies[f].span,
                     what='%s leaves documented cells unerased: %s' % (meth, '; '.join(bad[:2])))
    # ED: whole rows below / above / everywhere, then the cursor row through EL for selectors 0 and 1
    f = ep('erase_in_display')
    bad = []
    cnt = 0
    for r, st, ret in each_final(sr, f):
        hv = sel(st)
        if hv not in (0, 1, 2, 3):
            continue
        cnt += 1
        y0, lines, cols = st.vn[('entry', 'y')], st.vn[('entry', 'lines')], st.vn[('entry', 'columns')]
        zero = NumV(None, 0, 'u32')
        rows = {0: (NumV(y0.sym, y0.k + 1, 'u32'), lines), 1: (zero, y0), 2: (zero, lines), 3: (zero, lines)}[hv]
        evs = st.event_list()
        ok = False
        why = 'no loop over the rows is run'
        whys = []
        for ev in evs:
            if ev[0] != 'loop-head' or ev[1] not in scope or len(ev) < 5 or ev[4] is None:
                continue
            if why not in whys:
                whys.append(why)
            okr, w = g.range_covers(eng, st, ev[4], rows[0], rows[1])
            if not okr:
                why = 'the row loop %s..%s does not cover the documented rows (%s)' % (g.term(eng, st, ev[4][1]), g.term(eng, st, ev[4][2]), w)
                continue
            body = prog.bodies.get(ev[1])
            if isinstance(ev[2], int) and not g.loop_exits_only_at_head(body, ev[2], sr['engine'], ev[1]):
                why = 'the row loop can be left early'
                continue
            # every iteration of this row loop blanks the whole row
            segs = [sg for sg in sr['segments'] if sg['func'] == ev[1] and sg['head'] == ev[2] and sg['ep'] == f]
            okall = bool(segs)
            for sg in segs:
                pre, lev = g.seg_events(dict(sg, kind='backedge'))
                d_outer = g.loop_desc_in(sg['st'].event_list(), ev[1], ev[2])
                want_row = ('elem', d_outer[1].key(), d_outer[2].key(), bool(d_outer[3])) if d_outer and isinstance(d_outer[1], NumV) and isinstance(d_outer[2], NumV) else None
                inner_ok = False
                for e2 in lev:
                    if e2[0] == 'loop-head' and e2[1] in scope and len(e2) > 4 and e2[4] is not None and want_row in loops.get((f, e2[1], e2[2]), ()):
                        c2 = sg['st'].vn.get(('entry', 'columns'))
                        okc, w2 = g.range_covers(eng, sg['st'], e2[4], NumV(None, 0, 'u32'), c2)
                        if okc:
                            inner_ok = True
                if not inner_ok:
                    okall = False
                    why = 'an iteration of the row loop does not blank all columns of its row'
            if okall:
                ok = True
                break
        if ok and hv in (0, 1):
            if not any(e2[0] == 'call' and e2[1] == ep('erase_in_line') and len(e2[2]) >= 1 and e2[2][0] == ('Some', hv) for e2 in evs):
                ok = False
                why = 'the cursor row is not erased with the same selector (no erase_in_line(%d))' % hv
        if not ok:
            bad.append('[%s] %s' % (r.label, ' / '.join(whys[1:] + [why])))
    chk.instance('R-MUSTFOOT', short(f), 'every documented row is blanked completely (and the cursor row through EL)', cnt > 0 and not bad,
                 detail='; '.join(bad[:2]) or '%d exit paths with a supported selector' % cnt, span=prog.bodies[f].span,
                 what='erase_in_display leaves documented cells unerased: %s' % '; '.join(bad[:2]))


def _plus1(v):
    return (v.sym, v.k + 1, v.ty)


def erase_region_ok(eng, st, meth, hv, row, col, x0, y0, cols, a0):
    if not (isinstance(col, NumV) and isinstance(row, NumV)):
        return False, 'row/column key not numeric'
    in_cols = eng.prove_cmp(st, 'lt', col, cols) is True
    same_row = eng.prove_cmp(st, 'eq', row, y0) is True
    right = eng.prove_le(st, x0, col) is True
    left = eng.prove_le(st, col, x0) is True
    below = eng.prove_cmp(st, 'gt', row, y0) is True
    above = eng.prove_cmp(st, 'lt', row, y0) is True
    desc = 'row %s col %s (cursor row %s col %s, selector %s)' % (g.term(eng, st, row), g.term(eng, st, col), g.term(eng, st, y0), g.term(eng, st, x0), hv)
    if meth == 'erase_characters':
        n = norm_count(eng, st, a0)
        end_ok = n is not None and eng.prove_cmp(st, 'lt', col, eng.num_add(st, x0, n, 'u32')) is True
        return (same_row and right and end_ok), desc + ' count %r' % (n,)
    if meth == 'erase_in_line':
        if hv == 0:
            return same_row and right, desc
        if hv == 1:
            return same_row and left, desc
        if hv == 2:
            return same_row, desc
        return False, desc + ': a cell is stored for an unsupported selector'
    if meth == 'erase_in_display':
        if hv == 0:
            return (same_row and right) or below, desc
        if hv == 1:
            return (same_row and left) or above, desc
        if hv in (2, 3):
            return True, desc
        return False, desc + ': a cell is stored for an unsupported selector'
    return False, desc


# ===========================================================================
def run_c06(ctx, chk):
    chk.assume('A-DIM', 'A-ARG', 'A-PUB', 'A-TOOL')
    from .rules_c03 import param_fidelity
    param_fidelity(ctx, chk, fsm=True, prop='C06', finals='LMr', esc='DEM', basic='\x0a\x0b\x0c')      # through the parser the numbers arrive as typed (R-CAP)
    sr = ctx.screen_run()
    eng = sr['engine']
    prog = ctx.prog
    g.frame(ctx, chk, 'index', ['buffer', 'dirty', 'cursor.y'])
    g.frame(ctx, chk, 'reverse_index', ['buffer', 'dirty', 'cursor.y'])
    g.frame(ctx, chk, 'linefeed', ['buffer', 'dirty', 'cursor.x', 'cursor.y'])
    g.frame(ctx, chk, 'insert_lines', ['buffer', 'dirty', 'cursor.x'])
    g.frame(ctx, chk, 'delete_lines', ['buffer', 'dirty', 'cursor.x'])
    g.frame(ctx, chk, 'set_margins', ['margins', 'cursor.x', 'cursor.y'])
    n = g.r_zero1(ctx, chk, [('insert_lines', 0), ('delete_lines', 0)])
    chk.floor('zero/absent comparisons', n, 4)
    funcs = closures_of(ctx, {ep(m) for m in ('index', 'reverse_index', 'insert_lines', 'delete_lines', 'linefeed')})
    ng = g.r_grid(ctx, chk, funcs)
    chk.cover('grid key sites', ng.eps, ['index', 'reverse_index', 'insert_lines'])
    na, nb = g.r_absent(ctx, chk, funcs)
    chk.cover('branched lookups', nb.eps, ['insert_lines', 'delete_lines'])
    nd = g.r_dirty(ctx, chk, funcs)
    chk.cover('dirty-covered write sites', nd.eps, ['index', 'reverse_index', 'insert_lines', 'delete_lines'])
    rekey(ctx, chk)
    ildl_region(ctx, chk)
    set_margins_clauses(ctx, chk)
    from .rules_c01 import panic_obligations
    panic_obligations(chk, 'C06', eng, only_funcs=funcs | {ep('set_margins')})


def rekey(ctx, chk, only=None):
    """index / reverse_index: the scroll branch is taken iff the cursor is on the bottom / top margin, it
    leaves cursor.y alone, and rebuilds the row map by the documented re-keying; otherwise only the
    cursor moves"""
    sr = ctx.screen_run()
    eng = sr['engine']
    prog = ctx.prog
    for meth, edge, off in (('index', 'bottom', 1), ('reverse_index', 'top', -1)):
        if only is not None and meth not in only:
            continue
        f = ep(meth)
        scope_f = closures_of(ctx, {f})
        bad = []
        cnt = 0
        for r, st, ret in each_final(sr, f):
            cnt += 1
            evs = st.event_list()
            wrote_buf = any(ev[0] == 'w' and ev[1] and ev[1][0] == 'buffer' for ev in evs) or any(
                ev[0].startswith('map.') and ev[1] and ev[1][0] == 'S' and ev[1][1] == 'buffer' and ev[0] != 'map.entry_or_insert' for ev in evs)
            wrote_y = any(ev[0] == 'w' and tuple(ev[1][:2]) == ('cursor', 'y') for ev in evs)
            y0, lines = st.vn[('entry', 'y')], st.vn[('entry', 'lines')]
            tb = margins_tb(eng, st)
            edge_v = (tb[1] if edge == 'bottom' else tb[0]) if tb else (NumV(lines.sym, lines.k - 1, 'u32') if edge == 'bottom' else NumV(None, 0, 'u32'))
            at_edge = eng.prove_cmp(st, 'eq', y0, edge_v)
            if wrote_buf and at_edge is not True:
                bad.append('[%s] scrolls although the cursor is not known to be on the %s margin' % (r.label, edge))
            if wrote_buf and wrote_y:
                bad.append('[%s] scroll branch also moves the cursor row' % r.label)
            if (not wrote_buf) and at_edge is True:
                bad.append('[%s] on the %s margin nothing scrolls' % (r.label, edge))
            if not wrote_buf:
                # documented: cursor moves by one towards the edge, clamped
                y = get(eng, st, 'cursor', 'y')
                if meth == 'index':
                    ok, w = plt.prove_rel(eng, st, 'eq', y, lambda s: eng.num_min(s, NumV(y0.sym, y0.k + 1, 'u32'), edge_v, 'u32'))
                else:
                    ok, w = plt.prove_rel(eng, st, 'eq', y, lambda s: eng.num_max(s, sat_sub(eng, s, y0, NumV(None, 1, 'u32')), edge_v, 'u32'))
                if not ok:
                    bad.append('[%s] away from the margin the cursor row becomes %s (%s)' % (r.label, g.term(eng, st, y), w))
        chk.instance('R-REKEY', short(f), 'scroll iff on the %s margin; cursor row untouched when scrolling' % edge, cnt > 0 and not bad,
                     detail='; '.join(bad[:3]) or '%d exit states' % cnt, span=prog.bodies[f].span, what='; '.join(bad[:2]))
        # re-keying inside the scroll branch: every row stored in the new map comes from the documented source row
        once_ok, once_why = removes_once(ctx, sr, eng, f, scope_f)
        agg = {}
        for e in sr['events']:
            ev = e['ev']
            if e['func'] not in scope_f or e['ep'] != f or ev[0] != 'map.insert' or g.level_of(e) != 'row':
                continue
            st = e['st']
            key = ev[2]
            v = ev[3]
            pv = getattr(v, 'prov', None)
            tb = margins_tb(eng, st)
            lines = st.vn[('entry', 'lines')]
            top = tb[0] if tb else NumV(None, 0, 'u32')
            bottom = tb[1] if tb else NumV(lines.sym, lines.k - 1, 'u32')
            src = None
            if isinstance(pv, tuple) and pv[0] == 'clone' and pv[2] and len(pv[2]) >= 3 and isinstance(pv[2][2], tuple):
                src = pv[2][2][1]
            elif once_ok and isinstance(pv, tuple) and pv[0] == 'removed' and len(pv) > 2 and pv[1] == ('S', 'buffer') and isinstance(pv[2], NumV):
                # moved out of the old grid instead of copied: the same row, provided no row is taken twice (removes_once)
                src = pv[2]
            inside = eng.prove_le(st, top, key) is True and eng.prove_le(st, key, bottom) is True
            outside = eng.prove_cmp(st, 'lt', key, top) is True or eng.prove_cmp(st, 'gt', key, bottom) is True
            ok = False
            why = ''
            if isinstance(v, CollV) and v.known == () and src is None:
                # an empty row standing for a source row that was looked up and found absent
                # (`old.get(&y).cloned().unwrap_or_default()`): the source is that key
                # (also `.unwrap_or_else(HashMap::new)` / `match .. { None => HashMap::new() }`): the lookup must
                # be the last thing that happened to the old grid on this path, in this iteration
                last = None
                for e2 in reversed(st.event_list()):
                    if e2[0] == 'loop-head':
                        break
                    if e2[0] == 'branch' and e2[1] in ('map.get.none', 'map.get.some', 'map.remove.none', 'map.remove.some') and e2[2] == ('S', 'buffer'):
                        last = e2
                        break
                if last is not None and (last[1] == 'map.get.none' or (once_ok and last[1] == 'map.remove.none')) and isinstance(last[3], NumV) \
                        and isinstance(getattr(v, 'prov', None), tuple) and v.prov and v.prov[0] in ('default', 'new'):
                    src = last[3]
            if isinstance(v, CollV) and v.known == () and src is None:
                vac = bottom if meth == 'index' else top
                ok = eng.prove_cmp(st, 'eq', key, vac) is True
                why = 'blank row stored at %s (documented: at the vacated %s margin row)' % (g.term(eng, st, key), 'bottom' if meth == 'index' else 'top')
            elif isinstance(src, NumV):
                if outside:
                    ok = eng.prove_cmp(st, 'eq', src, key) is True
                    why = 'row %s outside the region is rebuilt from row %s (documented: itself)' % (g.term(eng, st, key), g.term(eng, st, src))
                elif inside:
                    ok = eng.prove_cmp(st, 'eq', src, NumV(key.sym, key.k + off, 'u32')) is True
                    why = 'row %s inside the region is rebuilt from row %s (documented: row %+d)' % (g.term(eng, st, key), g.term(eng, st, src), off)
                else:
                    why = 'destination row %s not classified against the region' % g.term(eng, st, key)
            else:
                why = 'stored row has unknown provenance %r' % (pv,)
            k = (short(f), 'row re-keying @%s' % site_ord(prog, e))
            a = agg.setdefault(k, dict(ok=True, why='', span=e['span'], n=0))
            a['n'] += 1
            if not ok and a['ok']:
                a['ok'] = False
                a['why'] = why + ' | ' + str(e['entry'])
        for (ff, c), a in sorted(agg.items()):
            chk.instance('R-REKEY', ff, c, a['ok'], detail=a['why'] or '%d visits' % a['n'], span=a['span'], what=a['why'])
        chk.floor('%s re-keying sites' % meth, len(agg), 1)


def removes_once(ctx, sr, eng, f, scope_f):
    """no row of the old grid is taken out twice while f runs - then reading a row by `remove` is reading the row the
    grid had on entry.  Decided structurally on the abstract run: every `remove` on the rows uses the element (plus a
    constant) of a range loop - one key per iteration - that is not nested in another loop, and the key intervals of
    different remove sites are pairwise disjoint.  -> (ok, why)"""
    from .values import IterV
    prog = ctx.prog
    sites = {}
    for e in sr['events']:
        ev = e['ev']
        if e['func'] not in scope_f or e['ep'] != f or ev[0] != 'map.remove' or tuple(ev[1]) != ('S', 'buffer'):
            continue
        st = e['st']
        k = ev[2]
        if not isinstance(k, NumV) or k.sym is None:
            return False, 'a row is removed under a key that is not the element of a loop (%r)' % (k,)
        it = st.vn.get(('itersym', k.sym))
        if not (isinstance(it, IterV) and it.kind == 'range' and g.elementwise(tuple(o[0] for o in it.ops))
                and isinstance(it.args[0], NumV) and isinstance(it.args[1], NumV)):
            return False, 'a row is removed under a key that is not the element of a plain range'
        body = prog.bodies.get(e['func'])
        inl = [h for h, blks in body.loops()[0].items() if e['bb'] in blks] if body is not None else []
        if len(inl) != 1:
            return False, 'a row is removed inside %d nested loops' % len(inl)
        lo, hi, incl = it.args
        hi_x = NumV(hi.sym, hi.k + (1 if incl else 0) + k.k, hi.ty)
        lo_x = NumV(lo.sym, lo.k + k.k, lo.ty)
        sites.setdefault(e['entry'], {}).setdefault((e['func'], e['bb']), []).append((st, lo_x, hi_x))
    for entry, per in sites.items():
        keys = sorted(per)
        for i in range(len(keys)):
            for j in range(i + 1, len(keys)):
                ok = False
                for (sa, loa, hia) in per[keys[i]][:3]:
                    for (sb, lob, hib) in per[keys[j]][:3]:
                        for s_ in (sa, sb):
                            if eng.prove_le(s_, hia, lob) is True or eng.prove_le(s_, hib, loa) is True:
                                ok = True
                if not ok:
                    return False, 'two loops may take the same row out of the old grid'
    return True, ''


def ildl_region(ctx, chk):
    """IL / DL: act only with the cursor inside the region; touch only rows in [cursor row, bottom]; CR on the acting path"""
    sr = ctx.screen_run()
    eng = sr['engine']
    prog = ctx.prog
    for meth in ('insert_lines', 'delete_lines'):
        f = ep(meth)
        agg = {}
        for e in sr['events']:
            ev = e['ev']
            if e['func'] not in closures_of(ctx, {f}) or e['ep'] != f or ev[0] not in ('map.insert', 'map.remove') or g.level_of(e) != 'row':
                continue
            st = e['st']
            key = ev[2]
            y0, lines = st.vn[('entry', 'y')], st.vn[('entry', 'lines')]
            tb = margins_tb(eng, st)
            top = tb[0] if tb else NumV(None, 0, 'u32')
            bottom = tb[1] if tb else NumV(lines.sym, lines.k - 1, 'u32')
            ok = (eng.prove_le(st, y0, key) is True and eng.prove_le(st, key, bottom) is True and
                  eng.prove_le(st, top, y0) is True and eng.prove_le(st, y0, bottom) is True)
            k = (short(f), '%s of a row within [cursor row, bottom margin] @%s' % (ev[0], site_ord(prog, e)))
            a = agg.setdefault(k, dict(ok=True, why='', span=e['span'], n=0))
            a['n'] += 1
            if not ok and a['ok']:
                a['ok'] = False
                a['why'] = 'row %s touched with cursor row %s, region [%s, %s] | %s' % (g.term(eng, st, key), g.term(eng, st, y0), g.term(eng, st, top), g.term(eng, st, bottom), e['entry'])
        for (ff, c), a in sorted(agg.items()):
            chk.instance('R-FOOT', ff, c, a['ok'], detail=a['why'] or '%d visits' % a['n'], span=a['span'], what=a['why'])
        chk.floor('%s row-operation sites' % meth, len(agg), 1)
        # must-footprint: when the cursor is inside the region every row from the cursor row to the
        # bottom margin is rewritten (moved, replaced or removed)
        rloops = g.row_touch_loops(ctx, sr)
        scope_f = closures_of(ctx, {f})
        badm = []
        nact = 0
        for r, st, ret in each_final(sr, f):
            evs = st.event_list()
            if not any(ev[0] in ('map.insert', 'map.remove') and ev[1] == ('S', 'buffer') for ev in evs) and \
                    not any(ev[0] == 'loop-head' and ev[1] in scope_f for ev in evs):
                continue      # not an acting path (cursor outside the region)
            nact += 1
            y0, lines = st.vn[('entry', 'y')], st.vn[('entry', 'lines')]
            tb = margins_tb(eng, st)
            bottom = tb[1] if tb else NumV(lines.sym, lines.k - 1, 'u32')
            okm = False
            why = 'no loop that rewrites the row of its element in every iteration is run'
            for ev in evs:
                if ev[0] == 'loop-head' and ev[1] in scope_f and len(ev) > 4 and ev[4] is not None and ev[4][0] == 'range' and (f, ev[1], ev[2]) in rloops:
                    okc, w = g.range_covers(eng, st, ev[4], y0, NumV(bottom.sym, bottom.k + 1, 'u32'))
                    if okc:
                        okm = True
                        break
                    why = 'the row loop %s..%s%s does not cover cursor row ..= bottom margin (%s)' % (g.term(eng, st, ev[4][1]), '=' if ev[4][3] else '', g.term(eng, st, ev[4][2]), w)
            if not okm:
                badm.append('[%s] %s' % (r.label, why))
        chk.instance('R-MUSTFOOT', short(f), 'every row from the cursor row to the bottom margin is rewritten', nact > 0 and not badm,
                     detail='; '.join(badm[:2]) or '%d acting exit paths' % nact, span=prog.bodies[f].span, what='%s leaves rows of the region untouched: %s' % (meth, '; '.join(badm[:2])))
        bad = []
        cnt = 0
        for r, st, ret in each_final(sr, f):
            cnt += 1
            evs = st.event_list()
            acted = any(ev[0] == 'loop-head' and ev[1] == f for ev in evs)
            x = get(eng, st, 'cursor', 'x')
            if acted and not (isinstance(x, NumV) and x.sym is None and x.k == 0):
                bad.append('[%s] acting path leaves the cursor in column %s' % (r.label, g.term(eng, st, x)))
        chk.instance('R-MUST', short(f), 'carriage return on the acting path', cnt > 0 and not bad, detail='; '.join(bad[:2]) or '%d exit states' % cnt,
                     span=prog.bodies[f].span, what='; '.join(bad[:2]))


def set_margins_clauses(ctx, chk):
    sr = ctx.screen_run()
    eng = sr['engine']
    prog = ctx.prog
    f = ep('set_margins')
    bad = []
    cnt = 0
    for r, st, ret in each_final(sr, f):
        cnt += 1
        evs = st.event_list()
        wm = [ev for ev in evs if ev[0] == 'w' and ev[1] and ev[1][0] == 'margins']
        top_a, bot_a = st.vn.get(('entry-arg', 0)), st.vn.get(('entry-arg', 1))
        m = get(eng, st, 'margins')
        t_none_or_zero = (isinstance(top_a, EnumV) and top_a.tags == {0}) or (isinstance(opt_payload(top_a), NumV) and eng.bounds(st, opt_payload(top_a)) == (0, 0))
        b_none = isinstance(bot_a, EnumV) and bot_a.tags == {0}
        if t_none_or_zero and b_none:
            if not (isinstance(m, EnumV) and m.tags == {0}):
                bad.append('[%s] `CSI r` alone must remove the region, margins = %r' % (r.label, m))
            continue
        if wm:
            # accepted: homed
            x, y = get(eng, st, 'cursor', 'x'), get(eng, st, 'cursor', 'y')
            decom = mode_fact(eng, st, DECOM)
            if not (isinstance(x, NumV) and x.sym is None and x.k == 0):
                bad.append('[%s] region accepted but cursor column is %s' % (r.label, g.term(eng, st, x)))
            if isinstance(m, EnumV) and m.tags == {1}:
                mm = m.payload[1].fields.get('0') if m.payload.get(1) else None
                tgt = (mm.fields.get('top') if isinstance(mm, StructV) else None) if decom else NumV(None, 0, 'u32')
                if not isinstance(tgt, NumV):
                    bad.append('[%s] region accepted but its rows are not known' % r.label)
                elif decom is not None and eng.prove_cmp(st, 'eq', y, tgt) is not True:
                    bad.append('[%s] region accepted but cursor row is %s (home is %s)' % (r.label, g.term(eng, st, y), g.term(eng, st, tgt)))
    chk.instance('R-MARGINS', short(f), 'CSI r removes the region; an accepted region homes the cursor', cnt > 0 and not bad,
                 detail='; '.join(bad[:3]) or '%d exit states (I3 itself is decided under C09)' % cnt, span=prog.bodies[f].span, what='; '.join(bad[:2]))


# ===========================================================================
def run_c17(ctx, chk):
    chk.assume('A-DIM', 'A-ARG', 'A-PUB', 'A-TOOL')
    funcs = closures_of(ctx, F(GRID_FUNCS))
    nd = g.r_dirty(ctx, chk, funcs)
    chk.cover('dirty-covered write sites', nd.eps, ['draw', 'insert_characters', 'delete_characters', 'erase_characters', 'erase_in_line', 'erase_in_display', 'insert_lines', 'delete_lines', 'index', 'reverse_index', 'alignment_display', 'reset'])
    # screen-wide operations mark every row
    sr = ctx.screen_run()
    eng = sr['engine']
    prog = ctx.prog
    for meth, cond in (('reset', None), ('alignment_display', None), ('index', 'scroll'), ('reverse_index', 'scroll')):
        f = ep(meth)
        bad = []
        cnt = 0
        for r, st, ret in each_final(sr, f):
            evs = st.event_list()
            scrolled = any(ev[0] == 'w' and ev[1] and ev[1][0] == 'buffer' for ev in evs)
            if cond == 'scroll' and not scrolled:
                continue
            cnt += 1
            if not all_rows_marked(eng, st, evs, ctx, sr):
                bad.append(r.label)
        chk.instance('R-DIRTY', short(f), 'marks every row', cnt > 0 and not bad, detail='unmarked on: %s' % bad[:2] if bad else '%d exit paths' % cnt,
                     span=prog.bodies[f].span, what='%s does not mark all rows dirty on [%s]' % (meth, bad[:1]))
    f = 'screen::Screen::resize'
    bad = []
    cnt = 0
    for r, st, ret in each_final(sr, f):
        evs = st.event_list()
        if not any(ev[0] == 'w' for ev in evs):
            continue      # same-size no-op
        cnt += 1
        if not all_rows_marked(eng, st, evs, ctx, sr):
            bad.append(r.label)
    chk.instance('R-DIRTY', short(f), 'marks every row of the new geometry', cnt > 0 and not bad, detail='unmarked on: %s' % bad[:2] if bad else '%d exit paths' % cnt,
                 span=prog.bodies[f].span, what='resize does not mark all rows dirty on [%s]' % bad[:1])
    # DECSCNM through either spelling of the mode number
    decscnm_dirty(ctx, chk)
    # I4: indices below lines (shared with C09)
    from . import rules_c09
    sub = type(chk)(chk.prop, chk.tier)
    rules_c09.run(ctx, sub)
    for (rule, func, construct, ok, nt) in sub.instances:
        if rule == 'R-DIRTYBOUND':
            chk.instances.append((rule, func, construct, ok, nt))
    for fd in sub.findings:
        if fd.rule == 'R-DIRTYBOUND':
            chk.findings.append(fd)


def all_rows_marked(eng, st, evs, ctx, sr=None):
    lines = get(eng, st, 'lines')
    marks = g.dirty_marks(ctx, sr if sr is not None else ctx.screen_run(), evs)
    for m in marks:
        if m[0] != 'range':
            continue
        lo, hi = m[1], m[2]
        if isinstance(lo, NumV) and isinstance(hi, NumV) and isinstance(lines, NumV):
            if eng.prove_le(st, lo, NumV(None, 0, 'u32')) is True and eng.prove_le(st, lines, hi) is True:
                return True
    return False


def run_modes(ctx, modes, private, set_=True):
    """abstractly run set_mode / reset_mode with a constant mode list from an arbitrary INV state;
    returns (engine, [(state, ret)])"""
    prog = ctx.prog
    eng = Engine(prog, ctx.eff, config=dict(max_steps=600000))
    st = State()
    inv.screen_init(eng, st)
    root = ('H', 'modes')
    st.store[root] = CollV('slice', '[u32]', 'modes', length=NumV(None, len(modes), 'usize'), known=tuple(NumV(None, m, 'u32') for m in modes))
    f = ep('set_mode' if set_ else 'reset_mode')
    eng.entry_name = '%s(%s, private=%s)' % ('set_mode' if set_ else 'reset_mode', modes, private)
    res = eng.exec_body(st, f, [RefV((inv.S_ROOT, ()), True), RefV((root, ())), BoolV(private)])
    return eng, res


def decscnm_dirty(ctx, chk):
    prog = ctx.prog
    for set_ in (True, False):
        for (modes, private) in (([5], True), ([DECSCNM], False)):
            name = ('set_mode' if set_ else 'reset_mode')
            try:
                eng, res = run_modes(ctx, modes, private, set_)
            except Budget as e:
                chk.instance('R-DIRTY', 'Screen::' + name, 'DECSCNM %s marks every row' % ('?5' if private else 'as %d' % DECSCNM), False, detail=str(e), undischarged=True)
                continue
            bad = [1 for (st, ret) in res if not all_rows_marked(eng, st, st.event_list(), ctx)]
            chk.instance('R-DIRTY', 'Screen::' + name, 'DECSCNM spelled %s marks every row' % ('`?5`' if private else 'as the shifted constant %d' % DECSCNM),
                         bool(res) and not bad, detail='%d of %d exit paths leave rows unmarked' % (len(bad), len(res)), span=prog.bodies[ep(name)].span,
                         what='%s(&[%s], %s) flips reverse video on every cell without marking the rows dirty' % (name, modes[0], str(private).lower()))
