"""C03 (grammar conformance), C19 (OSC title / icon name) and the parser clauses of C20 / C02:
R-CONST on control.rs, R-DISPATCH (E6) and R-FSM (E5) against the reference grammar below.

The reference is written from the property statements (C03, C19, C20) and ECMA-48 / VT100;
entries on which the statements are silent are don't-care and are not compared.
"""
from . import fsm
from .ctx import CLOSURE
from .model import short
from .tables import plain, static_value
from .values import BoolV, CollV, NumV, StrV

# ---------------------------------------------------------------------------
# reference constants (ECMA-48 / VT100 code points)
REF_CONST = {
    'BEL': '\x07', 'BS': '\x08', 'HT': '\x09', 'LF': '\x0a', 'VT': '\x0b', 'FF': '\x0c', 'CR': '\x0d', 'SO': '\x0e', 'SI': '\x0f',
    'CAN': '\x18', 'SUB': '\x1a', 'ESC': '\x1b', 'CSI': '\x9b', 'OSC': '\x9d', 'ST': '\x9c', 'ST_C1': '\x9c', 'ST_C0': '\x1b\\',
    'HTS': 'H', 'NEL': 'E', 'RI': 'M', 'IND': 'D', 'DECSC': '7', 'DECRC': '8', 'RIS': 'c', 'DECALN': '8', 'SP': ' ', 'GREATER': '>',
    'ICH': '@', 'CUU': 'A', 'CUD': 'B', 'CUF': 'C', 'CUB': 'D', 'CNL': 'E', 'CPL': 'F', 'CHA': 'G', 'CUP': 'H', 'ED': 'J', 'EL': 'K',
    'IL': 'L', 'DL': 'M', 'DCH': 'P', 'ECH': 'X', 'HPR': 'a', 'DA': 'c', 'VPA': 'd', 'VPR': 'e', 'HVP': 'f', 'TBC': 'g', 'SM': 'h',
    'RM': 'l', 'SGR': 'm', 'DECSTBM': 'r',
}
BASIC = ['\x07', '\x08', '\x09', '\x0a', '\x0b', '\x0c', '\x0d', '\x0e', '\x0f']
ALLOWED_IN_CSI = BASIC[:7]
REF_SETS = {
    'BASIC': set(BASIC),
    'ALLOWED_IN_CSI': set(ALLOWED_IN_CSI),
    'OSC_TERMINATORS': {'\x07', '\x1b\\', '\x9c'},
}
SPECIAL = {'\x1b', '\x9b', '\x9d'} | set(BASIC)

# reference dispatch (method, argument pattern); p0? = Some(p0) if a first parameter exists else None
CSI_REF = {
    '@': ('insert_characters', ['p0?']), 'A': ('cursor_up', ['p0?']), 'B': ('cursor_down', ['p0?']), 'C': ('cursor_forward', ['p0?']),
    'D': ('cursor_back', ['p0?']), 'E': ('cursor_down1', ['p0?']), 'F': ('cursor_up1', ['p0?']), 'G': ('cursor_to_column', ['p0?']),
    'H': ('cursor_position', ['p0?', 'p1?']), 'J': ('erase_in_display', ['p0?', 'None']), 'K': ('erase_in_line', ['p0?', 'None']),
    'L': ('insert_lines', ['p0?']), 'M': ('delete_lines', ['p0?']), 'P': ('delete_characters', ['p0?']), 'X': ('erase_characters', ['p0?']),
    'a': ('cursor_forward', ['p0?']), 'c': ('report_device_attributes', ['p0?', 'None']), 'd': ('cursor_to_line', ['p0?']),
    'e': ('cursor_down', ['p0?']), 'f': ('cursor_position', ['p0?', 'p1?']), 'g': ('clear_tab_stop', ['p0?']),
    'h': ('set_mode', ['params', 'private']), 'l': ('reset_mode', ['params', 'private']), 'm': ('select_graphic_rendition', ['params']),
    'r': ('set_margins', ['p0?', 'p1?']),
}
ESC_REF = {'c': 'reset', 'D': 'index', 'E': 'linefeed', 'M': 'reverse_index', 'H': 'set_tab_stop', '7': 'save_cursor', '8': 'restore_cursor'}
BASIC_REF = {'\x07': 'bell', '\x08': 'backspace', '\x09': 'tab', '\x0a': 'linefeed', '\x0b': 'linefeed', '\x0c': 'linefeed',
             '\x0d': 'cariage_return', '\x0e': 'shift_out', '\x0f': 'shift_in'}

# representatives of every character class the grammar (or the code) distinguishes
CLASS_REPS = (['\x00', '\x01', '\x07', '\x08', '\x09', '\x0a', '\x0b', '\x0c', '\x0d', '\x0e', '\x0f', '\x18', '\x1a', '\x1b', '\x7f',
               '\x85', '\x9b', '\x9c', '\x9d', ' ', '!', '#', '$', '%', '(', ')', '*', '0', '1', '2', '5', '8', '9', ';', '<', '=', '>', '?',
               '[', '\\', ']', '^', '_', '`', '{', '~', 'Z', 'q', 'x', 'R', 'p', 'B', 'U', 'V', '7', 'é', '€', '中']
              + sorted(CSI_REF) + sorted(ESC_REF))
CLASS_REPS = list(dict.fromkeys(CLASS_REPS))


def code_constants(prog, funcs):
    """every single-character string constant compared in the given functions (so that a new
    comparison introduced by a change refines the class partition)"""
    out = set()

    def walk(o):
        if isinstance(o, dict):
            if o.get('k') == 'const' and isinstance(o.get('value'), str) and len(o['value']) == 1:
                out.add(o['value'])
            if o.get('k') == 'const' and isinstance(o.get('value'), list):
                for x in o['value']:
                    if isinstance(x, str) and len(x) == 1:
                        out.add(x)
            for v in o.values():
                walk(v)
        elif isinstance(o, list):
            for v in o:
                walk(v)
    for f in funcs:
        b = prog.bodies.get(f)
        if b:
            walk(b.blocks)
    return out


# ---------------------------------------------------------------------------
def check_constants(ctx, chk, prop='C03', names=None):
    prog = ctx.prog
    n = 0
    for name, ref in sorted(REF_CONST.items()):
        if names is not None and name not in names:
            continue
        c = prog.consts.get('control::' + name)
        if c is None:
            continue
        n += 1
        v = c['value']
        chk.instance('R-CONST', 'control::' + name, 'value', v == ref, nontrivial=False,
                     detail='evaluated %r, reference %r' % (v, ref), span=c['span'],
                     what='control constant %s is %r, the standard code point is %r' % (name, v, ref))
    for name, ref in sorted(REF_SETS.items()):
        if names is not None and name not in names:
            continue
        c = prog.consts.get('control::' + name)
        if c is None:
            continue
        n += 1
        v = c['value']
        ok = isinstance(v, list) and set(v) == ref
        chk.instance('R-CONST', 'control::' + name, 'set', ok, detail='evaluated %r, reference %r' % (v, sorted(ref)), span=c['span'],
                     what='character class %s differs from the documented set' % name)
    chk.floor('control constants evaluated', n, 25 if names is None else min(4, len(names)))
    if names is not None:
        return None
    # SPECIAL (lazy_static)
    eng = ctx.new_engine()
    sv = static_value(eng, 'control::SPECIAL')
    pv = plain(sv)
    ok = isinstance(pv, list) and set(pv) == SPECIAL
    chk.instance('R-TABLE', 'control::SPECIAL', 'set', ok, detail='extracted %r' % (pv,),
                 what='SPECIAL (characters that leave the plain-text fast path) differs from ESC, CSI, OSC + the nine basic controls')
    return pv


def expect_args(pattern, n, private):
    out = []
    for p in pattern:
        if p == 'p0?':
            out.append('Some(p0)' if n >= 1 else 'None')
        elif p == 'p1?':
            out.append('Some(p1)' if n >= 2 else 'None')
        elif p == 'None':
            out.append('None')
        elif p == 'params':
            out.append('[' + ','.join('p%d' % i for i in range(n)) + ']')
        elif p == 'private':
            out.append('true' if private else 'false')
    return tuple(out)


def dispatch_tables(ctx, chk, prop='C03', only=None, quiet=False, esc=None, basic=None):
    """R-DISPATCH: the three decision tables, entry by entry; returns the extracted tables
    (used to expand dispatch events of the automaton)"""
    prog = ctx.prog
    D = 'parser_listener::ParserListener::'
    reps = set(CLASS_REPS) | code_constants(prog, [D + 'csi_dispatch', D + 'escape_dispatch', D + 'basic_dispatch'])
    tables = {'csi': {}, 'esc': {}, 'basic': {}}
    ncsi = 0
    for c in sorted(reps):
        for n in (0, 1, 2, 3):
            for private in (False, True):
                out, eng = fsm.run_dispatch(ctx, D + 'csi_dispatch', c, n, private)
                tables['csi'][(c, n, private)] = out
                if only and c not in only:
                    continue
                ref = CSI_REF.get(c)
                exp = {((ref[0], expect_args(ref[1], n, private)),)} if ref else {()}
                ncsi += 1
                if quiet:
                    continue
                chk.instance('R-DISPATCH', 'csi_dispatch', 'final %r n=%d private=%s' % (c, n, private), out == exp,
                             nontrivial=(ref is not None), detail='extracted %s, reference %s' % (sorted(out), sorted(exp)),
                             what='CSI final %r with %d parameter(s): dispatches %s, documented %s' % (c, n, _fmt(out), _fmt(exp)))
    nesc = 0
    for c in sorted(reps):
        out, eng = fsm.run_dispatch(ctx, D + 'escape_dispatch', c)
        tables['esc'][c] = out
        ref = ESC_REF.get(c)
        exp = {((ref, ()),)} if ref else {()}
        nesc += 1
        if (only is None and not quiet) or (esc and c in esc):
            chk.instance('R-DISPATCH', 'escape_dispatch', 'final %r' % c, out == exp, nontrivial=(ref is not None),
                         detail='extracted %s, reference %s' % (sorted(out), sorted(exp)),
                         what='ESC %r: dispatches %s, documented %s' % (c, _fmt(out), _fmt(exp)))
        out, eng = fsm.run_dispatch(ctx, D + 'basic_dispatch', c)
        tables['basic'][c] = out
        ref = BASIC_REF.get(c)
        exp = {((ref, ()),)} if ref else {()}
        if (only is None and not quiet) or (basic and c in basic):
            chk.instance('R-DISPATCH', 'basic_dispatch', 'control %r' % c, out == exp, nontrivial=(ref is not None),
                         detail='extracted %s, reference %s' % (sorted(out), sorted(exp)),
                         what='control %r: dispatches %s, documented %s' % (c, _fmt(out), _fmt(exp)))
    if not quiet:
        chk.floor('csi dispatch entries', ncsi, 100 if only is None else 8)
    return tables


def _fmt(outs):
    def one(o):
        return ' + '.join('%s(%s)' % (m, ', '.join(a)) for m, a in o) or 'nothing'
    return ' | '.join(sorted(one(o) for o in outs))


# ---------------------------------------------------------------------------
# reference automaton
G, E, EH, EP, ECS, C, CS, OC, OS, OE = 'GROUND', 'ESC', 'ESC_HASH', 'ESC_PCT', 'ESC_CHARSET', 'CSI', 'CSI_SKIP', 'OSC_CODE', 'OSC_STR', 'OSC_ESC'
PRINTABLE_FINAL = lambda c: ' ' <= c <= '~' or c >= '\xa0'


def ref_step(state, c, utf8):
    """-> (next_state, events, care) ; events: list of listener-level calls as (method, args...) where
    args may contain wildcards '*'; care False = don't-care entry"""
    name = state[0] if isinstance(state, tuple) else state
    if name == G:
        if c == '\x1b':
            return E, [], True
        if c == '\x9b':
            return C, [], True
        if c == '\x9d':
            return OC, [], True
        if c in BASIC_REF:
            if c in '\x0e\x0f' and utf8:
                return G, [], True
            return G, [(BASIC_REF[c],)], True
        return G, None, False          # non-special characters never reach the coroutine in ground
    if name == E:
        if c == '[':
            return C, [], True
        if c == ']':
            return OC, [], True
        if c == '#':
            return EH, [], True
        if c == '%':
            return EP, [], True
        if c in '()':
            return (ECS, c), [], True
        if c in ESC_REF:
            return G, [(ESC_REF[c],)], True
        if PRINTABLE_FINAL(c):
            return G, [], True
        return G, None, False          # ESC followed by a control: statement silent
    if name == EH:
        if c == '8':
            return G, [('alignment_display',)], True
        return G, [], PRINTABLE_FINAL(c)
    if name == EP:
        return G, [], PRINTABLE_FINAL(c)
    if name == ECS:
        if not PRINTABLE_FINAL(c):
            return G, None, False
        if utf8:
            return G, [], True
        if c not in 'B0UV':
            return G, None, False      # unsupported designator: calling define_charset (which ignores it) or not is equivalent
        return G, [('define_charset', c, state[1])], True
    if name == C:
        if c == '?':
            return C, [], True
        if c in ALLOWED_IN_CSI:
            return C, [(BASIC_REF[c],)], True
        if c in ' >':
            return C, [], True
        if c in '\x18\x1a':
            return G, '*', True                # abort; whether the control is also handed to draw is don't-care
        if c in '0123456789':
            return C, [], True
        if c == ';':
            return C, [], True
        if c == '$':
            return CS, [], True
        if PRINTABLE_FINAL(c) and c < '\x7f':
            return G, 'csi', True
        return G, None, False
    if name == CS:
        return G, [], PRINTABLE_FINAL(c)
    if name == OC:
        if c in 'RPp' or not PRINTABLE_FINAL(c):
            return OS, None, False
        return OS, [], True
    if name == OS:
        if c in '\x07\x9c':
            return G, 'osc', True
        if c == '\x1b':
            return OE, [], True
        return OS, [], True
    if name == OE:
        if c == '\\':
            return G, 'osc', True
        return OS, None, False
    raise KeyError(state)


def expand_events(evs, tables):
    """listener-level calls of an extracted outcome: dispatch calls are expanded through the
    extracted dispatch tables; returns a set of alternatives (each a tuple of calls)"""
    alts = [()]
    for ev in evs:
        if ev[0] in ('<-', 'push', 'strpush'):
            continue
        name = ev[0]
        if name == 'basic_dispatch':
            outs = tables['basic'].get(ev[1])
            outs = outs if outs is not None else {(('basic_dispatch?', ()),)}
            alts = [a + tuple((m,) for m, args in o) for a in alts for o in outs]
        elif name == 'escape_dispatch':
            outs = tables['esc'].get(ev[1])
            outs = outs if outs is not None else {(('escape_dispatch?', ()),)}
            alts = [a + tuple((m,) for m, args in o) for a in alts for o in outs]
        elif name == 'csi_dispatch':
            alts = [a + (('csi_dispatch',) + tuple(ev[1:]),) for a in alts]
        else:
            alts = [a + (ev,) for a in alts]
    return set(alts)


def run_fsm(ctx, chk, tables, prop='C03', focus=None):
    """R-FSM: simulation of the extracted transition relation by the reference automaton, from
    the ground state, over every character class.  focus: None (all), 'osc', 'charset'"""
    F = fsm.FsmExtractor(ctx)
    prog = ctx.prog
    for e in F.errors:
        chk.instance('R-FSM', short(CLOSURE), 'extraction', False, detail=e, what='automaton extraction failed: %s' % e, undischarged=True)
    if F.body is None:
        return F
    chk.floor('yield sites', len(F.sites), 9)
    # ground = the unique site that yields Some(true)
    grounds = [s for s in F.sites if F.site_yield_value.get(s) == {'Some(true)'}]
    others_true = [s for s in F.sites if 'Some(true)' in F.site_yield_value.get(s, set()) and s not in grounds]
    chk.instance('R-FSM', short(CLOSURE), 'unique-ground-yield', len(grounds) == 1 and not others_true,
                 detail='yield values per site: %s' % {F.sites.index(s): sorted(v) for s, v in F.site_yield_value.items()},
                 what='exactly one suspension point must report "ground" (Some(true)) to the plain-text fast path')
    unreached = [F.sites.index(s) for s in F.sites if s not in F.arrivals]
    chk.instance('R-FSM', short(CLOSURE), 'all-sites-reached', not unreached, detail='sites without an arrival state: %s' % unreached,
                 what='some suspension points were never reached by the analysis', undischarged=True)
    if len(grounds) != 1:
        return F
    reps = sorted(set(CLASS_REPS) | code_constants(prog, [CLOSURE, "parser::Parser::<'a, T>::feed"]))
    work = [((G), grounds[0], None)]
    seen = set()
    ntrans = 0
    while work:
        rstate, site, prefix = work.pop()
        if (rstate, site) in seen:
            continue
        seen.add((rstate, site))
        rname = rstate[0] if isinstance(rstate, tuple) else rstate
        for utf8 in (True, False):
            for c in reps:
                nxt, evs, care = ref_step(rstate, c, utf8)
                if focus == 'osc' and rname not in (OC, OS, OE) and not (nxt in (OC, OS, OE)):
                    care_here = False
                elif focus in ('modes', 'sgr', 'params'):
                    care_here = False
                elif focus == 'charset' and not (rname == ECS or (isinstance(nxt, tuple) and nxt[0] == ECS) or c in '\x0e\x0f'):
                    # (SO / SI are followed in every state: inside a sequence they must not reach the screen either)
                    care_here = False
                else:
                    care_here = care
                if not care:
                    continue
                if prefix is not None:
                    # a reference state that carries data (the designator kind): enter it from the
                    # generalised state of its predecessor with the entering character fixed
                    outs = F.step(prefix[0], prefix[1] + [c], utf8=utf8, skip_inputs=len(prefix[1]))
                else:
                    outs = F.step(site, [c], utf8=utf8)
                ok, why = compare(F, rstate, c, utf8, nxt, evs, outs, tables, grounds[0])
                if ok:
                    # successor pairs are followed only through matching care entries
                    for (nsite, oevs, yd) in outs:
                        if isinstance(nsite, int):
                            pf = (site, [c]) if isinstance(nxt, tuple) else None
                            work.append((nxt, F.sites[nsite], pf))
                if not care_here:
                    continue
                ntrans += 1
                chk.instance('R-FSM', short(CLOSURE), '%s --%r%s-->' % (_sname(rstate), c, '' if utf8 else ' (8-bit)'), ok, detail=why,
                             span=F.body.blocks[site]['term']['span'],
                             what='in state %s on %r (%s mode): %s' % (_sname(rstate), c, 'UTF-8' if utf8 else '8-bit', why))
    if focus == 'charset':
        # in UTF-8 mode no state of the recogniser lets SO / SI through to the screen (where the grammar
        # leaves the rest of the reaction open, this much is still required)
        nneg = 0
        for (rstate, site) in sorted(seen, key=lambda p: (_sname(p[0]), p[1])):
            if isinstance(rstate, tuple):
                continue       # data-carrying states are entered with a prefix; covered from their predecessor
            for c in '\x0e\x0f':
                outs = F.step(site, [c], utf8=True)
                leaked = sorted({call[0] for (nsite, oevs, yd) in outs for alt in expand_events(oevs, tables) for call in alt
                                 if call[0] in ('shift_in', 'shift_out', 'define_charset')})
                nneg += 1
                chk.instance('R-FSM', short(CLOSURE), '%s --%r--> no shift in UTF-8 mode' % (_sname(rstate), c), not leaked,
                             detail='listener calls %s' % leaked if leaked else '%d outcomes, none reaches shift_in / shift_out' % len(outs),
                             span=F.body.blocks[site]['term']['span'],
                             what='in state %s, UTF-8 mode, %r reaches the screen as %s (documented: shifts are ignored in UTF-8 mode)' % (_sname(rstate), c, leaked))
        chk.floor('UTF-8 shift suppression checked per state', nneg, 10)
    if focus is None:
        data_path(F, chk, seen, grounds[0])
    elif focus in ('modes', 'sgr', 'params'):
        data_path(F, chk, seen, grounds[0], only=focus)
    chk.floor('automaton transitions compared', ntrans, 300 if focus is None else (0 if focus in ('modes', 'sgr', 'params') else 20))
    chk.cov['reference_states_reached'] = sorted({_sname(r) for r, s in seen})
    chk.cov['state_site_pairs'] = len(seen)
    F.pairs = seen
    F.ground = grounds[0]
    return F


def data_path(F, chk, seen, ground, only_modes=False, only=None):
    """data-path clauses of the CSI collector, from the generalised ESC / CSI states:
    `;` pushes exactly one parameter and dispatches nothing; a digit pushes nothing; a final pushes
    exactly one parameter before its single dispatch; `?` makes the dispatch private; a fresh CSI is
    not private and an empty parameter is 0; digits accumulate in decimal; the cap is 9999"""
    esc_sites = sorted({s for (r, s) in seen if r == E})
    csi_sites = sorted({s for (r, s) in seen if r == C})
    name = short(CLOSURE)
    if only_modes:
        only = 'modes'
    only_modes = only is not None

    def pushes(evs):
        return [e for e in evs if e[0] == 'push']

    def calls(evs):
        return [e for e in evs if e[0] not in ('<-', 'push', 'strpush')]
    n = 0
    for cs in ([] if only_modes else csi_sites):
        for (c, want_push, what) in ((';', 1, 'separator'), ('5', 0, 'digit'), ('?', 0, 'private marker'), (' ', 0, 'skipped SP'), ('>', 0, 'skipped >')):
            outs = F.step(cs, [c])
            bad = [o for o in outs if len(pushes(o[1])) != want_push or calls(o[1])]
            n += 1
            chk.instance('R-FSM', name, 'CSI data: %s pushes %d parameter(s), dispatches nothing' % (what, want_push), not bad and bool(outs),
                         detail='outcomes %s' % sorted(outs, key=str)[:3], what='CSI %s: expected %d parameter push and no listener call, got %s' % (what, want_push, sorted(bad, key=str)[:2]))
            if what == 'digit':
                # whatever was collected so far, the digit joins the digit run (a run is never truncated:
                # leading zeros would otherwise change the value)
                bad_d = [o for o in outs if [e for e in o[1] if e[0] == 'strpush'] != [('strpush', c)]]
                n += 1
                chk.instance('R-FSM', name, 'CSI data: every digit is appended to the digit run', not bad_d and bool(outs),
                             detail='outcomes %s' % sorted(outs, key=str)[:3],
                             what='a digit inside a CSI parameter must always be appended to the run being collected, got %s' % sorted(bad_d, key=str)[:2])
        outs = F.step(cs, ['H'])
        bad = [o for o in outs if len(pushes(o[1])) != 1 or [e[0] for e in calls(o[1])] != ['csi_dispatch'] or
               [e[0] for e in o[1] if e[0] != '<-'] != ['push', 'csi_dispatch']]
        n += 1
        chk.instance('R-FSM', name, 'CSI data: final pushes one parameter, then dispatches once', not bad and bool(outs),
                     detail='outcomes %s' % sorted(outs, key=str)[:3], what='CSI final: expected push then one dispatch, got %s' % sorted(bad, key=str)[:2])
        outs = F.step(cs, ['?', 'h'])
        bad = [o for o in outs if not any(e[0] == 'csi_dispatch' and e[-1] is True for e in o[1])]
        n += 1
        chk.instance('R-FSM', name, 'CSI data: ? makes the dispatch private', not bad and bool(outs), detail='outcomes %s' % sorted(outs, key=str)[:3],
                     what='after `?` the dispatch must carry the private flag: %s' % sorted(bad, key=str)[:2])
        outs = F.step(cs, [';', 'h'])
        bad = [o for o in outs if len(pushes(o[1])) != 2 or pushes(o[1])[1][1] != 0]
        n += 1
        chk.instance('R-FSM', name, 'CSI data: parameter after ; starts empty (0)', not bad and bool(outs), detail='outcomes %s' % sorted(outs, key=str)[:3],
                     what='after `;` an immediately following final must push 0: %s' % sorted(bad, key=str)[:2])
    mode_scripts = ((['[', 'h'], ('csi_dispatch', 'h', (0,), False), 'fresh CSI: empty parameter is 0, not private'),
                    (['[', '2', '0', 'h'], ('csi_dispatch', 'h', (20,), False), 'SM 20 is not private'),
                    (['[', '4', ';', '2', '0', 'l'], ('csi_dispatch', 'l', (4, 20), False), 'RM list is not private'),
                    (['[', '?', '2', '5', 'l'], ('csi_dispatch', 'l', (25,), True), 'private parameter'),
                    (['[', '?', '6', 'h'], ('csi_dispatch', 'h', (6,), True), 'private SM'))
    sgr_scripts = ((['[', 'm'], ('csi_dispatch', 'm', (0,), False), 'SGR without parameters is one empty parameter'),
                   (['[', '1', ';', '3', '2', 'm'], ('csi_dispatch', 'm', (1, 32), False), 'SGR list in order'),
                   (['[', '3', '8', ';', '5', ';', '1', '9', '6', 'm'], ('csi_dispatch', 'm', (38, 5, 196), False), 'extended colour parameters reach the listener in order'),
                   (['[', '0', ';', ';', '7', 'm'], ('csi_dispatch', 'm', (0, 0, 7), False), 'empty parameter inside an SGR list is 0'))
    # nothing of an abandoned sequence survives into the next one (its parameters, its digits, its
    # private marker): the second sequence of each script must dispatch exactly its own parameters
    final = {'modes': ['2', '0', 'h'], 'sgr': ['3', '2', 'm']}.get(only, ['3', '2', 'm'])
    fwant = {'modes': ('csi_dispatch', 'h', (20,), False), 'sgr': ('csi_dispatch', 'm', (32,), False)}.get(only, ('csi_dispatch', 'm', (32,), False))
    after_scripts = tuple((['['] + pre + ['\x1b', '['] + final, fwant, 'fresh sequence after %s' % what_)
                          for (pre, what_) in ((['4', ';', '7', ';', '3', '\x18'], 'a CSI cancelled by CAN'),
                                               (['?', '1', ';', '5', '\x1a'], 'a private CSI cancelled by SUB'),
                                               (['1', ';', '1', ';', '5', '$', 'r'], 'a skipped `$` sequence'),
                                               (['4', ';', '7', 'H'], 'a complete sequence')))
    for es in esc_sites:
        for (script, want, what) in ((mode_scripts + after_scripts) if only == 'modes' else (sgr_scripts + after_scripts) if only == 'sgr' else after_scripts if only == 'params' else after_scripts + (
                                     (['[', 'h'], ('csi_dispatch', 'h', (0,), False), 'fresh CSI: empty parameter is 0, not private'),
                                     (['[', '5', 'h'], ('csi_dispatch', 'h', (5,), False), 'one digit'),
                                     (['[', '1', '2', ';', '3', 'H'], ('csi_dispatch', 'H', (12, 3), False), 'decimal accumulation, two parameters'),
                                     (['[', '?', '2', '5', 'l'], ('csi_dispatch', 'l', (25,), True), 'private parameter'),
                                     (['[', '9', '9', '9', '9', '9', 'C'], ('csi_dispatch', 'C', (9999,), False), 'cap at 9999'),
                                     (['[', '0', '0', '0', '0', '0', '0', '5', 'C'], ('csi_dispatch', 'C', (5,), False), 'leading zeros do not change the value'),
                                     (['[', '0', '1', '2', '3', '4', '5', 'C'], ('csi_dispatch', 'C', (9999,), False), 'cap at 9999 with a leading zero'),
                                     (['[', '1', ';', 'm'], ('csi_dispatch', 'm', (1, 0), False), 'trailing empty parameter'))):
            outs = F.step(es, script)
            got = [[e for e in o[1] if e[0] == 'csi_dispatch'] for o in outs]
            if script.count('[') > 1:
                got = [g[-1:] for g in got]          # the dispatch of the last sequence of the script
            ok = bool(outs) and all(g == [want] for g in got) and all(o[0] == F.sites.index(ground) for o in outs)
            n += 1
            chk.instance('R-FSM', name, 'CSI data witness: %s' % what, ok, detail='script ESC %s -> %s' % (''.join(script), got),
                         what='ESC %s must dispatch %s and return to ground, extracted %s' % (''.join(script), want, got))
    chk.floor('CSI data-path clauses', n, (4 if only == 'params' else 5) if only_modes else 10)


def _sname(s):
    return '%s(%s)' % s if isinstance(s, tuple) else s


def compare(F, rstate, c, utf8, nxt, evs, outs, tables, ground_site):
    if not outs:
        return False, 'no outcome extracted (the coroutine does not suspend again)'
    problems = []
    for (nsite, oevs, yd) in outs:
        if nsite in ('ERROR', 'RETURNED'):
            problems.append('coroutine %s %s' % (nsite, oevs))
            continue
        site = F.sites[nsite]
        # next-state agreement: ground <-> the ground site; non-ground -> not the ground site
        if nxt == G and site != ground_site:
            problems.append('does not return to the ground state (suspends at site %d)' % nsite)
        if nxt != G and site == ground_site:
            problems.append('returns to the ground state, expected %s' % _sname(nxt))
        if nxt == G and yd != 'Some(true)':
            problems.append('ground yield reports %s' % yd)
        alts = expand_events(oevs, tables)
        if evs == '*':
            continue
        for alt in alts:
            if evs == 'csi':
                calls = [e for e in alt if e[0] == 'csi_dispatch']
                rest = [e for e in alt if e[0] != 'csi_dispatch']
                if len(calls) != 1 or rest:
                    problems.append('a final byte must dispatch exactly once, got %s' % (alt,))
                elif calls[0][1] != c:
                    problems.append('dispatches final %r instead of %r' % (calls[0][1], c))
            elif evs == 'osc':
                names = [e[0] for e in alt]
                if any(n not in ('set_icon_name', 'set_title') for n in names):
                    problems.append('unexpected listener call while finishing an OSC: %s' % (alt,))
            else:
                want = tuple(evs)
                got = tuple(e if len(e) > 1 else (e[0],) for e in alt)
                if [g[0] for g in got] != [w[0] for w in want]:
                    problems.append('listener calls %s, documented %s' % (_calls(got), _calls(want)))
                else:
                    for g, w in zip(got, want):
                        if len(w) > 1 and tuple(g[1:]) != tuple(w[1:]):
                            problems.append('arguments %s, documented %s' % (g, w))
    if evs == 'osc':
        shapes = {tuple(e[0] for e in alt if e[0] not in ('<-', 'push', 'strpush')) for (nsite, oevs, yd) in outs for alt in expand_events(oevs, tables)}
        need = {(), ('set_icon_name',), ('set_title',), ('set_icon_name', 'set_title')}
        if shapes != need:
            problems.append('OSC finish outcomes %s, documented (by code 0/1/2/other) %s' % (sorted(shapes), sorted(need)))
    if problems:
        return False, '; '.join(sorted(set(problems)))
    return True, 'next %s, events as documented (%d outcome(s))' % (_sname(nxt), len(outs))


def _calls(evs):
    return ' + '.join('%s(%s)' % (e[0], ', '.join(repr(a) for a in e[1:])) for e in evs) or 'nothing'


# ---------------------------------------------------------------------------
def feed_wrapper(ctx, chk, special, prop='C03'):
    """the plain-text fast path of Parser::feed composed with the coroutine: with the flag set a
    non-special character goes to draw exactly once and nothing is sent; a special character (or any
    character while the flag is clear) is sent exactly once; the flag is then what the coroutine
    reported"""
    from . import inv
    from .engine import Budget, Engine, State
    from .values import RefV, StructV
    prog = ctx.prog
    f = "parser::Parser::<'a, T>::feed"
    body = prog.bodies.get(f)
    if body is None:
        chk.instance('R-FSM', 'Parser::feed', 'exists', False, what='Parser::feed not found', undischarged=True)
        return
    n = 0
    # which field of Parser is the "taking plain text" state, and which of its two values means "plain"?
    # Found by behaviour, not by name: the field (a bool or a two-variant enum without data) for which
    # one value makes feed("a") draw the character and the other makes it send it
    from .values import EnumV

    def two_valued(ty):
        if ty == 'bool':
            return [BoolV(True), BoolV(False)]
        a_ = prog.adts.get(ty)
        if a_ and a_.get('kind') == 'enum' and len(a_['variants']) == 2 and all(not v_['fields'] for v_ in a_['variants']):
            return [EnumV(ty, {0}, {}), EnumV(ty, {1}, {})]
        return None

    def probe(field, val, ch):
        eng = Engine(prog, ctx.eff, config=dict(max_steps=100000, check_inv=False))
        eng.contract = lambda callee, caller: callee.startswith(fsm.LP) or callee.startswith('parser_listener::ParserListener::')
        st = State()
        inv.screen_init(eng, st)
        root = ('H', 'parser')
        st.htypes[root] = body.locals[1]['ty'].replace('&mut ', '')
        st.store[root] = StructV('parser::Parser', {field: val})
        sent = []
        eng.hooks = [lambda kind, st_, fr, bi, *a: sent.append(1) if kind == 'send' else None]
        try:
            res = eng.exec_body(st, f, [RefV((root, ()), True), StrV(ch)])
        except Exception:
            return None
        drew = any(ev[0] == 'listener' for (s_, r_) in res for ev in s_.event_list())
        return 'draw' if drew and not sent else ('send' if sent and not drew else None)
    padt = prog.adts.get('parser::Parser') or {}
    flag_field = None
    for fd in (padt.get('variants') or [{}])[0].get('fields', []):
        vals = two_valued(fd.get('ty', ''))
        if not vals:
            continue
        got = [probe(fd['name'], v_, 'a') for v_ in vals]
        if sorted(x or '' for x in got) == ['draw', 'send']:
            flag_field = (fd['name'], vals[got.index('draw')], vals[got.index('send')])
            break
    if flag_field is None:
        chk.instance('R-FSM', 'Parser::feed', 'plain-text state found', False, undischarged=True,
                     what='no two-valued field of Parser decides between drawing a plain character and sending it to the recogniser')
        return
    for c in sorted(set(CLASS_REPS)):
        for flag in (True, False):
            eng = Engine(prog, ctx.eff, config=dict(max_steps=100000, check_inv=False))
            eng.contract = lambda callee, caller: callee.startswith(fsm.LP) or callee.startswith('parser_listener::ParserListener::')
            st = State()
            inv.screen_init(eng, st)
            root = ('H', 'parser')
            st.htypes[root] = body.locals[1]['ty'].replace('&mut ', '')
            st.store[root] = StructV('parser::Parser', {flag_field[0]: flag_field[1] if flag else flag_field[2]})
            sends = []

            def hook(kind, st_, fr, bi, *a):
                if kind == 'send':
                    callee, args, t = a
                    v = args[1]
                    sends.append(v.known if isinstance(v, StrV) else '?')
                return None
            eng.hooks = [hook]
            eng.entry_name = 'Parser::feed(%r) flag=%s' % (c, flag)
            try:
                res = eng.exec_body(st, f, [RefV((root, ()), True), StrV(c)])
            except Budget as e:
                chk.instance('R-FSM', 'Parser::feed', 'char %r flag=%s' % (c, flag), False, detail=str(e), undischarged=True,
                             what='analysis of Parser::feed did not complete')
                continue
            probs = []
            for (s, ret) in res:
                draws = [ev for ev in s.event_list() if ev[0] == 'listener']
                dnames = []
                for ev in draws:
                    a = ev[2][1] if len(ev[2]) > 1 else None
                    while isinstance(a, RefV):
                        a = eng.read(s, a.path)
                    dnames.append((ev[1].split('::')[-1], a.known if isinstance(a, StrV) else '?'))
                is_special = c in special
                if flag and not is_special:
                    if dnames != [('draw', c)] or sends:
                        probs.append('plain character must be drawn exactly once and not sent: draws %s, sends %s' % (dnames, sends))
                else:
                    if dnames or sends != [c]:
                        probs.append('character must be sent to the recogniser exactly once: draws %s, sends %s' % (dnames, sends))
            if len(res) < 1:
                probs.append('no exit path')
            n += 1
            chk.instance('R-FSM', 'Parser::feed', 'char %r flag=%s' % (c, flag), not probs, detail='; '.join(probs) or 'as documented',
                         span=body.span, what='fast path: ' + '; '.join(probs))
    chk.floor('feed wrapper cases', n, 100)


def run(ctx, chk):
    chk.assume('A-GEN', 'A-LIB', 'A-TOOL')
    special = check_constants(ctx, chk)
    tables = dispatch_tables(ctx, chk)
    F = run_fsm(ctx, chk, tables)
    feed_wrapper(ctx, chk, SPECIAL)
    # D4 R-CAP is decided with C01 (same obligations); repeat the parameter-push instances here
    param_fidelity(ctx, chk)
    # both parser modes: what the byte front end hands to the recogniser is the input's characters
    # (8-bit mode: byte b as the code point b, so that the C1 introducers / terminators 0x9b 0x9d 0x9c
    # are recognised; UTF-8 mode: streaming decode) - the clauses of C02 / C11
    from .rules_c02 import r_stream
    r_stream(ctx, chk, 'C03')
    if ctx.tier == 'thorough' and ctx.test_prog is not None:
        sibling(ctx, chk, F)
    chk.trust('generator-rs send/yield_ contract (A-GEN)', 'string summaries (eq, contains, chars, parse)', 'rustc MIR + const evaluation')


def param_fidelity(ctx, chk, fsm=False, prop=None, finals=None, esc=None, basic=None):
    """R-CAP: the numbers typed in a control sequence reach the listener as typed - empty = 0, the
    parsed number itself capped at 9999 (not a narrowed copy), an unparsable run saturating.  Every
    property about an operation with a numeric parameter (counts, coordinates, selectors, mode numbers)
    rests on this when the operation arrives through the parser, so their checks include it."""
    pr = ctx.parser_run()
    agg = {}
    for p in pr.get('pushes', []):
        k = (p['func'], p['ord'])
        a = agg.setdefault(k, dict(ok=True, detail=p['detail'], span=p['span']))
        if not p['in_range']:
            a['ok'] = False
            a['detail'] = p['detail']
    for (f, o), a in sorted(agg.items()):
        chk.instance('R-CAP', short(f), 'push#%d:cap' % o, a['ok'], detail=a['detail'], span=a['span'],
                     what='CSI parameter: empty = 0, saturating at 9999: ' + a['detail'])
    chk.floor('CSI parameter pushes', len(agg), 1)
    if fsm:
        # .. and nothing of an abandoned sequence (its parameters, its digits, its private marker) is
        # carried into the next one: witnesses through the extracted automaton
        # .. and the dispatch rows of this property's own finals (which method, which parameter goes
        # where, for 0..3 parameters, private or not)
        tables = dispatch_tables(ctx, chk, prop or 'C03', only=set(finals) if finals else None, quiet=not finals,
                                 esc=set(esc or ()), basic=set(basic or ()))
        run_fsm(ctx, chk, tables, prop=prop or 'C03', focus='params')


def sibling(ctx, chk, F):
    """thorough tier: the cfg(test) copy of the recogniser (the one the unit tests execute) is
    extracted the same way and compared transition by transition with the shipping copy; a
    divergence is reported as information (the property speaks about the shipping copy)"""
    try:
        F2 = fsm.FsmExtractor(ctx, prog=ctx.test_prog)
    except Exception as e:
        chk.cov['sibling_divergence'] = 'extraction of the cfg(test) copy failed: %s' % e
        return
    div = []
    n = 0
    if len(F.sites) != len(F2.sites):
        div.append('different number of suspension points: %d vs %d' % (len(F.sites), len(F2.sites)))
    else:
        for i, (s1, s2) in enumerate(zip(F.sites, F2.sites)):
            for c in CLASS_REPS:
                for utf8 in (True, False):
                    o1 = {(a, tuple(e for e in b if e[0] != 'push'), d) for (a, b, d) in F.step(s1, [c], utf8=utf8)}
                    o2 = {(a, tuple(e for e in b if e[0] != 'push'), d) for (a, b, d) in F2.step(s2, [c], utf8=utf8)}
                    n += 1
                    if _norm(o1) != _norm(o2):
                        div.append('site %d on %r (%s): shipping %s / test copy %s' % (i, c, 'utf8' if utf8 else '8-bit', sorted(o1, key=str)[:1], sorted(o2, key=str)[:1]))
    chk.cov['sibling_transitions_compared'] = n
    chk.cov['sibling_divergence'] = div[:20] if div else 'none: the cfg(test) copy has the same transition relation as the shipping copy'


def _norm(outs):
    def strip(e):
        return tuple(x if not (isinstance(x, tuple) and x and x[0] in ('str?', 'coll?', 'vec?')) else x[0] for x in e)
    return {(a, tuple(strip(e) for e in b), d) for (a, b, d) in outs}
