"""Program model (engine E1): bodies, CFG utilities, call graph, constants."""
import json
import re


class Body:
    def __init__(self, j):
        self.j = j
        self.path = j['path']
        self.kind = j['kind']
        self.parent = j['parent']
        self.blocks = j['blocks']
        self.locals = j['locals']
        self.arg_count = j['arg_count']
        self.span = j['span']
        self.names = {}
        for d in j['debug']:
            if not d['place']['proj']:
                self.names.setdefault(d['place']['local'], d['name'])
        self._loops = None
        self._succ = None

    # ---- CFG ----------------------------------------------------------
    def succs(self, bi):
        if self._succ is None:
            self._succ = [self._succs(i) for i in range(len(self.blocks))]
        return self._succ[bi]

    def _succs(self, bi):
        t = self.blocks[bi]['term']
        k = t['k']
        if k == 'goto':
            return [t['target']]
        if k == 'switch':
            out = [x[1] for x in t['targets']] + [t['otherwise']]
            seen = []
            for o in out:
                if o not in seen:
                    seen.append(o)
            return seen
        if k in ('call', 'drop', 'assert'):
            return [t['target']] if t['target'] is not None else []
        return []

    def reachable_blocks(self):
        seen = set()
        work = [0]
        while work:
            b = work.pop()
            if b in seen:
                continue
            seen.add(b)
            work.extend(self.succs(b))
        return seen

    def loops(self):
        """natural loops: dict head -> set(blocks); back edges: set((src, head))"""
        if self._loops is not None:
            return self._loops
        n = len(self.blocks)
        reach = self.reachable_blocks()
        # dominators (iterative)
        order = []
        seen = set()

        def dfs(b):
            stack = [(b, iter(self.succs(b)))]
            seen.add(b)
            while stack:
                node, it = stack[-1]
                adv = False
                for s in it:
                    if s not in seen:
                        seen.add(s)
                        stack.append((s, iter(self.succs(s))))
                        adv = True
                        break
                if not adv:
                    order.append(node)
                    stack.pop()
        dfs(0)
        rpo = list(reversed(order))
        idx = {b: i for i, b in enumerate(rpo)}
        preds = {b: [] for b in reach}
        for b in reach:
            for s in self.succs(b):
                preds[s].append(b)
        idom = {0: 0}
        changed = True
        while changed:
            changed = False
            for b in rpo[1:]:
                ps = [p for p in preds[b] if p in idom]
                if not ps:
                    continue
                new = ps[0]
                for p in ps[1:]:
                    a, c = p, new
                    while a != c:
                        while idx[a] > idx[c]:
                            a = idom[a]
                        while idx[c] > idx[a]:
                            c = idom[c]
                    new = a
                if idom.get(b) != new:
                    idom[b] = new
                    changed = True

        def dominates(a, b):
            while True:
                if a == b:
                    return True
                if b == 0 or b not in idom:
                    return False
                nb = idom[b]
                if nb == b:
                    return False
                b = nb
        back = set()
        for b in reach:
            for s in self.succs(b):
                if dominates(s, b):
                    back.add((b, s))
        loops = {}
        for (src, head) in back:
            body = loops.setdefault(head, {head})
            work = [src]
            while work:
                x = work.pop()
                if x in body:
                    continue
                body.add(x)
                work.extend(preds[x])
        self._loops = (loops, back, idom, preds)
        self.dominates = dominates
        return self._loops

    def local_name(self, i):
        return self.names.get(i, '_%d' % i)


class Program:
    def __init__(self, facts_path):
        self.facts_path = facts_path
        self.j = json.load(open(facts_path))
        self.bodies = {b['path']: Body(b) for b in self.j['bodies']}
        self.consts = {c['path']: c for c in self.j['consts']}
        self.adts = {a['path']: a for a in self.j['adts']}
        self.traits = {t['path']: t for t in self.j['traits']}
        self.cfg_test = self.j['cfg_test']
        self.closures_of = {}
        for p, b in self.bodies.items():
            if b.kind == 'closure':
                self.closures_of.setdefault(b.parent, []).append(p)

    def const(self, path):
        return self.consts[path]['value']

    def fingerprint(self, path):
        """hash of a body modulo source positions: two closures with the same code get the same
        fingerprint (used to value-number `iter().any(|m| *m == C)` written twice)"""
        fp = self._fp.get(path) if hasattr(self, '_fp') else None
        if fp is not None:
            return fp
        if not hasattr(self, '_fp'):
            self._fp = {}
        b = self.bodies.get(path)
        if b is None:
            return path
        import hashlib

        def strip(o):
            if isinstance(o, dict):
                return {k: strip(v) for k, v in sorted(o.items()) if k not in ('span', 'fn_span', 'closure', 'ty')}
            if isinstance(o, list):
                return [strip(v) for v in o]
            return o
        h = hashlib.sha1(json.dumps([strip(b.blocks), b.arg_count, [l['ty'] for l in b.locals[2:b.arg_count + 1]]], sort_keys=True).encode()).hexdigest()[:16]
        self._fp[path] = 'fp:' + h
        return self._fp[path]

    def body(self, path):
        return self.bodies.get(path)

    # binding of the generic listener T := Screen
    LISTENER_IMPL = '<screen::Screen as parser_listener::ParserListener>::'

    def resolve_callee(self, fn, bind_listener=True):
        """fn: the 'fn' json of a call's func operand -> (kind, path)
        kind: 'local' (a body of this crate), 'lib'"""
        if fn is None:
            return ('indirect', None)
        r = fn.get('resolved')
        if r and r in self.bodies:
            return ('local', r)
        p = fn['path']
        if r is None and fn.get('trait') == 'parser_listener::ParserListener' and bind_listener:
            name = p.split('::')[-1]
            q = self.LISTENER_IMPL + name
            if q in self.bodies:
                return ('local', q)
            if p in self.bodies:      # provided method
                return ('local', p)
        if p in self.bodies and (r is None or r == p):
            return ('local', p)
        return ('lib', r or p)

    def calls(self, body):
        for bi, bb in enumerate(body.blocks):
            if bb['cleanup']:
                continue
            t = bb['term']
            if t['k'] == 'call':
                yield bi, t

    def listener_methods(self):
        t = self.traits['parser_listener::ParserListener']
        return [(i['name'], i['has_default']) for i in t['items']]


def short(path):
    """short display name of a def path"""
    m = re.match(r'<screen::Screen as parser_listener::ParserListener>::(.*)', path)
    if m:
        return 'Screen::' + m.group(1)
    return path
