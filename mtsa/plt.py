"""Engine E7: piecewise-linear term equivalence by enumerating orderings.

Values produced by E4 are symbols whose definitions (min / max / saturating_sub /
add / sub of other values) are recorded in the state.  Two such terms are
compared by case-splitting on the undecided comparison atoms of their min / max /
saturating_sub nodes ("a finite set of orderings"): in every feasible ordering
both terms reduce to `symbol + constant` and are compared in the zone domain.
No solver, no run of the program.
"""
from .values import NumV
from .zone import INF


def reeval(eng, st, v, depth=0):
    """re-evaluate a value under the (possibly refined) state: min/max/satsub whose ordering
    is now decided collapse to one operand"""
    if not isinstance(v, NumV) or v.sym is None or depth > 12:
        return v
    d = st.vn.get(('def', v.sym))
    if not d:
        return v
    op = d[0]
    if op not in ('min', 'max', 'satsub', 'add', 'sub'):
        return v
    a = reeval(eng, st, d[1], depth + 1)
    b = reeval(eng, st, d[2], depth + 1)
    r = None
    if op == 'min':
        if eng.prove_le(st, a, b) is True:
            r = a
        elif eng.prove_le(st, b, a) is True:
            r = b
    elif op == 'max':
        if eng.prove_le(st, a, b) is True:
            r = b
        elif eng.prove_le(st, b, a) is True:
            r = a
    elif op == 'satsub':
        if eng.prove_le(st, b, a) is True:
            r = eng.num_sub(st, a, b, v.ty)
        elif eng.prove_le(st, a, b) is True:
            r = NumV(None, 0, v.ty)
    elif op == 'add':
        r = eng.num_add(st, a, b, v.ty)
    elif op == 'sub':
        r = eng.num_sub(st, a, b, v.ty)
    if r is None:
        return v
    return NumV(r.sym, r.k + v.k, v.ty)


def undecided_atoms(eng, st, v, out, depth=0):
    if not isinstance(v, NumV) or v.sym is None or depth > 12:
        return
    d = st.vn.get(('def', v.sym))
    if not d or d[0] not in ('min', 'max', 'satsub', 'add', 'sub'):
        return
    a, b = d[1], d[2]
    undecided_atoms(eng, st, a, out, depth + 1)
    undecided_atoms(eng, st, b, out, depth + 1)
    if d[0] in ('min', 'max', 'satsub'):
        a2, b2 = reeval(eng, st, a), reeval(eng, st, b)
        if eng.prove_le(st, a2, b2) is None:
            out.append((a2, b2))


def prove_rel(eng, st, op, v, ref_builder, max_depth=5):
    """prove  v `op` ref_builder(state)  in every feasible ordering of the undecided atoms.
    returns (ok, witness_description)"""
    def rec(s, depth):
        if s.zone.bottom:
            return True, ''
        vv = reeval(eng, s, v)
        r = ref_builder(s)
        rr = reeval(eng, s, r)
        res = eng.prove_cmp(s, op, vv, rr)
        if res is True:
            return True, ''
        atoms = []
        undecided_atoms(eng, s, vv, atoms)
        undecided_atoms(eng, s, rr, atoms)
        if res is False and not atoms:
            return False, 'refuted: %r vs %r' % (vv, rr)
        if not atoms or depth >= max_depth:
            return False, 'cannot show %r %s %r (bounds %s vs %s)' % (vv, op, rr, eng.bounds(s, vv), eng.bounds(s, rr))
        a, b = atoms[0]
        s1 = s.fork()
        s2 = s.fork()
        out = []
        if eng.assume_le(s1, a, b) and not s1.zone.bottom:
            ok, w = rec(s1, depth + 1)
            if not ok:
                return False, w + ' [case %r <= %r]' % (a, b)
        if eng.assume_cmp(s2, 'gt', a, b) and not s2.zone.bottom:
            ok, w = rec(s2, depth + 1)
            if not ok:
                return False, w + ' [case %r > %r]' % (a, b)
        return True, ''
    return rec(st.fork(), 0)


def term_str(eng, st, v, depth=0):
    """readable canonical rendering of a value's definition tree"""
    from .values import symname
    if not isinstance(v, NumV):
        return repr(v)
    if v.sym is None:
        return str(v.k)
    d = st.vn.get(('def', v.sym))
    if not d or depth > 8 or d[0] not in ('min', 'max', 'satsub', 'add', 'sub'):
        base = symname(v.sym)
    else:
        base = '%s(%s, %s)' % (d[0], term_str(eng, st, d[1], depth + 1), term_str(eng, st, d[2], depth + 1))
    return base if v.k == 0 else '%s%+d' % (base, v.k)
