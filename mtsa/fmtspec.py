"""Decoder for the byte-coded template of `core::fmt::Arguments` (layout documented in
library/core/src/fmt/mod.rs of the toolchain in use): literal pieces and placeholders with their
formatting options.  Used to decide what a `format!` call can produce without running it."""


def decode(t):
    """-> list of ('lit', str) / ('arg', dict(index, zero, width, precision, fill, alt)) or None"""
    if not isinstance(t, (bytes, bytearray)):
        return None
    out = []
    i = 0
    nxt = 0
    n = len(t)
    try:
        while i < n:
            b = t[i]
            i += 1
            if b == 0:
                break                      # end of template
            if b < 0x80:
                out.append(('lit', bytes(t[i:i + b]).decode('utf-8')))
                i += b
            elif b == 0x80:
                ln = t[i] | (t[i + 1] << 8)
                i += 2
                out.append(('lit', bytes(t[i:i + ln]).decode('utf-8')))
                i += ln
            elif b >= 0xC0:
                flags = None
                width = prec = None
                idx = None
                if b & 1:
                    flags = t[i] | (t[i + 1] << 8) | (t[i + 2] << 16) | (t[i + 3] << 24)
                    i += 4
                if b & 2:
                    width = t[i] | (t[i + 1] << 8)
                    i += 2
                if b & 4:
                    prec = t[i] | (t[i + 1] << 8)
                    i += 2
                if b & 8:
                    idx = t[i] | (t[i + 1] << 8)
                    i += 2
                if b & 0x30:
                    return None            # indirect width / precision: not decided
                if idx is None:
                    idx = nxt
                nxt = idx + 1
                d = dict(index=idx, zero=False, width=None, precision=None, fill=' ', alt=False, plus=False, left=False)
                if flags is not None:
                    d['fill'] = chr(flags & 0x1fffff)
                    d['plus'] = bool(flags & (1 << 21))
                    d['left'] = ((flags >> 29) & 3) == 0
                    d['alt'] = bool(flags & (1 << 23))
                    d['zero'] = bool(flags & (1 << 24))
                    if flags & (1 << 27):
                        d['width'] = width if width is not None else 0
                    if flags & (1 << 28):
                        d['precision'] = prec if prec is not None else 0
                out.append(('arg', d))
            else:
                return None
    except (IndexError, UnicodeDecodeError):
        return None
    return out


def render_hex(pieces, items):
    """render the template for constant integer arguments formatted with LowerHex; None if something
    else is involved.  items: tuple of (kind, value) with kind 'lower_hex' and value an int"""
    if pieces is None:
        return None
    s = ''
    for p in pieces:
        if p[0] == 'lit':
            s += p[1]
            continue
        d = p[1]
        if d['index'] >= len(items):
            return None
        kind, val = items[d['index']]
        if kind != 'lower_hex' or not isinstance(val, int) or val < 0 or d['alt'] or d['plus'] or d['precision'] is not None:
            return None
        h = '%x' % val
        w = d['width'] or 0
        if len(h) < w:
            if d['zero']:
                h = '0' * (w - len(h)) + h
            elif d['left']:
                h = h + d['fill'] * (w - len(h))
            else:
                h = d['fill'] * (w - len(h)) + h
        s += h
    return s


def hex_digits_exact(pieces, bounds):
    """(ok, why): does every rendering consist of exactly 6 lower-case hex digits?  bounds: per argument
    (kind, lo, hi).  Decided from the zero-padded widths: a placeholder {:0Wx} with value < 16^W gives
    exactly W digits"""
    if pieces is None:
        return False, 'format template could not be decoded'
    total = 0
    for p in pieces:
        if p[0] == 'lit':
            if not all(c in '0123456789abcdef' for c in p[1]):
                return False, 'literal text %r in the colour string' % p[1]
            total += len(p[1])
            continue
        d = p[1]
        if d['index'] >= len(bounds):
            return False, 'placeholder without argument'
        kind, lo, hi = bounds[d['index']]
        if kind != 'lower_hex':
            return False, 'argument formatted with %s, not lower hex' % kind
        w = d['width']
        if not w or not d['zero'] or d['alt'] or d['plus'] or d['precision'] is not None:
            return False, 'placeholder is not a zero-padded fixed-width hex field'
        if lo is None or hi is None or lo < 0 or hi >= 16 ** w:
            return False, 'a component in [%s, %s] does not fit %d hex digits' % (lo, hi, w)
        total += w
    if total != 6:
        return False, 'the colour string has %d digits, not 6' % total
    return True, 'zero-padded hex fields of total width 6, every component within its field'
