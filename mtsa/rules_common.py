"""Helpers shared by the Screen rules."""
from . import inv, plt, runner
from .model import short
from .values import CollV, EnumV, NumV, StrV, StructV

LP = runner.LP

DECOM, DECAWM, DECSCNM, DECTCEM, DECCOLM, IRM, LNM = 6 << 5, 7 << 5, 5 << 5, 25 << 5, 3 << 5, 4, 20


def ep(name):
    return LP + name


def get(eng, st, *names):
    return inv._get(eng, st, *names)


def entry(st, name):
    return st.vn.get(('entry', name))


def arg(st, j):
    return st.vn.get(('entry-arg', j))


def opt_payload(v):
    if isinstance(v, EnumV) and v.tags == {1}:
        p = v.payload.get(1)
        return p.fields.get('0') if p else None
    return None


def norm_count(eng, st, a):
    """documented normalisation of a count parameter: absent or 0 -> 1"""
    if isinstance(a, EnumV) and a.tags == {0}:
        return NumV(None, 1, 'u32')
    p = opt_payload(a)
    if isinstance(p, NumV):
        lo, hi = eng.bounds(st, p)
        if lo == hi == 0:
            return NumV(None, 1, 'u32')
        if lo >= 1:
            return p
    return None


def mode_fact(eng, st, const):
    """True / False / None: does the mode set contain `const` in this state (as decided on the path)"""
    m = get(eng, st, 'mode')
    if isinstance(m, CollV):
        if m.known is not None:
            return any(isinstance(x, NumV) and x.sym is None and x.k == const for x in m.known)
        return st.vn.get(('fact', ('contains', m.key(), NumV(None, const, 'u32').key())))
    return None


def margins_tb(eng, st):
    """(top, bottom) NumV of the *entry* margins partition, or None when margins = None"""
    if st.vn.get(('entry', 'margins')) == 'none':
        return None
    t, b = entry(st, 'top'), entry(st, 'bottom')
    if t is None:
        return None
    return (t, b)


def each_final(sr, func):
    for r in sr['results'].get(func, []):
        for (st, ret) in r.finals:
            yield r, st, ret


def write_events(st):
    """Screen field paths assigned on this path (from the event log)"""
    out = []
    for ev in st.event_list():
        if ev[0] == 'w':
            out.append(ev)
    return out
