"""The Screen invariant INV (DESIGN.md section 4): initial abstract Screen, check, havoc."""
import itertools

from .values import (BoolV, CollV, EnumV, NumV, OpaqueV, StrV, StructV, fresh_sym)
from .zone import Z

S_ROOT = ('H', 'S')
_c = itertools.count(1)


def _num(eng, st, ty, lo, hi, name):
    return eng.fresh_num(st, ty, lo, hi, name=name)


def mk_margins(eng, st, lines, tag='either'):
    top = _num(eng, st, 'u32', 0, None, 'S.margins.top')
    bottom = _num(eng, st, 'u32', 0, None, 'S.margins.bottom')
    # top < bottom <= lines - 1
    eng.assume_cmp(st, 'lt', top, bottom)
    eng.assume_le(st, bottom, NumV(lines.sym, lines.k - 1, 'u32'))
    pay = StructV('Some', {'0': StructV('screen::Margins', {'top': top, 'bottom': bottom})})
    tags = {'either': {0, 1}, 'none': {0}, 'some': {1}}[tag]
    return EnumV('std::option::Option<screen::Margins>', tags, {1: pay})


def mk_saved_columns(eng, st):
    v = _num(eng, st, 'u32', 1, eng.cfg['dim_max'], 'S.saved_columns')
    return EnumV('std::option::Option<u32>', {0, 1}, {1: StructV('Some', {'0': v})})


def mk_attr(eng, st, name='S.cursor.attr'):
    return StructV('screen::CharOpts', {
        'data': StrV(' ', prov=('inv', 'blank')),
        'fg': StrV(None, prov=('inv', 'colour'), oid=next(_c)),
        'bg': StrV(None, prov=('inv', 'colour'), oid=next(_c)),
    }, prov=('cursor.attr',))


def screen_init(eng, st, margins='either'):
    dm = eng.cfg['dim_max']
    columns = _num(eng, st, 'u32', 1, dm, 'S.columns')
    lines = _num(eng, st, 'u32', 1, dm, 'S.lines')
    x = _num(eng, st, 'u32', 0, None, 'S.cursor.x')
    y = _num(eng, st, 'u32', 0, None, 'S.cursor.y')
    eng.assume_le(st, x, columns)
    eng.assume_le(st, y, NumV(lines.sym, -1, 'u32'))
    cursor = StructV('screen::Cursor', {'x': x, 'y': y, 'attr': mk_attr(eng, st)})
    scr = StructV('screen::Screen', {
        'columns': columns,
        'lines': lines,
        'cursor': cursor,
        'margins': mk_margins(eng, st, lines, margins),
        'saved_columns': mk_saved_columns(eng, st),
        'buffer': CollV('map', 'std::collections::HashMap<u32, std::collections::HashMap<u32, screen::CharOpts>>', 'S.buffer', prov=('S', 'buffer')),
        'dirty': CollV('set', 'std::collections::HashSet<u32>', 'S.dirty', prov=('S', 'dirty')),
        'mode': CollV('set', 'std::collections::HashSet<u32>', 'S.mode', prov=('S', 'mode')),
        'tabstops': CollV('set', 'std::collections::HashSet<u32>', 'S.tabstops', prov=('S', 'tabstops')),
        'savepoints': CollV('vec', 'std::vec::Vec<screen::Savepoint>', 'S.savepoints', prov=('S', 'savepoints'),
                            length=_num(eng, st, 'usize', 0, 2**40, 'S.savepoints.len')),
    })
    st.store[S_ROOT] = scr
    # handles on the entry values, for rules that relate exit state to entry state
    st.vn[('entry', 'columns')] = columns
    st.vn[('entry', 'lines')] = lines
    st.vn[('entry', 'x')] = x
    st.vn[('entry', 'y')] = y
    m = scr.fields['margins']
    if 1 in m.tags:
        mm = m.payload[1].fields['0']
        st.vn[('entry', 'top')] = mm.fields['top']
        st.vn[('entry', 'bottom')] = mm.fields['bottom']
    st.vn[('entry', 'margins')] = margins
    st.vn[('entry', 'saved_columns')] = scr.fields['saved_columns']
    return scr


# clause name -> (support paths, checker)
def _get(eng, st, *names):
    path = (S_ROOT, tuple(('f', n, _FT.get(names[:i + 1], '?')) for i, n in enumerate(names)))
    return eng.read(st, path)


_FT = {
    ('columns',): 'u32', ('lines',): 'u32', ('cursor',): 'screen::Cursor', ('cursor', 'x'): 'u32',
    ('cursor', 'y'): 'u32', ('margins',): 'std::option::Option<screen::Margins>',
    ('saved_columns',): 'std::option::Option<u32>', ('cursor', 'attr'): 'screen::CharOpts',
    ('cursor', 'hidden'): 'bool',
}

CLAUSES = {
    'I1.columns': {('columns',)},
    'I1.lines': {('lines',)},
    'I2.x': {('cursor', 'x'), ('columns',)},
    'I2.y': {('cursor', 'y'), ('lines',)},
    'I3.margins': {('margins',), ('lines',)},
    'I6.saved_columns': {('saved_columns',)},
}


def _touches(support, written):
    for s in support:
        for w in written:
            n = min(len(s), len(w))
            if tuple(s[:n]) == tuple(w[:n]):
                return True
    return False


def relevant(written):
    if written is None:
        return list(CLAUSES)
    return [c for c, sup in CLAUSES.items() if _touches(sup, written)]


def _bounds_txt(eng, st, v):
    if isinstance(v, NumV):
        lo, hi = eng.bounds(st, v)
        return '%r in [%s, %s]' % (v, lo, hi)
    return repr(v)


def check_clause(eng, st, name):
    dm = eng.cfg['dim_max']
    if name in ('I1.columns', 'I1.lines'):
        v = _get(eng, st, name.split('.')[1])
        if not isinstance(v, NumV):
            return False, 'not numeric: %r' % (v,)
        lo, hi = eng.bounds(st, v)
        return (lo >= 1 and hi <= dm), _bounds_txt(eng, st, v)
    if name == 'I2.x':
        x = _get(eng, st, 'cursor', 'x')
        c = _get(eng, st, 'columns')
        if not (isinstance(x, NumV) and isinstance(c, NumV)):
            return False, 'not numeric'
        ok = eng.prove_le(st, NumV(None, 0, 'u32'), x) is True and eng.prove_le(st, x, c) is True
        return ok, 'need 0 <= cursor.x <= columns; %s; %s' % (_bounds_txt(eng, st, x), _bounds_txt(eng, st, c))
    if name == 'I2.y':
        y = _get(eng, st, 'cursor', 'y')
        l = _get(eng, st, 'lines')
        if not (isinstance(y, NumV) and isinstance(l, NumV)):
            return False, 'not numeric'
        ok = eng.prove_le(st, NumV(None, 0, 'u32'), y) is True and eng.prove_cmp(st, 'lt', y, l) is True
        return ok, 'need 0 <= cursor.y < lines; %s; %s' % (_bounds_txt(eng, st, y), _bounds_txt(eng, st, l))
    if name == 'I3.margins':
        m = _get(eng, st, 'margins')
        l = _get(eng, st, 'lines')
        if not isinstance(m, EnumV):
            return False, 'margins unknown'
        if 1 not in m.tags:
            return True, 'margins = None'
        p = m.payload.get(1)
        mm = p.fields.get('0') if p else None
        if not isinstance(mm, StructV) or 'top' not in mm.fields or 'bottom' not in mm.fields:
            return False, 'margins payload unknown'
        top, bottom = mm.fields['top'], mm.fields['bottom']
        ok = (eng.prove_le(st, NumV(None, 0, 'u32'), top) is True and eng.prove_cmp(st, 'lt', top, bottom) is True
              and eng.prove_cmp(st, 'lt', bottom, l) is True)
        return ok, 'need 0 <= top < bottom <= lines-1; top %s; bottom %s; lines %s' % (
            _bounds_txt(eng, st, top), _bounds_txt(eng, st, bottom), _bounds_txt(eng, st, l))
    if name == 'I6.saved_columns':
        m = _get(eng, st, 'saved_columns')
        if not isinstance(m, EnumV):
            return False, 'saved_columns unknown'
        if 1 not in m.tags:
            return True, 'None'
        p = m.payload.get(1)
        v = p.fields.get('0') if p else None
        if not isinstance(v, NumV):
            return False, 'payload unknown'
        lo, hi = eng.bounds(st, v)
        return (lo >= 1 and hi <= dm), _bounds_txt(eng, st, v)
    raise KeyError(name)


def check_inv(eng, st, only_written=None):
    out = []
    for c in relevant(only_written):
        ok, facts = check_clause(eng, st, c)
        out.append((c, ok, facts))
    return out


def _written(path, written):
    return _touches({path}, written)


def havoc_screen(eng, st, written):
    """forget everything the loop may write, then assume INV on it"""
    scr = st.store.get(S_ROOT)
    if scr is None:
        return
    dm = eng.cfg['dim_max']

    def setf(names, v):
        path = (S_ROOT, tuple(('f', n, _FT.get(tuple(names[:i + 1]), '?')) for i, n in enumerate(names)))
        eng.write(st, path, v, log=False)

    if _written(('columns',), written):
        setf(['columns'], _num(eng, st, 'u32', 1, dm, 'S.columns~'))
    if _written(('lines',), written):
        setf(['lines'], _num(eng, st, 'u32', 1, dm, 'S.lines~'))
    columns = _get(eng, st, 'columns')
    lines = _get(eng, st, 'lines')
    if _written(('cursor', 'x'), written):
        setf(['cursor', 'x'], _num(eng, st, 'u32', 0, None, 'S.cursor.x~'))
    if _written(('cursor', 'y'), written):
        setf(['cursor', 'y'], _num(eng, st, 'u32', 0, None, 'S.cursor.y~'))
    if _written(('margins',), written):
        setf(['margins'], mk_margins(eng, st, lines))
    if _written(('saved_columns',), written):
        setf(['saved_columns'], mk_saved_columns(eng, st))
    # assume the relevant clauses
    for c in relevant(written):
        if c == 'I2.x':
            x = _get(eng, st, 'cursor', 'x')
            if isinstance(x, NumV) and isinstance(columns, NumV):
                eng.assume_le(st, x, columns)
        elif c == 'I2.y':
            y = _get(eng, st, 'cursor', 'y')
            if isinstance(y, NumV) and isinstance(lines, NumV):
                eng.assume_cmp(st, 'lt', y, lines)
        elif c == 'I3.margins':
            if not _written(('margins',), written):
                m = _get(eng, st, 'margins')
                if isinstance(m, EnumV) and 1 in m.tags:
                    mm = m.payload[1].fields.get('0')
                    if isinstance(mm, StructV) and isinstance(mm.fields.get('bottom'), NumV):
                        eng.assume_cmp(st, 'lt', mm.fields['bottom'], lines)
    # other written Screen state: unknown of its type
    scr = st.store[S_ROOT]
    for w in written:
        if not w:
            continue
        if any(_touches(sup, {w}) for sup in CLAUSES.values()) and w[0] in ('columns', 'lines', 'margins', 'saved_columns'):
            continue
        if w[:2] in (('cursor', 'x'), ('cursor', 'y')):
            continue
        if w == ('cursor',):
            # whole cursor replaced: x / y done above; attr and hidden forgotten
            setf(['cursor', 'attr'], mk_attr(eng, st))
            cur = _get(eng, st, 'cursor')
            if isinstance(cur, StructV) and 'hidden' in cur.fields:
                f = dict(cur.fields)
                del f['hidden']
                setf(['cursor'], StructV(cur.ty, f))
            continue
        # generic: drop the stored value so that it is re-materialised as unknown on next read
        cur = st.store[S_ROOT]
        node = cur
        parents = []
        ok = True
        for n in w[:-1]:
            if isinstance(node, StructV) and n in node.fields:
                parents.append((node, n))
                node = node.fields[n]
            else:
                ok = False
                break
        if not ok or not isinstance(node, StructV) or w[-1] not in node.fields:
            continue
        old = node.fields[w[-1]]
        if isinstance(old, CollV):
            new = CollV(old.kind, old.ty, old.cid, old.ver + 1000 + next(_c), None if old.kind != 'vec' else _num(eng, st, 'usize', 0, 2**40, 'len~'),
                        None, old.elem, old.prov)
        elif w == ('cursor', 'attr'):
            new = mk_attr(eng, st)
        else:
            f = dict(node.fields)
            del f[w[-1]]
            new = None
            node2 = StructV(node.ty, f, node.prov)
        if new is not None:
            node2 = node.with_field(w[-1], new)
        v = node2
        for (p, n) in reversed(parents):
            v = p.with_field(n, v)
        st.store[S_ROOT] = v
