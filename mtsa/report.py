"""Findings, known-findings matching, evidence files, exit protocol."""
import hashlib
import json
import os
import re
import time

VERIF = os.path.dirname(os.path.dirname(os.path.abspath(__file__)))
KNOWN_PATH = os.path.join(VERIF, 'known_findings.json')

ASSUMPTIONS = {
    'A-DIM': '1 <= lines, columns <= 2^24 at construction and for every resize argument',
    'A-ARG': 'numeric arguments of listener methods are absent or in 0..=9999; slices have any length',
    'A-GEN': 'generator 0.7.5: send(v) resumes the coroutine at its pending yield_, which returns Some(v)',
    'A-LIB': 'encoding_rs, unicode-width, unicode-normalization, std behave as documented; library functions outside the can-panic table do not panic',
    'A-IO': 'println! does not fail (stdout writable)',
    'A-STACK': 'the 32 KiB coroutine stack suffices (no stack-depth analysis)',
    'A-PUB': 'embedders do not write Screen public fields directly',
    'A-TOOL': 'nightly 1.97 front end (extraction) gives the code the same meaning as stable 1.95; MIR at opt-level 0',
}


class Finding:
    def __init__(self, prop, rule, func, construct, what, detail='', span=None, undischarged=False):
        self.prop, self.rule, self.func, self.construct = prop, rule, func, construct
        self.what, self.detail, self.span = what, detail, span
        self.undischarged = undischarged

    @property
    def key(self):
        return '%s/%s/%s' % (self.rule, self.func, self.construct)

    def loc(self):
        if self.span:
            return '%s:%s' % (self.span.get('file', '?'), self.span.get('line', '?'))
        return '?'

    def to_json(self):
        return dict(property=self.prop, key=self.key, rule=self.rule, function=self.func, construct=self.construct,
                    what=self.what, detail=self.detail, location=self.loc(),
                    verdict='UNDISCHARGED' if self.undischarged else 'VIOLATION')


def load_known():
    if not os.path.exists(KNOWN_PATH):
        return []
    return json.load(open(KNOWN_PATH)).get('findings', [])


class Check:
    """one run of the check of one property"""

    def __init__(self, prop, tier):
        self.prop, self.tier = prop, tier
        self.t0 = time.time()
        self.findings = []
        self.instances = []      # evaluated rule instances: dict(rule, function, construct, verdict, nontrivial)
        self.samples = []
        self.notes = []
        self.cov = {}
        self.trusted = set()
        self.assumptions = set()
        self.floors = []         # (name, measured, minimum)
        self.functions = set()

    # ---- recording ------------------------------------------------------
    def instance(self, rule, func, construct, ok, nontrivial=True, detail='', span=None, what=None, sample=False,
                 undischarged=False):
        self.instances.append((rule, func, construct, ok, nontrivial))
        self.functions.add(func)
        if not ok:
            self.findings.append(Finding(self.prop, rule, func, construct, what or ('%s fails at %s' % (rule, construct)),
                                         detail, span, undischarged))
        per_rule = sum(1 for x in self.samples if x['rule'] == rule)
        if sample or (not ok and len(self.samples) < 60) or per_rule < 3:
            self.samples.append(dict(rule=rule, function=func, construct=construct,
                                     location=('%s:%s' % (span.get('file'), span.get('line'))) if span else None,
                                     verdict='PASS' if ok else ('UNDISCHARGED' if undischarged else 'VIOLATION'),
                                     facts=detail[:300]))
        return ok

    def floor(self, name, measured, minimum):
        self.floors.append((name, measured, minimum))
        if measured < minimum:
            self.findings.append(Finding(self.prop, 'FLOOR', 'checker', name,
                                         'rule matched %d instances, fewer than the floor %d (vacuity guard)' % (measured, minimum),
                                         undischarged=True))

    def cover(self, name, have, need):
        """vacuity guard by entry point: the rule must have examined at least one instance in the
        execution of every method in `need` (robust against moving code into shared helpers, which
        changes site counts but not which operations were examined)"""
        have = set(have)
        need = set(need)
        missing = sorted(need - have)
        self.floors.append((name, len(have & need), len(need)))
        if missing:
            self.findings.append(Finding(self.prop, 'FLOOR', 'checker', name,
                                         'the rule examined no instance while analysing %s (vacuity guard)' % ', '.join(missing),
                                         undischarged=True))

    def assume(self, *names):
        self.assumptions.update(names)

    def trust(self, *items):
        self.trusted.update(items)

    def note(self, s):
        self.notes.append(s)

    # ---- finishing ------------------------------------------------------
    def finish(self, explanation, rule_text, extra=None):
        known = [k for k in load_known() if k.get('property') == self.prop]
        known_keys = {k['key']: k for k in known if k.get('status') == 'known'}
        unlisted = []
        listed = []
        for f in self.findings:
            if f.key in known_keys:
                listed.append(f)
            else:
                unlisted.append(f)
        outdir = os.environ.get('MTSA_EVIDENCE_DIR') or os.path.join(VERIF, 'evidence')
        os.makedirs(os.path.join(outdir, 'findings'), exist_ok=True)
        lines = []
        for f in listed:
            lines.append('KNOWN-FINDING: property=%s %s [%s] %s' % (self.prop, f.key, f.loc(), f.what))
        seen = set()
        for f in unlisted:
            h = hashlib.sha1(f.key.encode()).hexdigest()[:10]
            rp = os.path.join(outdir, 'findings', '%s-%s.json' % (self.prop, h))
            with open(rp, 'w') as fh:
                json.dump(f.to_json(), fh, indent=1)
            if f.key in seen:
                continue
            seen.add(f.key)
            lines.append('VIOLATION property=%s replay=%s' % (self.prop, rp))
            lines.append('  %s %s at %s in %s: %s' % ('UNDISCHARGED' if f.undischarged else 'VIOLATION', f.rule, f.loc(), f.func, f.what))
            if f.detail:
                lines.append('    ' + f.detail[:400])
        n_inst = len(self.instances)
        distinct = len({(r, fn, c) for (r, fn, c, ok, nt) in self.instances if nt})
        n_ok = sum(1 for i in self.instances if i[3])
        cov = dict(
            explanation=explanation,
            rule=rule_text,
            evaluations=max(n_inst, 1),
            distinct_nontrivial=distinct,
            obligations=n_inst,
            discharged=n_ok,
            samples=self.samples[:60] or [dict(note='no rule instance')],
            functions_analysed=sorted(self.functions),
            n_functions=len(self.functions),
            floors=[dict(name=n, measured=m, minimum=mi) for n, m, mi in self.floors],
            trusted_base=sorted(self.trusted),
            checker_cmd='./check %s --tier %s' % (self.prop, self.tier),
            known_findings=[f.key for f in listed],
            unlisted_findings=[f.to_json() for f in unlisted][:50],
            notes=self.notes,
            exhaustive=False,
        )
        cov.update(self.cov)
        if extra:
            cov.update(extra)
        ev = dict(
            property_id=self.prop,
            tier=self.tier,
            seed=int(os.environ.get('VERIF_SEED', '0') or 0),
            level='other',
            coverage=cov,
            assumptions=[('%s: %s' % (a, ASSUMPTIONS.get(a, ''))) for a in sorted(self.assumptions)],
            wall_s=round(time.time() - self.t0, 3),
            violations=len(unlisted),
        )
        with open(os.path.join(outdir, '%s.json' % self.prop), 'w') as fh:
            json.dump(ev, fh, indent=1, default=str)
        for l in lines:
            print(l)
        print('%s [%s]: %d rule instances, %d discharged, %d known finding(s), %d unlisted finding(s), %.1fs' % (
            self.prop, self.tier, n_inst, n_ok, len(listed), len(unlisted), time.time() - self.t0))
        return 1 if unlisted else 0
