"""Entry points, argument partitions and the shared E4 run."""
import itertools
import time

from . import inv
from .engine import Budget, Engine, State
from .values import (BoolV, CollV, EnumV, NumV, RefV, StrV, StructV)

LP = '<screen::Screen as parser_listener::ParserListener>::'
S_REF = lambda: RefV((inv.S_ROOT, ()), True)


def listener_entry_points(prog):
    eps = []
    for name, has_default in prog.listener_methods():
        p = LP + name
        if p in prog.bodies:
            eps.append(p)
        elif has_default and ('parser_listener::ParserListener::' + name) in prog.bodies:
            eps.append('parser_listener::ParserListener::' + name)
    return eps


SCREEN_FNS = ['screen::Screen::new', 'screen::Screen::resize', 'screen::Screen::ensure_hbounds',
              'screen::Screen::ensure_vbounds', 'screen::Screen::default_char', 'screen::Screen::write_process_input']


def arg_partitions(eng, st, body, func):
    """list of (label, [args]) for the non-self parameters; states are built lazily by caller.
    Returns a list of partition descriptors: each is a list of per-arg choices."""
    per_arg = []
    dm = eng.cfg['dim_max']
    for i in range(2 if body.locals[1]['ty'].endswith('screen::Screen') or body.locals[1]['ty'] in ('&mut Self', '&Self') else 1,
                   body.arg_count + 1):
        ty = body.locals[i]['ty']
        nm = body.local_name(i)
        if ty == 'std::option::Option<u32>':
            if func.endswith('Screen::resize'):
                per_arg.append([('%s=None' % nm, ('none', ty)), ('%s=Some(1..=2^24)' % nm, ('some_num', ty, 1, dm))])
            else:
                per_arg.append([('%s=None' % nm, ('none', ty)), ('%s=Some(0)' % nm, ('some_num', ty, 0, 0)),
                                ('%s=Some(1..=9999)' % nm, ('some_num', ty, 1, eng.cfg['arg_max']))])
        elif ty == 'std::option::Option<bool>':
            per_arg.append([('%s=None' % nm, ('none', ty)), ('%s=Some(_)' % nm, ('some_bool', ty))])
        elif ty == 'u32':
            per_arg.append([('%s in 1..=2^24' % nm, ('num', 'u32', 1, dm))])
        elif ty == '&[u32]':
            per_arg.append([('%s=[0..=9999; n]' % nm, ('slice_u32',))])
        elif ty == 'bool':
            per_arg.append([('%s=false' % nm, ('bool', False)), ('%s=true' % nm, ('bool', True))])
        else:
            per_arg.append([('%s: %s' % (nm, ty), ('default', ty))])
    return per_arg


def build_arg(eng, st, desc, name):
    k = desc[0]
    if k == 'none':
        return EnumV(desc[1], {0}, {})
    if k == 'some_num':
        v = eng.fresh_num(st, 'u32', desc[2], desc[3], name=name)
        return EnumV(desc[1], {1}, {1: StructV('Some', {'0': v})})
    if k == 'some_bool':
        return EnumV(desc[1], {1}, {1: StructV('Some', {'0': eng.mk_default(st, 'bool')})})
    if k == 'num':
        return eng.fresh_num(st, desc[1], desc[2], desc[3], name=name)
    if k == 'bool':
        return BoolV(desc[1])
    if k == 'slice_u32':
        root = ('H', 'argslice_' + name)
        e = eng.fresh_num(st, 'u32', 0, eng.cfg['arg_max'], name=name + '[*]')
        st.store[root] = CollV('slice', '[u32]', 'arg_' + name, length=eng.fresh_num(st, 'usize', 0, 2**32, name + '.len'),
                               elem=e, prov=('arg', name))
        return RefV((root, ()))
    return eng.mk_default(st, desc[1], name=name)


class EntryResult:
    def __init__(self, func, label):
        self.func, self.label = func, label
        self.finals = []     # (state, ret)
        self.error = None
        self.steps = 0
        self.wall = 0.0


def run_entry(eng, func, margins=('none', 'some'), want_states=True, self_screen=None):
    """analyse `func` from every argument partition x margins partition; returns [EntryResult]"""
    prog = eng.prog
    body = prog.bodies[func]
    has_self = body.arg_count >= 1 and ('Screen' in body.locals[1]['ty'] or 'Self' in body.locals[1]['ty'])
    per_arg = arg_partitions(eng, None, body, func)
    out = []
    mparts = margins if has_self else ('n/a',)
    for mg in mparts:
        for combo in itertools.product(*per_arg) if per_arg else [()]:
            label = '; '.join([('margins=%s' % mg)] + [c[0] for c in combo])
            er = EntryResult(func, label)
            st = State()
            if has_self:
                inv.screen_init(eng, st, margins=mg)
                args = [S_REF()]
            else:
                args = []
            first = 2 if has_self else 1
            for j, c in enumerate(combo):
                a = build_arg(eng, st, c[1], body.local_name(first + j))
                args.append(a)
                st.vn[('entry-arg', j)] = a
            er.combo = combo
            er.margins = mg
            eng.entry_name = '%s [%s]' % (func, label)
            t0 = time.time()
            s0 = eng.total_steps
            try:
                er.finals = eng.exec_body(st, func, args)
            except Budget as e:
                er.error = str(e)
            er.steps = eng.total_steps - s0
            er.wall = time.time() - t0
            out.append(er)
    return out
