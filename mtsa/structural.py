"""Structural rules over the CFG / call graph (engine E1): R-TERM, R-LOCK, R-SEND."""
from .model import short


def callee_name(prog, t):
    fn = t['func'].get('fn') if t['func']['k'] == 'const' else None
    if not fn:
        return None, None
    return fn.get('resolved') or fn['path'], fn


def reachable_functions(prog, roots, bind_listener=True):
    seen = set()
    work = list(roots)
    while work:
        p = work.pop()
        if p in seen or p not in prog.bodies:
            continue
        seen.add(p)
        b = prog.bodies[p]
        for bi, t in prog.calls(b):
            fn = t['func'].get('fn') if t['func']['k'] == 'const' else None
            kind, callee = prog.resolve_callee(fn, bind_listener)
            if kind == 'local':
                work.append(callee)
            if fn:
                for c in fn.get('closure_substs', []):
                    work.append(c)
        for bb in b.blocks:
            for s in bb['stmts']:
                if s['k'] == 'assign' and s['rv']['k'] == 'aggregate' and s['rv'].get('agg') in ('closure', 'coroutine'):
                    work.append(s['rv']['closure'])
                if s['k'] == 'assign':
                    # fn items passed as values (e.g. HashMap::new to or_insert_with)
                    for o in _ops(s['rv']):
                        if o['k'] == 'const' and 'fn' in o:
                            kind, callee = prog.resolve_callee(o['fn'], bind_listener)
                            if kind == 'local':
                                work.append(callee)
            t = bb['term']
            if t['k'] == 'call':
                for a in t['args']:
                    if a['k'] == 'const' and 'fn' in a:
                        kind, callee = prog.resolve_callee(a['fn'], bind_listener)
                        if kind == 'local':
                            work.append(callee)
    return seen


def _ops(rv):
    k = rv['k']
    if k in ('use', 'cast', 'repeat'):
        return [rv['op']]
    if k == 'binop':
        return [rv['a'], rv['b']]
    if k == 'unop':
        return [rv['a']]
    if k == 'aggregate':
        return rv['ops']
    return []


# ---------------------------------------------------------------------------
# R-TERM
def _yield_wrappers(prog):
    """crate-local helpers that suspend the coroutine themselves (they call `yield_`): calling one is passing a yield"""
    w = prog.__dict__.get('_yw_struct')
    if w is None:
        w = set()
        for f, b in prog.bodies.items():
            for bi, t in prog.calls(b):
                n, _fn = callee_name(prog, t)
                if n and n.endswith('::yield_'):
                    w.add(f)
                    break
        prog.__dict__['_yw_struct'] = w
    return w


def loop_kinds(prog, func):
    """classify every natural loop of func: returns list of dict(head, kind, ok, why, span)"""
    body = prog.bodies[func]
    loops, back, idom, preds = body.loops()
    out = []
    for head, blocks in sorted(loops.items()):
        span = body.blocks[head]['term']['span']
        info = dict(head=head, blocks=len(blocks), span=span)
        # exits: blocks in loop with a successor outside
        calls = []
        for b in sorted(blocks):
            t = body.blocks[b]['term']
            if t['k'] == 'call':
                name, fn = callee_name(prog, t)
                calls.append((b, name, t))
        ht = body.blocks[head]['term']
        hname = callee_name(prog, ht)[0] if ht['k'] == 'call' else None
        wrappers = _yield_wrappers(prog)
        yields = [b for b, n, t in calls if n and (n.endswith('::yield_') or n in wrappers)]
        if hname and hname.endswith('::next'):
            # for-loop: exit decided by the iterator; source must not grow in the body
            recv_ty = ht['args'][0]['place']['ty'] if ht['args'] and ht['args'][0]['k'] in ('copy', 'move') else ''
            info.update(kind='for', ok=True, why='`for` over %s' % recv_ty)
            # unbounded iterator types are not used in this crate; check the iterator type is a finite one
            finite = any(x in recv_ty for x in ('Range', 'Iter', 'Chars', 'CharIndices', 'Rev', 'IntoIter', 'Cloned', 'Values', 'Keys', 'Box<dyn', 'StepBy', 'Map<', 'Skip', 'Take'))
            if not finite:
                info.update(ok=False, why='iterator type %s not known to be finite' % recv_ty)
            if 'RangeFrom' in recv_ty or 'Repeat' in recv_ty or 'Cycle' in recv_ty:
                info.update(ok=False, why='unbounded iterator %s' % recv_ty)
        elif hname and hname.endswith('::pop'):
            pushes = [n for b, n, t in calls if n and (n.endswith('::push') or n.endswith('::extend') or n.endswith('::insert') or n.endswith('extend_from_slice'))
                      and t['args'] and t['args'][0]['k'] in ('copy', 'move') and _same_recv(body, ht, t)]
            info.update(kind='while-pop' if not pushes else 'while-pop-push', ok=not pushes,
                        why='`while let Some(_) = v.pop()`; pushes to v in body: %d' % len(pushes))
        elif yields:
            # coroutine loop: every cycle must pass a yield_
            ok = every_cycle_passes(body, blocks, head, set(yields))
            info.update(kind='coroutine', ok=ok, why='every cycle passes a yield_ (%d yield sites inside)' % len(yields))
        elif guard_switch(body, head, blocks) is not None:
            # `while a < b { .. }`: decided by the caller from the engine's ranking argument
            info.update(kind='while-cmp', ok=False, why='`while` with a comparison guard')
        elif rotated_guard(body, head, blocks) is not None:
            # `loop { ..; if y == last { break } y -= 1; }`: decided by the caller from the engine's ranking argument
            info.update(kind='while-cmp', ok=False, why='counting loop with its (in)equality test after the body')
        else:
            info.update(kind='other', ok=False, why='loop form not recognised (head terminator %s)' % (hname or ht['k']))
        out.append(info)
    return out


def guard_switch(body, head, blocks):
    """the block that decides whether a `while` loop continues: reached from the head along single
    in-loop successors, it switches on a comparison computed in the block itself (or on the discriminant
    of an `Option<integer>` local: `while let Some(v) = state`) and one of its targets leaves the loop.
    -> (chain of blocks, guard block, continue-iff-true, None | ('discr', local)) or None"""
    chain = []
    b = head
    for _ in range(6):
        chain.append(b)
        t = body.blocks[b]['term']
        if t['k'] == 'switch':
            d = t['discr']
            if d['k'] in ('copy', 'move') and not d['place']['proj']:
                dl = d['place']['local']
                cmp_ = [s for s in body.blocks[b]['stmts'] if s['k'] == 'assign' and s['place']['local'] == dl and not s['place']['proj']
                        and s['rv']['k'] == 'binop' and s['rv']['op'] in ('Lt', 'Le', 'Gt', 'Ge')]
                tg = t['targets']
                if cmp_ and len(tg) == 1 and tg[0][0] == 0:
                    zero_in, other_in = tg[0][1] in blocks, t['otherwise'] in blocks
                    if other_in and not zero_in:
                        return (tuple(chain), b, True, None)
                    if zero_in and not other_in:
                        return (tuple(chain), b, False, None)
                # `while let Some(v) = state { .. }`: the switch tests the discriminant of an Option local
                dsc = [s for s in body.blocks[b]['stmts'] if s['k'] == 'assign' and s['place']['local'] == dl and not s['place']['proj']
                       and s['rv']['k'] == 'discr' and not s['rv']['place']['proj']]
                if dsc:
                    ol = dsc[-1]['rv']['place']['local']
                    oty = body.locals[ol]['ty']
                    if oty.startswith('std::option::Option<') and oty[len('std::option::Option<'):-1] in ('u8', 'u16', 'u32', 'u64', 'usize'):
                        succ_in = {v: (x in blocks) for v, x in tg}
                        oth_in = t['otherwise'] in blocks and body.blocks[t['otherwise']]['term']['k'] != 'unreachable'
                        some_in = succ_in.get(1, oth_in)
                        none_in = succ_in.get(0, oth_in)
                        if some_in and not none_in:
                            return (tuple(chain), b, True, ('discr', ol))
            return None
        nxt = [x for x in body.succs(b) if x in blocks and not body.blocks[x].get('cleanup')]
        if t['k'] not in ('goto', 'call', 'assert', 'drop') or len(nxt) != 1 or nxt[0] == head:
            return None
        b = nxt[0]
    return None


def rotated_guard(body, head, blocks):
    """a counting loop whose test sits between the body and the step (`loop { ..; if y == last { break } y -= 1; }`):
    no test at the head, exactly one edge leaves the loop, from a block that switches on an (in)equality it computes
    itself.  -> (guard block, continue-iff-true) or None"""
    if guard_switch(body, head, blocks) is not None:
        return None
    ht = body.blocks[head]['term']
    if ht['k'] == 'call' and (callee_path(ht) or '').endswith('::next'):
        return None
    exits = [(b, x) for b in sorted(blocks) for x in body.succs(b)
             if x not in blocks and not body.blocks[x].get('cleanup') and body.blocks[x]['term']['k'] != 'unreachable']
    if len(exits) != 1:
        return None
    b, out = exits[0]
    t = body.blocks[b]['term']
    if t['k'] != 'switch' or t['discr']['k'] not in ('copy', 'move') or t['discr']['place']['proj']:
        return None
    dl = t['discr']['place']['local']
    cmp_ = [s for s in body.blocks[b]['stmts'] if s['k'] == 'assign' and s['place']['local'] == dl and not s['place']['proj']
            and s['rv']['k'] == 'binop' and s['rv']['op'] in ('Eq', 'Ne')]
    tg = t['targets']
    if not cmp_ or len(tg) != 1 or tg[0][0] != 0:
        return None
    zero_in, other_in = tg[0][1] in blocks, t['otherwise'] in blocks
    if other_in and not zero_in:
        return (b, True)
    if zero_in and not other_in:
        return (b, False)
    return None


def callee_path(t):
    f = t.get('func') or {}
    return (f.get('fn') or {}).get('path', '') if isinstance(f, dict) else ''


def _same_recv(body, t1, t2):
    """do two calls take `&mut` of the same local as receiver? (syntactic: the receiver temporaries
    are assigned `&mut _x` in their own blocks)"""
    def recv_local(t):
        a = t['args'][0]
        if a['k'] not in ('copy', 'move'):
            return None
        l = a['place']['local']
        for bb in body.blocks:
            for s in bb['stmts']:
                if s['k'] == 'assign' and s['place']['local'] == l and not s['place']['proj'] and s['rv']['k'] == 'ref':
                    return (s['rv']['place']['local'], tuple(e['k'] for e in s['rv']['place']['proj']))
        return None
    a, b = recv_local(t1), recv_local(t2)
    return a is not None and a == b


def every_cycle_passes(body, blocks, head, must):
    """no cycle inside `blocks` avoids all blocks of `must`: remove `must`, look for a cycle"""
    rest = set(blocks) - must
    # DFS cycle detection on the induced subgraph
    color = {}
    for start in rest:
        if start in color:
            continue
        stack = [(start, iter([s for s in body.succs(start) if s in rest]))]
        color[start] = 1
        while stack:
            node, it = stack[-1]
            adv = False
            for s in it:
                if color.get(s) == 1:
                    return False
                if s not in color:
                    color[s] = 1
                    stack.append((s, iter([x for x in body.succs(s) if x in rest])))
                    adv = True
                    break
            if not adv:
                color[node] = 2
                stack.pop()
    return True


def call_graph_sccs(prog, funcs):
    graph = {}
    for f in funcs:
        b = prog.bodies[f]
        outs = set()
        for bi, t in prog.calls(b):
            fn = t['func'].get('fn') if t['func']['k'] == 'const' else None
            kind, callee = prog.resolve_callee(fn)
            if kind == 'local' and callee in funcs:
                outs.add(callee)
            if fn:
                for c in fn.get('closure_substs', []):
                    if c in funcs:
                        outs.add(c)
        graph[f] = outs
    # Tarjan
    index = {}
    low = {}
    onstack = set()
    stack = []
    sccs = []
    counter = [0]

    def strong(v):
        work = [(v, iter(graph[v]))]
        index[v] = low[v] = counter[0]
        counter[0] += 1
        stack.append(v)
        onstack.add(v)
        while work:
            node, it = work[-1]
            adv = False
            for w in it:
                if w not in index:
                    index[w] = low[w] = counter[0]
                    counter[0] += 1
                    stack.append(w)
                    onstack.add(w)
                    work.append((w, iter(graph[w])))
                    adv = True
                    break
                elif w in onstack:
                    low[node] = min(low[node], index[w])
            if not adv:
                work.pop()
                if work:
                    low[work[-1][0]] = min(low[work[-1][0]], low[node])
                if low[node] == index[node]:
                    comp = []
                    while True:
                        w = stack.pop()
                        onstack.discard(w)
                        comp.append(w)
                        if w == node:
                            break
                    sccs.append(comp)
    for v in graph:
        if v not in index:
            strong(v)
    return [c for c in sccs if len(c) > 1 or c[0] in graph[c[0]]], graph


# ---------------------------------------------------------------------------
# R-LOCK: guards live across calls
def lock_sites(prog, func):
    """for every Mutex::lock call in func: which mutex (by argument type), the guard local after
    unwrap, the drop block of the guard, and the calls made while the guard is live."""
    body = prog.bodies[func]
    out = []
    for bi, t in prog.calls(body):
        name, fn = callee_name(prog, t)
        if not name or not name.endswith('Mutex::<T>::lock'):
            continue
        arg_ty = t['args'][0]['place']['ty'] if t['args'][0]['k'] in ('copy', 'move') else ''
        which = 'parser_state' if 'ParserState' in arg_ty else 'listener'
        # follow: dest -> unwrap -> guard local
        res_local = t['dest']['local']
        guard_local = None
        nb = t['target']
        steps = 0
        cur = nb
        while cur is not None and steps < 6 and guard_local is None:
            tt = body.blocks[cur]['term']
            if tt['k'] == 'call':
                n2, _ = callee_name(prog, tt)
                if n2 and (n2.endswith('::unwrap') or n2.endswith('::expect')) and tt['args'] and tt['args'][0]['k'] in ('copy', 'move') \
                        and tt['args'][0]['place']['local'] == res_local:
                    guard_local = tt['dest']['local']
                    start = tt['target']
                    break
            succ = body.succs(cur)
            cur = succ[0] if len(succ) == 1 else None
            steps += 1
        if guard_local is None:
            out.append(dict(bb=bi, which=which, guard=None, live_calls=None, span=t['span']))
            continue
        # blocks where the guard is live: from `start` until a drop(guard_local) or a move of it
        live_calls = []
        seen = set()
        work = [start]
        while work:
            b = work.pop()
            if b in seen or b is None:
                continue
            seen.add(b)
            bb = body.blocks[b]
            moved = False
            for s in bb['stmts']:
                if s['k'] == 'assign':
                    for o in _ops(s['rv']):
                        if o['k'] == 'move' and o['place']['local'] == guard_local and not o['place']['proj']:
                            moved = True
                if s['k'] == 'dead' and s['local'] == guard_local:
                    moved = True
            if moved:
                continue
            tt = bb['term']
            if tt['k'] == 'drop' and tt['place']['local'] == guard_local and not tt['place']['proj']:
                continue
            if tt['k'] == 'call':
                n2, fn2 = callee_name(prog, tt)
                live_calls.append((b, n2, tt))
            work.extend(body.succs(b))
        out.append(dict(bb=bi, which=which, guard=guard_local, live_calls=live_calls, span=t['span']))
    return out


def may_lock(prog, func, which, seen=None):
    """may `func` (transitively, through crate-local callees and closures it creates) lock mutex `which`?"""
    seen = seen if seen is not None else set()
    if func in seen or func not in prog.bodies:
        return False
    seen.add(func)
    body = prog.bodies[func]
    for bi, t in prog.calls(body):
        name, fn = callee_name(prog, t)
        if name and name.endswith('Mutex::<T>::lock'):
            arg_ty = t['args'][0]['place']['ty'] if t['args'][0]['k'] in ('copy', 'move') else ''
            w = 'parser_state' if 'ParserState' in arg_ty else 'listener'
            if w == which:
                return True
        kind, callee = prog.resolve_callee(fn, bind_listener=False)
        if kind == 'local' and may_lock(prog, callee, which, seen):
            return True
        if name and name.endswith('::send'):
            # resuming the coroutine runs the FSM closure
            from .ctx import CLOSURE
            if may_lock(prog, CLOSURE, which, seen):
                return True
    return False
