"""Properties C04, C08, C12, C14, C15, C16, C18."""
from . import inv, plt, runner
from . import rules_grid as g
from .engine import Budget, Engine, State
from .model import short
from .rules_c09 import site_ord
from .rules_common import (DECAWM, DECCOLM, DECOM, DECSCNM, DECTCEM, IRM, LNM, LP, each_final, ep, get,
                           margins_tb, mode_fact, norm_count, opt_payload)
from .rules_screen import GRID_FUNCS, F, all_rows_marked, closures_of, run_modes, sat_sub
from .tables import plain, static_value
from .values import BoolV, CharV, CollV, EnumV, NumV, OpaqueV, RefV, StrV, StructV

# ===========================================================================  C08
REF_TEXT = {1: '+bold', 3: '+italics', 4: '+underscore', 5: '+blink', 7: '+reverse', 9: '+strikethrough',
            22: '-bold', 23: '-italics', 24: '-underscore', 25: '-blink', 27: '-reverse', 29: '-strikethrough'}
NAMES = ['black', 'red', 'green', 'brown', 'blue', 'magenta', 'cyan', 'white']
REF_FG = {30 + i: n for i, n in enumerate(NAMES)}
REF_FG[39] = 'default'
REF_BG = {40 + i: n for i, n in enumerate(NAMES)}
REF_BG[49] = 'default'
REF_FGA = {90 + i: 'bright' + n for i, n in enumerate(NAMES)}
REF_BGA = {100 + i: 'bright' + n for i, n in enumerate(NAMES)}
BASE16 = [(0, 0, 0), (0xcd, 0, 0), (0, 0xcd, 0), (0xcd, 0xcd, 0), (0, 0, 0xee), (0xcd, 0, 0xcd), (0, 0xcd, 0xcd), (0xe5, 0xe5, 0xe5),
          (0x7f, 0x7f, 0x7f), (0xff, 0, 0), (0, 0xff, 0), (0xff, 0xff, 0), (0x5c, 0x5c, 0xff), (0xff, 0, 0xff), (0, 0xff, 0xff), (0xff, 0xff, 0xff)]
CUBE = [0x00, 0x5f, 0x87, 0xaf, 0xd7, 0xff]
PALETTE = BASE16 + [(CUBE[(i // 36) % 6], CUBE[(i // 6) % 6], CUBE[i % 6]) for i in range(216)] + [(8 + i * 10,) * 3 for i in range(24)]
HEX2_TEMPLATE = bytes([195, 32, 0, 0, 105, 2, 0] * 3 + [0])     # "{:02x}{:02x}{:02x}" as lowered by rustc 1.97


def ref_fold(attrs, default_reverse='screen-default'):
    """documented SGR fold over a parameter list; returns dict of attribute -> value description,
    only for the attributes that change ('*' = unchanged)"""
    out = {}
    a = list(attrs)
    i = 0
    if not a:
        a = [0]
    while i < len(a):
        c = a[i]
        i += 1
        if c == 0:
            out = {'fg': 'default', 'bg': 'default', 'bold': False, 'italics': False, 'underscore': False, 'strikethrough': False,
                   'reverse': default_reverse, 'blink': False}
        elif c in REF_FG:
            out['fg'] = REF_FG[c]
        elif c in REF_BG:
            out['bg'] = REF_BG[c]
        elif c in REF_TEXT:
            t = REF_TEXT[c]
            out[t[1:]] = t[0] == '+'
        elif c in REF_FGA:
            out['fg'] = REF_FGA[c]
        elif c in REF_BGA:
            out['bg'] = REF_BGA[c]
        elif c in (38, 48):
            key = 'fg' if c == 38 else 'bg'
            if i < len(a):
                n = a[i]
                i += 1
                if n == 5:
                    if i < len(a):
                        m = a[i]
                        i += 1
                        if m <= 255:
                            out[key] = '%02x%02x%02x' % PALETTE[m]
                elif n == 2:
                    if i + 2 < len(a) + 0 and i + 2 <= len(a) - 1 + 0 or i + 3 <= len(a):
                        r, gg, b = a[i], a[i + 1], a[i + 2]
                        i += 3
                        if r <= 255 and gg <= 255 and b <= 255:
                            out[key] = '%02x%02x%02x' % (r, gg, b)
                    else:
                        i = len(a)      # a truncated tail is consumed
    return out


def sgr_run(ctx, attrs):
    prog = ctx.prog
    eng = Engine(prog, ctx.eff, config=dict(max_steps=300000, check_inv=False))
    st = State()
    inv.screen_init(eng, st)
    # distinguishable initial rendition
    scr = st.store[inv.S_ROOT]
    cur = scr.fields['cursor']
    attr0 = StructV('screen::CharOpts', {'data': StrV(' '), 'fg': StrV('FG0'), 'bg': StrV('BG0'), 'bold': BoolV(None, ('fact', ('b0', 0))),
                                         'italics': BoolV(None, ('fact', ('b0', 1))), 'underscore': BoolV(None, ('fact', ('b0', 2))),
                                         'strikethrough': BoolV(None, ('fact', ('b0', 3))), 'reverse': BoolV(None, ('fact', ('b0', 4))),
                                         'blink': BoolV(None, ('fact', ('b0', 5)))}, prov=('cursor.attr',))
    st.store[inv.S_ROOT] = scr.with_field('cursor', cur.with_field('attr', attr0))
    root = ('H', 'attrs')
    st.store[root] = CollV('slice', '[u32]', 'attrs', length=NumV(None, len(attrs), 'usize'), known=tuple(NumV(None, a, 'u32') for a in attrs))
    eng.entry_name = 'select_graphic_rendition(%s)' % (attrs,)
    res = eng.exec_body(st, ep('select_graphic_rendition'), [RefV((inv.S_ROOT, ()), True), RefV((root, ()))])
    return eng, res, attr0


def attr_desc(eng, st, v, init):
    if isinstance(v, StrV):
        if v.known is not None:
            return '*' if v.known in ('FG0', 'BG0') else v.known
        p = v.prov
        if isinstance(p, tuple) and p and p[0] == 'vec-elem':
            i = p[2]
            return ('palette', i.k if isinstance(i, NumV) and i.sym is None else '?')
        if isinstance(p, tuple) and p and p[0] == 'format':
            items = p[2] if len(p) > 2 else ()
            vals = []
            for it in items:
                x = it[1] if isinstance(it, tuple) and len(it) > 1 else None
                vals.append(x.k if isinstance(x, NumV) and x.sym is None else None)
            if all(x is not None for x in vals):
                from . import fmtspec
                r_ = fmtspec.render_hex(fmtspec.decode(p[1] if len(p) > 1 else None),
                                        tuple((it[0] if isinstance(it, tuple) and it else '?', v_) for it, v_ in zip(items, vals)))
                if r_ is not None:
                    return r_
            return ('format?', str(p)[:60])
        return ('str?', str(p)[:60])
    if isinstance(v, BoolV):
        if v.val is not None:
            return v.val
        if v.atom and v.atom[0] == 'fact' and isinstance(v.atom[1], tuple) and v.atom[1][0] == 'b0':
            return '*'
        if v.atom and v.atom[0] == 'fact' and isinstance(v.atom[1], tuple) and v.atom[1][0] == 'contains' and v.atom[1][2] == ('n', None, DECSCNM):
            return 'screen-default'
        cur = eng.eval_bool(st, v)
        if cur is not None:
            return cur
        return 'bool?'
    return repr(v)[:40]


def run_c08(ctx, chk):
    chk.assume('A-ARG', 'A-LIB', 'A-PUB', 'A-TOOL')
    from .rules_c03 import param_fidelity
    param_fidelity(ctx, chk)      # through the parser the numbers arrive as typed (R-CAP)
    prog = ctx.prog
    eng0 = ctx.new_engine()
    # D1 tables
    for name, refd in (('TEXT', REF_TEXT), ('FG_ANSI', REF_FG), ('BG_ANSI', REF_BG), ('FG_AIXTERM', REF_FGA), ('BG_AIXTERM', REF_BGA)):
        v = plain(static_value(eng0, 'graphics::' + name))
        chk.instance('R-TABLE', 'graphics::' + name, 'all entries', v == refd, detail='extracted %s' % (v,) if v != refd else '%d entries equal the documented table' % len(refd),
                     what='table %s differs from the documented SGR table: extracted %s' % (name, v))
    for cname, ref in (('FG_256', 38), ('BG_256', 48)):
        c = prog.consts.get('graphics::' + cname)
        if c is not None:
            chk.instance('R-CONST', 'graphics::' + cname, 'value', c['value'] == ref, nontrivial=False, detail='%r' % (c['value'],), span=c['span'],
                         what='%s is %r, documented %d' % (cname, c['value'], ref))
    # palette: the 256 RGB triples before formatting, and the formatter
    pal = static_value(eng0, 'graphics::FG_BG_256')
    ok = isinstance(pal, CollV) and pal.known is not None and len(pal.known) == 256
    bad = []
    if ok:
        for i, e in enumerate(pal.known):
            p = e.prov if isinstance(e, StrV) else None
            vals = None
            got = e.known if isinstance(e, StrV) and e.known is not None else None
            if isinstance(p, tuple) and p and p[0] == 'format' and len(p) > 2:
                from . import fmtspec
                vals = tuple((it[1].k if isinstance(it, tuple) and len(it) > 1 and isinstance(it[1], NumV) and it[1].sym is None else None) for it in p[2])
                if all(v_ is not None for v_ in vals):
                    got = fmtspec.render_hex(fmtspec.decode(p[1]), tuple((it[0], v_) for it, v_ in zip(p[2], vals)))
            want = '%02x%02x%02x' % PALETTE[i]
            if got != want:
                bad.append('entry %d is %s, xterm palette has %s' % (i, got if got is not None else vals, want))
                if len(bad) > 3:
                    break
    chk.instance('R-TABLE', 'graphics::FG_BG_256', 'all 256 entries (RGB triple and rrggbb formatter)', ok and not bad,
                 detail='; '.join(bad) or '256 entries: 16 literals, 6x6x6 cube, 24 greys', what='xterm 256-colour palette: ' + ('; '.join(bad) or 'not a 256-entry vector'))
    g.palette_guard(ctx, chk)
    # D5 frame + clone_with_data copies every attribute
    g.frame(ctx, chk, 'select_graphic_rendition', ['cursor.attr'])
    copyall_charopts(ctx, chk)
    # D2/D3/D6: the fold, decided for every single code and for the extended-colour forms
    singles = list(range(0, 111)) + [255, 256, 1000, 9999] if ctx.tier == 'quick' else list(range(0, 10000))
    lists = [[c] for c in singles]
    lists += [[], [1, 22], [22, 1], [1, 3, 4, 5, 7, 9], [31, 0], [0, 31], [31, 42, 1], [7, 27], [38], [48], [38, 5], [48, 5], [38, 2], [38, 2, 1], [38, 2, 1, 2],
              [38, 5, 196, 1], [48, 5, 255], [38, 5, 256, 1], [38, 5, 9999], [38, 2, 1, 2, 3], [48, 2, 255, 128, 0, 4], [38, 2, 256, 0, 0, 1], [38, 2, 0, 0, 300],
              [38, 3, 1], [38, 6, 31], [38, 5, 15, 48, 5, 16], [1, 38, 5, 0, 22], [90, 100], [97, 107, 39, 49], [38, 0, 31], [5, 25, 9, 29]]
    lists += [[38, 5, n] for n in (0, 1, 15, 16, 17, 100, 231, 232, 254, 255, 256, 300)]
    n = 0
    badl = []
    for attrs in lists:
        try:
            eng, res, attr0 = sgr_run(ctx, attrs)
        except Budget as e:
            badl.append('%s: %s' % (attrs, e))
            continue
        want = ref_fold(attrs)
        for (st, ret) in res:
            a = get(eng, st, 'cursor', 'attr')
            got = {}
            for k in ('fg', 'bg', 'bold', 'italics', 'underscore', 'strikethrough', 'reverse', 'blink'):
                v = a.fields.get(k) if isinstance(a, StructV) else None
                d = attr_desc(eng, st, v, attr0)
                if d != '*':
                    got[k] = d
            w2 = dict(want)
            if w2.get('reverse') == 'screen-default' and isinstance(got.get('reverse'), bool):
                # SGR 0 takes reverse from the screen default: a concrete value is right only when the
                # DECSCNM bit was decided on this path, and then it must be that bit
                mf = mode_fact(eng, st, DECSCNM)
                if mf is not None:
                    w2['reverse'] = mf
            if got != w2:
                badl.append('SGR %s: rendition changes %s, documented %s' % (attrs, got, w2))
        n += 1
    chk.instance('R-FOLD', 'Screen::select_graphic_rendition', 'documented fold for %d parameter lists (every code %s, all extended-colour forms)' % (
        n, '0..=110 + samples' if ctx.tier == 'quick' else '0..=9999'), not badl, detail='; '.join(badl[:4]) or 'all equal',
        span=prog.bodies[ep('select_graphic_rendition')].span, what='; '.join(badl[:3]))
    chk.cov['sgr_lists_decided'] = n
    chk.floor('SGR parameter lists', n, 150)
    # through the parser (`CSI .. m`): the listener receives exactly the parameters typed in *this*
    # sequence, in order, empty ones as 0 - nothing left over from an earlier abandoned sequence
    from . import rules_c03 as r3
    tables = r3.dispatch_tables(ctx, chk, 'C08', only={'m'})
    r3.run_fsm(ctx, chk, tables, prop='C08', focus='sgr')
    chk.trust('rustc 1.97 lowering of the format string {:02x}{:02x}{:02x} (frozen template bytes)', 'HashMap / Vec summaries')


def copyall_charopts(ctx, chk):
    """the helper that builds a cell from a rendition and a text (`clone_with_data` at the pinned commit; found
    by its signature `(&CharOpts, String) -> CharOpts`, not by its name) copies every rendition field from
    self and takes only the text from its argument.  Without such a helper the same is decided at each cell
    store of draw: every rendition field of the stored cell is the cursor's"""
    prog = ctx.prog
    cands = []
    for f, b in sorted(prog.bodies.items()):
        if b.kind == 'closure' or b.arg_count != 2:
            continue
        tys = [b.locals[i]['ty'] for i in (0, 1, 2)]
        if tys[0] == 'screen::CharOpts' and tys[1] in ('&screen::CharOpts', '&mut screen::CharOpts') and tys[2] == 'std::string::String':
            cands.append(f)
    if not cands:
        draw_stores_carry_rendition(ctx, chk)
        return
    for f in cands:
        eng = Engine(prog, ctx.eff, config=dict(max_steps=20000, check_inv=False))
        st = State()
        fields = {k: StrV('mark-' + k) for k in ('fg', 'bg')}
        for i, k in enumerate(('bold', 'italics', 'underscore', 'strikethrough', 'reverse', 'blink')):
            fields[k] = BoolV(None, ('fact', ('mark', k)))
        fields['data'] = StrV('old')
        root = ('H', 'co')
        st.store[root] = StructV('screen::CharOpts', fields)
        res = eng.exec_body(st, f, [RefV((root, ())), StrV('new')])
        bad = []
        for (s2, ret) in res:
            if not isinstance(ret, StructV):
                bad.append('no struct returned')
                continue
            for k, v in fields.items():
                r = ret.fields.get(k)
                if k == 'data':
                    if not (isinstance(r, StrV) and r.known == 'new'):
                        bad.append('text is %r' % (r,))
                elif r is None or r.key() != v.key():
                    bad.append('field %s is %r, not the source field' % (k, r))
        adt = prog.adts.get('screen::CharOpts')
        nf = len(adt['variants'][0]['fields']) if adt else 0
        chk.instance('R-COPYALL', short(f), 'all %d fields: text from the argument, every other field from self' % nf, bool(res) and not bad and nf == len(fields),
                     detail='; '.join(bad) or 'checked with distinct markers', span=prog.bodies[f].span,
                     what='%s: ' % short(f) + ('; '.join(bad) or 'CharOpts has %d fields, rule knows %d' % (nf, len(fields))))


def draw_stores_carry_rendition(ctx, chk):
    """every cell draw stores (not the cells ICH moves for it, not a materialised blank) has the cursor's rendition in every field"""
    from .rules_screen import closures_of
    sr = ctx.screen_run()
    eng = sr['engine']
    prog = ctx.prog
    draw = ep('draw')
    funcs = closures_of(ctx, {draw})
    agg = {}
    for e in sr['events']:
        ev = e['ev']
        if e['func'] not in funcs or e['ep'] != draw or ev[0] != 'map.insert' or g.level_of(e) != 'cell':
            continue
        if not g.own_stack(prog, e.get('stack') or (), draw) or g.is_materialising_insert(eng, e):
            continue
        st = e['st']
        v = ev[3]
        cur = get(eng, st, 'cursor', 'attr')
        ok = isinstance(v, StructV) and isinstance(cur, StructV) and all(
            v.fields.get(k_) is not None and cur.fields.get(k_) is not None and g.same_value(eng, st, v.fields[k_], cur.fields[k_])
            for k_ in ('fg', 'bg') + g.FLAGS)
        k = (short(draw), 'cell store @%s carries the cursor rendition in all 8 fields' % site_ord(prog, e))
        a = agg.setdefault(k, dict(ok=True, span=e['span'], n=0))
        a['n'] += 1
        a['ok'] = a['ok'] and ok
    for (f, c), a in sorted(agg.items()):
        chk.instance('R-COPYALL', f, c, a['ok'], detail='%d visits' % a['n'], span=a['span'], what='a cell drawn does not carry the cursor rendition in every field')
    chk.floor('draw cell stores (rendition)', len(agg), 1)


# ===========================================================================  C18
def tab_run(ctx, stops, x, columns=None):
    prog = ctx.prog
    eng = Engine(prog, ctx.eff, config=dict(max_steps=100000, check_inv=False))
    st = State()
    inv.screen_init(eng, st)
    scr = st.store[inv.S_ROOT]
    scr = scr.with_field('tabstops', CollV('set', 'std::collections::HashSet<u32>', 'ts', known=tuple(NumV(None, s, 'u32') for s in stops)))
    cur = scr.fields['cursor']
    cols = scr.fields['columns']
    if x == 'pending':
        xv = cols
    else:
        xv = NumV(None, x, 'u32')
        eng.assume_cmp(st, 'lt', xv, cols)
    scr = scr.with_field('cursor', cur.with_field('x', xv))
    st.store[inv.S_ROOT] = scr
    for s_ in stops:
        pass
    eng.entry_name = 'tab stops=%s x=%s' % (stops, x)
    res = eng.exec_body(st, ep('tab'), [RefV((inv.S_ROOT, ()), True)])
    return eng, res, cols


def every_8th(eng, st, ops):
    """do these adaptors select, from a range that starts at 8, exactly the multiples of 8?  `step_by(8)`, or a single
    `filter` whose predicate - evaluated on an arbitrary element c - is `c % 8 == 0`"""
    if len(ops) != 1:
        return False
    name, arg = ops[0][0], (ops[0][1] if len(ops[0]) > 1 else None)
    if name == 'step_by':
        return isinstance(arg, NumV) and arg.sym is None and arg.k == 8
    if name != 'filter' or arg is None:
        return False
    s2 = st.fork()
    c = eng.fresh_num(s2, 'u32', name='stop')
    root = ('H', 'probe-stop')
    s2.store[root] = c
    hooks, eng.hooks = eng.hooks, []
    eng.probing += 1
    try:
        res = eng.call_value(s2, arg, [RefV((root, ()))], 0)
    except Exception:
        return False
    finally:
        eng.probing -= 1
        eng.hooks = hooks
    if not res:
        return False
    for (s3, r) in res:
        a = r.atom if isinstance(r, BoolV) else None
        if not (a and a[0] == 'cmp' and a[1] == 'eq' and isinstance(a[2], NumV) and isinstance(a[3], NumV)):
            return False
        x, z = (a[2], a[3]) if a[3].sym is None else (a[3], a[2])
        if not (z.sym is None and z.k == 0 and x.sym is not None and x.k == 0):
            return False
        rem = s3.vn.get(('Rem', c.key(), NumV(None, 8, 'u32').key()))
        if not (isinstance(rem, NumV) and rem.sym == x.sym):
            return False
    return True


def reset_stops_loop(ctx, sr, eng, f, st, evs, clear_idx):
    """the default stops installed by a loop: after the clear, exactly one loop of reset inserts into
    the stop set; it iterates (8..columns).step_by(8), can only be left when the iterator is exhausted,
    and every iteration inserts exactly the current element.  Returns a complaint or ''."""
    from .values import IterV
    prog = ctx.prog
    body = prog.bodies[f]
    loops, back, idom, preds = body.loops()
    segs = [s for s in sr['segments'] if s['ep'] == f and s['func'] == f]
    by_head = {}
    for sg in segs:
        pre, lev = g.seg_events(dict(sg, kind='backedge'))
        ins = [ev for ev in lev if ev[0] == 'set.insert' and ev[1] == ('S', 'tabstops')]
        by_head.setdefault(sg['head'], []).append((sg, ins, lev))
    heads = [h for h, l in by_head.items() if any(ins for (_sg, ins, _lev) in l)]
    if len(heads) != 1:
        return 'no extend and %d loops inserting tab stops after reset clears them' % len(heads)
    h = heads[0]
    # the loop follows the clear on this path
    marks = [i for i, ev in enumerate(evs) if ev[0] == 'loop-head' and ev[1] == f and ev[2] == h]
    if not marks or marks[0] < clear_idx:
        return 'the loop that installs the stops does not follow the clear'
    if not isinstance(h, int) or h not in loops:
        return 'stop-installing iteration is not a plain loop'
    if not g.loop_exits_only_at_head(body, h, eng, f):
        return 'the loop that installs the stops can be left early'
    for (sg, ins, lev) in by_head[h]:
        s_ = sg['st']
        if len(ins) != 1 or not isinstance(ins[0][2], NumV) or ins[0][2].sym is None or ins[0][2].k != 0:
            return 'an iteration of the stop loop performs %d inserts (%s)' % (len(ins), [i[2] for i in ins][:2])
        it = s_.vn.get(('itersym', ins[0][2].sym))
        if not isinstance(it, IterV) or it.kind != 'range':
            return 'inserted stop %r is not the element of a range iterator' % (ins[0][2],)
        lo, hi, incl = it.args
        cols = get(eng, s_, 'columns')
        okr = isinstance(lo, NumV) and lo.sym is None and lo.k == 8 and isinstance(hi, NumV) and eng.prove_cmp(s_, 'eq', hi, cols) is True and not incl
        steps = [o for o in it.ops if o[0] == 'step_by']
        oks = len(steps) == 1 and len(it.ops) == 1 and isinstance(steps[0][1], NumV) and steps[0][1].sym is None and steps[0][1].k == 8
        if not (okr and oks):
            return 'default stops come from %r with adaptors %s (documented: every 8th column 8, 16, .. < columns)' % ((lo, hi, incl), [o[0] for o in it.ops])
    return ''


def tabs_op_run(ctx, meth, stops, x, sel_):
    """run set_tab_stop / clear_tab_stop on an exactly known stop set; returns [(resulting stops as python
    values or None, final cursor x)]; the pending-wrap column is kept symbolic (= columns)"""
    prog = ctx.prog
    eng = Engine(prog, ctx.eff, config=dict(max_steps=100000, check_inv=False))
    st = State()
    inv.screen_init(eng, st)
    scr = st.store[inv.S_ROOT]
    scr = scr.with_field('tabstops', CollV('set', 'std::collections::HashSet<u32>', 'ts', known=tuple(NumV(None, s_, 'u32') for s_ in stops)))
    cur = scr.fields['cursor']
    cols = scr.fields['columns']
    if x == 'pending':
        xv = cols
    else:
        xv = NumV(None, x, 'u32')
        eng.assume_cmp(st, 'lt', xv, cols)
    st.store[inv.S_ROOT] = scr.with_field('cursor', cur.with_field('x', xv))
    args = [RefV((inv.S_ROOT, ()), True)]
    if meth == 'clear_tab_stop':
        ty = 'std::option::Option<u32>'
        args.append(EnumV(ty, {0}, {}) if sel_ is None else EnumV(ty, {1}, {1: StructV('Some', {'0': NumV(None, sel_, 'u32')})}))
    try:
        res = eng.exec_body(st, ep(meth), args)
    except Budget:
        return []
    out = []
    for (s2, ret) in res:
        ts = get(eng, s2, 'tabstops')
        known = None
        if isinstance(ts, CollV) and ts.known is not None:
            known = [v.k if isinstance(v, NumV) and v.sym is None else repr(v) for v in ts.known]
        out.append((known, get(eng, s2, 'cursor', 'x')))
    return out


def run_c18(ctx, chk):
    chk.assume('A-DIM', 'A-PUB', 'A-TOOL')
    from .rules_c03 import param_fidelity
    param_fidelity(ctx, chk, fsm=True, prop='C18', finals='g', esc='H', basic='\x09')      # through the parser the numbers arrive as typed (R-CAP)
    sr = ctx.screen_run()
    eng = sr['engine']
    prog = ctx.prog
    # D1 defaults after reset: cleared, then extended with (8..columns).step_by(8)
    f = ep('reset')
    bad = []
    cnt = 0
    for r, st, ret in each_final(sr, f):
        cnt += 1
        evs = st.event_list()
        cl = [i for i, ev in enumerate(evs) if ev[0] == 'coll.clear' and ev[1] == ('S', 'tabstops')]
        ex = [(i, ev) for i, ev in enumerate(evs) if ev[0] == 'set.extend' and ev[1] == ('S', 'tabstops')]
        ins = [ev for ev in evs if ev[0] == 'set.insert' and ev[1] == ('S', 'tabstops')]
        repl = [ev for ev in evs if ev[0] == 'w' and ev[1] == ('tabstops',)]
        if repl and not ex and not ins:
            # the set is replaced as a whole: `tabstops = (8..columns).step_by(8).collect()`
            r_ = g.collected_range(repl[-1][2])
            cols = get(eng, st, 'columns')
            okc = r_ is not None and r_[0].sym is None and r_[0].k == 8 and eng.prove_cmp(st, 'eq', r_[1], cols) is True and not r_[2] and \
                every_8th(eng, st, r_[3])
            if not okc:
                bad.append('the stop set is replaced by %r (documented: every 8th column 8, 16, .. < columns)' % (repl[-1][2],))
            continue
        if not cl:
            bad.append('tab stops not cleared')
        if not ex and not ins and cl:
            # accepted alternative idiom: `for stop in (8..columns).step_by(8) { tabstops.insert(stop) }`
            why = reset_stops_loop(ctx, sr, eng, f, st, evs, cl[-1])
            if why:
                bad.append(why)
        elif len(ex) != 1 or ins:
            bad.append('%d extend / %d insert operations on the tab stops' % (len(ex), len(ins)))
        else:
            i, ev = ex[0]
            d = ev[2]
            cols = get(eng, st, 'columns')
            okr = isinstance(d, tuple) and d[0] == 'range' and isinstance(d[1], NumV) and d[1].sym is None and d[1].k == 8 and \
                isinstance(d[2], NumV) and eng.prove_cmp(st, 'eq', d[2], cols) is True and not d[3]
            ops = d[5] if isinstance(d, tuple) and len(d) > 5 else ()
            steps = [o for o in ops if o[0] == 'step_by']
            oks = len(steps) == 1 and isinstance(steps[0][1], NumV) and steps[0][1].sym is None and steps[0][1].k == 8 and len(ops) == 1
            if not (okr and oks and cl and cl[0] < i):
                bad.append('default stops are %r with adaptors %s (documented: every 8th column 8, 16, .. < columns)' % (d[:4] if isinstance(d, tuple) else d, [o[0] for o in ops]))
    chk.instance('R-TABS', short(f), 'reset installs stops at 8, 16, .. < columns', cnt > 0 and not bad, detail='; '.join(sorted(set(bad))) or '%d exit states' % cnt,
                 span=prog.bodies[f].span, what='; '.join(sorted(set(bad))))
    # D2 frames and decision tables
    g.frame(ctx, chk, 'set_tab_stop', ['tabstops'])
    g.frame(ctx, chk, 'clear_tab_stop', ['tabstops'])
    g.frame(ctx, chk, 'tab', ['cursor.x'])
    def known_member(st, v):
        """is v known (on this path) to be / not to be a tab stop?  True / False / None, from the membership facts the path learnt"""
        for k_, val in st.vn.items():
            if isinstance(k_, tuple) and len(k_) == 2 and k_[0] == 'fact' and isinstance(k_[1], tuple) and len(k_[1]) == 3 and k_[1][0] == 'contains' \
                    and k_[1][2] == v.key() and isinstance(val, bool):
                ck = k_[1][1]
                cur = get(eng, st, 'tabstops')
                if isinstance(cur, CollV) and (ck == cur.key() or (isinstance(ck, tuple) and cur.cid in ck)):
                    return val
        return None

    def keeps_nothing(eng_, st):
        """`stops.retain(p)` where p, on an arbitrary element, is false on every path"""
        cur = get(eng_, st, 'tabstops')
        fl = st.vn.get(('filtered', cur.cid)) if isinstance(cur, CollV) else None
        if fl is None or fl[3] != cur.ver or (len(fl) > 4 and fl[4]):
            return False
        s2 = st.fork()
        c_ = eng_.fresh_num(s2, 'u32', name='stop')
        root = ('H', 'probe-stop2')
        s2.store[root] = c_
        hooks, eng_.hooks = eng_.hooks, []
        eng_.probing += 1
        try:
            res = eng_.call_value(s2, fl[1], [RefV((root, ()))], 0)
        except Exception:
            return False
        finally:
            eng_.probing -= 1
            eng_.hooks = hooks
        return bool(res) and all(isinstance(r_, BoolV) and eng_.eval_bool(s3, r_) is False for (s3, r_) in res)

    def stop_ops(st):
        ops_ = [ev for ev in st.event_list() if len(ev) > 1 and ev[1] == ('S', 'tabstops')]
        repl = [ev for ev in st.event_list() if ev[0] == 'w' and ev[1] == ('tabstops',)]
        return [o for o in ops_ if o[0] not in ('set.contains', 'set.member')], repl
    f = ep('set_tab_stop')
    bad = []
    cnt = 0
    for r, st, ret in each_final(sr, f):
        cnt += 1
        ops, repl = stop_ops(st)
        x0 = st.vn[('entry', 'x')]
        ok = not repl and len(ops) == 1 and ops[0][0] == 'set.insert' and isinstance(ops[0][2], NumV) and eng.prove_cmp(st, 'eq', ops[0][2], x0) is True
        if not ok and not repl and not ops and known_member(st, x0) is True:
            ok = True          # `if !stops.contains(&x) { stops.insert(x) }`: nothing to do when the column is a stop already
        if not ok:
            bad.append('[%s] %s' % (r.label, [tuple(g.term(eng, st, x_) if isinstance(x_, NumV) else x_ for x_ in o[:3]) for o in (ops + repl)]))
    chk.instance('R-TABS', short(f), 'adds exactly the cursor column', cnt > 0 and not bad,
                 detail='; '.join(bad[:2]) or 'one insert of the cursor column on every path (or none where it is known to be a stop)',
                 span=prog.bodies[f].span, what='HTS does not add exactly the cursor column (also in the pending-wrap column): %s' % bad[:2])
    f = ep('clear_tab_stop')
    bad = []
    cnt = 0
    seen_sel = set()
    for r, st, ret in each_final(sr, f):
        cnt += 1
        ops, repl = stop_ops(st)
        a0 = st.vn.get(('entry-arg', 0))
        how = opt_payload(a0)
        x0 = st.vn[('entry', 'x')]
        if isinstance(a0, EnumV) and a0.tags == {0}:
            hv = 0
        else:
            lo, hi = eng.bounds(st, how)
            hv = lo if lo == hi else None
        if hv == 0:
            ok = not repl and len(ops) == 1 and ops[0][0] == 'set.remove' and isinstance(ops[0][2], NumV) and eng.prove_cmp(st, 'eq', ops[0][2], x0) is True
            if not ok and not repl and not ops and known_member(st, x0) is False:
                ok = True      # nothing to remove where the column is known not to be a stop
        elif hv == 3:
            ok = (not repl and len(ops) == 1 and ops[0][0] == 'coll.clear') or \
                 (not ops and len(repl) == 1 and isinstance(repl[0][2], CollV) and repl[0][2].known == ()) or \
                 (not repl and len(ops) == 1 and ops[0][0] == 'coll.retain' and keeps_nothing(eng, st))
        else:
            ok = not ops and not repl
        seen_sel.add(hv)
        if not ok:
            bad.append('[%s] selector %s performs %s' % (r.label, hv, [o[0] for o in ops + repl]))
    if not {0, 3} <= seen_sel:
        bad.append('no separate path for selector(s) %s (the selector is not tested against them)' % sorted({0, 3} - seen_sel))
    chk.instance('R-TABS', short(f), 'TBC 0/absent removes the stop at the cursor, 3 removes all, others nothing', cnt > 0 and not bad,
                 detail='; '.join(bad[:3]) or '%d exit states' % cnt, span=prog.bodies[f].span, what='; '.join(bad[:2]))
    # D3 tab: least stop strictly to the right, else the last column; order independent
    cases = []
    for stops in ([], [8], [8, 16], [16, 8], [0, 8], [24, 8, 16], [5], [3, 4, 5]):
        for x in (0, 3, 4, 7, 8, 15, 16, 23, 24, 'pending'):
            cases.append((stops, x))
    bad = []
    n = 0
    for stops, x in cases:
        try:
            e2, res, cols = tab_run(ctx, stops, x)
        except Budget as ex:
            bad.append('%s/%s: %s' % (stops, x, ex))
            continue
        n += 1
        for (st, ret) in res:
            xv = get(e2, st, 'cursor', 'x')
            last = NumV(cols.sym, cols.k - 1, 'u32')
            if x == 'pending':
                want = last
            else:
                right = sorted(s for s in stops if s > x)
                want = None
                if right:
                    # min(stop, columns-1): the stop may lie beyond a narrowed width
                    s0 = NumV(None, right[0], 'u32')
                    okv, w = plt.prove_rel(e2, st, 'eq', xv, lambda s, s0=s0, last=last: e2.num_min(s, s0, last, 'u32'))
                    if not okv:
                        bad.append('stops %s, cursor %s: column becomes %s, documented min(%d, columns-1) (%s)' % (stops, x, g.term(e2, st, xv), right[0], w))
                    continue
                want = last
            if e2.prove_cmp(st, 'eq', xv, want) is not True:
                bad.append('stops %s, cursor %s: column becomes %s, documented the last column' % (stops, x, g.term(e2, st, xv)))
    chk.instance('R-TABS', 'Screen::tab', 'HT moves to the least stop strictly right of the cursor (clamped), else the last column', n > 0 and not bad,
                 detail='; '.join(bad[:4]) or '%d (stop set, cursor) classes incl. unsorted sets, stop at 0, pending-wrap column, symbolic width' % n,
                 span=prog.bodies[ep('tab')].span, what='; '.join(bad[:3]))
    chk.floor('tab cases', n, 60)
    # only reset, HTS and TBC (and the constructor's literal) modify the stop set
    writers = sorted(short(f2) for f2 in prog.bodies if ('tabstops',) in ctx.eff.direct_all(f2))
    allowed_w = {'Screen::reset', 'Screen::set_tab_stop', 'Screen::clear_tab_stop', 'screen::Screen::new'}
    extra = [w for w in writers if w not in allowed_w]
    chk.instance('R-WHO', 'Screen.tabstops', 'only reset, set_tab_stop and clear_tab_stop modify the stop set', bool(writers) and not extra,
                 detail='functions that modify tabstops directly: %s' % writers,
                 what='the tab-stop set is also modified by %s (stops set by HTS must survive everything but TBC and reset)' % extra)
    # order independence: the stop set is sorted (or min-reduced) before the scan
    body = prog.bodies[ep('tab')]
    names = [((t['func'].get('fn') or {}).get('path', '')) for bi, t in prog.calls(body)]
    uses_iter = any(nm.endswith('HashSet::<T, S, A>::iter') for nm in names)
    ordered = any(nm.endswith('::sort') or nm.endswith('::sort_unstable') or nm.endswith('::min') or 'BTreeSet' in nm for nm in names)
    chk.instance('R-ORDER', 'Screen::tab', 'hash-set iteration order cannot influence the result', (not uses_iter) or ordered,
                 detail='calls: %s' % [nm.split('::')[-1] for nm in names], span=body.span,
                 what='tab() scans the HashSet of stops in iteration order without sorting / min-reducing it')


# ===========================================================================  C14
def run_c14(ctx, chk):
    chk.assume('A-DIM', 'A-ARG', 'A-PUB', 'A-TOOL')
    sr = ctx.screen_run()
    eng = sr['engine']
    prog = ctx.prog
    # D3 R-WHO on savepoints
    who = {}
    for f, b in prog.bodies.items():
        for bi, t in prog.calls(b):
            nm = (t['func'].get('fn') or {}).get('path', '')
            if t['args'] and t['args'][0].get('k') in ('copy', 'move') and 'Vec<screen::Savepoint>' in t['args'][0]['place']['ty']:
                aty = t['args'][0]['place']['ty']
                if aty.startswith('&') and not aty.startswith('&mut '):
                    continue         # through a shared reference the stack can only be read (len, clone, fmt, eq, ..)
                who.setdefault(short(f), []).append(nm.split('::')[-1])
    allowed = {'Screen::save_cursor': {'push'}, 'Screen::restore_cursor': {'pop', 'len', 'is_empty'}, 'screen::Screen::new': {'new'}}
    bad = []
    for f, ops in who.items():
        for o in ops:
            if o in ('len', 'is_empty', 'last', 'iter'):
                continue
            if o not in allowed.get(f, set()):
                bad.append('%s calls %s' % (f, o))
    chk.instance('R-WHO', 'Screen.savepoints', 'only save_cursor pushes and only restore_cursor pops', bool(who) and not bad,
                 detail='operations: %s' % who, what='saved-cursor stack is also modified elsewhere: %s' % bad)
    # D1 R-COPYALL(Savepoint) in save_cursor
    f = ep('save_cursor')
    adt = prog.adts.get('screen::Savepoint')
    nfields = len(adt['variants'][0]['fields']) if adt else 0
    bad = []
    cnt = 0
    for r, st, ret in each_final(sr, f):
        cnt += 1
        pushes = [ev for ev in st.event_list() if ev[0] == 'vec.push' and ev[1] == ('S', 'savepoints')]
        if len(pushes) != 1:
            bad.append('%d pushes' % len(pushes))
            continue
        sp = pushes[0][2]
        if not isinstance(sp, StructV):
            bad.append('pushed value %r' % (sp,))
            continue
        cur = get(eng, st, 'cursor')
        if sp.fields.get('cursor') is None or sp.fields['cursor'].key() != cur.key():
            bad.append('saved cursor is not a copy of the cursor')
        for fld in ('g0_charset', 'g1_charset'):
            v = sp.fields.get(fld)
            src = get(eng, st, fld)
            pv = getattr(v, 'prov', None)
            cloned = isinstance(v, CollV) and isinstance(pv, tuple) and pv[0] == 'clone' and pv[2] == ('S', fld)
            copied = v is not None and src is not None and v.key() == src.key()
            if not (cloned or copied):
                bad.append('%s saved from %r' % (fld, pv if pv is not None else v))
        cs = sp.fields.get('charset')
        if cs is None or cs.key() != get(eng, st, 'charset').key():
            bad.append('shift state not saved from charset')
        for fld, const in (('origin', DECOM), ('wrap', DECAWM)):
            v = sp.fields.get(fld)
            want = mode_fact(eng, st, const)
            if not isinstance(v, BoolV) or eng.eval_bool(st, v) != want or want is None:
                if not (isinstance(v, BoolV) and v.atom and v.atom[0] == 'fact' and isinstance(v.atom[1], tuple) and v.atom[1][0] == 'contains'
                        and v.atom[1][2] == NumV(None, const, 'u32').key()):
                    bad.append('%s flag is not "mode contains %d"' % (fld, const))
    chk.instance('R-COPYALL', short(f), 'all %d Savepoint fields taken from the corresponding live state' % nfields, cnt > 0 and not bad and nfields == 6,
                 detail='; '.join(sorted(set(bad))) or '%d exit states' % cnt, span=prog.bodies[f].span,
                 what='save_cursor: ' + ('; '.join(sorted(set(bad))) or 'Savepoint has %d fields, the rule knows 6' % nfields))
    g.frame(ctx, chk, 'save_cursor', ['savepoints'])
    # D2/D4 restore: every Savepoint field is consumed; position clamped; empty stack homes and clears DECOM
    f = ep('restore_cursor')
    bad = []
    cnt_pop = cnt_empty = 0
    for r, st, ret in each_final(sr, f):
        evs = st.event_list()
        popped = any(ev[0] == 'vec.pop' and ev[1] == ('S', 'savepoints') and not (isinstance(ev[2], str) and ev[2] == 'none') for ev in evs)
        wr = {tuple(p for p in ev[1] if isinstance(p, str)) for ev in evs if ev[0] == 'w'}
        ops = {(ev[0], ev[1][1]) for ev in evs if len(ev) > 1 and isinstance(ev[1], tuple) and len(ev[1]) >= 2 and ev[1][0] == 'S' and ev[0] != 'w'
               and ev[0] not in ('set.contains', 'map.get')}
        forbidden = [w for w in wr if w and w[0] in ('buffer', 'margins', 'tabstops', 'lines', 'columns')]
        forbidden += [o for o in ops if o[1] in ('buffer', 'tabstops')]
        if forbidden:
            bad.append('[%s] touches %s' % (r.label, forbidden[:3]))
        if popped:
            cnt_pop += 1
            for need in (('g0_charset',), ('g1_charset',), ('charset',), ('cursor',)):
                if need not in wr:
                    bad.append('[%s] saved %s is not restored' % (r.label, need[0]))
            # the restored position is the saved one clamped into the screen / region; rendition and
            # visibility are the saved ones
            pv = [ev[2] for ev in evs if ev[0] == 'vec.pop' and ev[1] == ('S', 'savepoints') and isinstance(ev[2], StructV)]
            sc = pv[0].fields.get('cursor') if pv else None
            if isinstance(sc, StructV) and isinstance(sc.fields.get('x'), NumV) and isinstance(sc.fields.get('y'), NumV):
                sx, sy = sc.fields['x'], sc.fields['y']
                cols, lines = get(eng, st, 'columns'), get(eng, st, 'lines')
                m = get(eng, st, 'margins')
                x, y = get(eng, st, 'cursor', 'x'), get(eng, st, 'cursor', 'y')
                okx, wx = plt.prove_rel(eng, st, 'eq', x, lambda s2: eng.num_min(s2, sx, NumV(cols.sym, cols.k - 1, 'u32'), 'u32'))
                if isinstance(m, EnumV) and m.tags == {1}:
                    mm = m.payload[1].fields['0']
                    oky, wy = plt.prove_rel(eng, st, 'eq', y, lambda s2: eng.num_min(s2, eng.num_max(s2, mm.fields['top'], sy, 'u32'), mm.fields['bottom'], 'u32'))
                elif isinstance(m, EnumV) and m.tags == {0}:
                    oky, wy = plt.prove_rel(eng, st, 'eq', y, lambda s2: eng.num_min(s2, sy, NumV(lines.sym, lines.k - 1, 'u32'), 'u32'))
                else:
                    oky, wy = True, ''
                if not okx:
                    bad.append('[%s] restored column %s is not the saved column clamped to the screen (%s)' % (r.label, g.term(eng, st, x), wx))
                if not oky:
                    bad.append('[%s] restored row %s is not the saved row clamped to the region/screen (%s)' % (r.label, g.term(eng, st, y), wy))
                a = get(eng, st, 'cursor', 'attr')
                sa = sc.fields.get('attr')
                if sa is not None and a.key() != sa.key():
                    bad.append('[%s] restored rendition is not the saved one' % r.label)
            else:
                bad.append('[%s] popped value has no cursor position' % r.label)
        else:
            cnt_empty += 1
            x, y = get(eng, st, 'cursor', 'x'), get(eng, st, 'cursor', 'y')
            if not (isinstance(x, NumV) and x.sym is None and x.k == 0 and isinstance(y, NumV) and y.sym is None and y.k == 0):
                bad.append('[%s] empty stack: cursor ends at (%s, %s), documented home' % (r.label, g.term(eng, st, x), g.term(eng, st, y)))
            if mode_fact(eng, st, DECOM) is not False and not any(
                    ev[0] == 'call' and ev[1] == ep('reset_mode') and ev[2] == ((DECOM,), False) for ev in evs):
                bad.append('[%s] empty stack: origin mode not cleared' % r.label)
    chk.instance('R-RESTORE', short(f), 'pop restores cursor + charset state, touches no content/margins/tab stops; empty stack homes and clears DECOM',
                 cnt_pop > 0 and cnt_empty > 0 and not bad, detail='; '.join(bad[:4]) or '%d pop paths, %d empty-stack paths' % (cnt_pop, cnt_empty),
                 span=prog.bodies[f].span, what='; '.join(bad[:3]))
    # origin / wrap are re-enabled from the saved flags: restore reads both fields of the popped value
    body = prog.bodies[f]
    reads = set()
    for bb in body.blocks:
        for s in bb['stmts']:
            if s['k'] == 'assign':
                for pl in _places(s['rv']):
                    for e in pl['proj']:
                        if e['k'] == 'field':
                            reads.add(e['name'])
        t = bb['term']
        if t['k'] == 'switch' and t['discr']['k'] in ('copy', 'move'):
            for e in t['discr']['place']['proj']:
                if e['k'] == 'field':
                    reads.add(e['name'])
    missing = [n for n in ('cursor', 'g0_charset', 'g1_charset', 'charset', 'origin', 'wrap') if n not in reads]
    chk.instance('R-COPYALL', short(f), 'every Savepoint field is read back', not missing, detail='fields read: %s' % sorted(reads), span=body.span,
                 what='restore_cursor never reads the saved %s' % missing)
    # ESC 7 / ESC 8 reach save_cursor / restore_cursor (and nothing else does)
    from . import rules_c03 as r3
    r3.dispatch_tables(ctx, chk, 'C14', quiet=True, esc={'7', '8'})
    # the R-PAIR inside resize: one save, one restore on the shrinking path
    f = 'screen::Screen::resize'
    bad = []
    for r, st, ret in each_final(sr, f):
        evs = st.event_list()
        pu = sum(1 for ev in evs if ev[0] == 'vec.push' and ev[1] == ('S', 'savepoints'))
        po = sum(1 for ev in evs if ev[0] == 'vec.pop' and ev[1] == ('S', 'savepoints'))
        if pu != po:
            bad.append('[%s] %d pushes, %d pops' % (r.label, pu, po))
    chk.instance('R-PAIR', short(f), 'saves and restores are balanced on every path', not bad, detail='; '.join(bad[:2]), span=prog.bodies[f].span,
                 what='resize leaves the saved-cursor stack unbalanced: %s' % bad[:1])
    g.frame(ctx, chk, 'reset', ['buffer', 'dirty', 'margins', 'mode', 'title', 'icon_name', 'charset', 'g0_charset', 'g1_charset', 'tabstops', 'cursor', 'saved_columns'],
            rule='R-FRAME')


def _places(rv):
    k = rv['k']
    ops = []
    if k in ('use', 'cast', 'repeat'):
        ops = [rv['op']]
    elif k == 'binop':
        ops = [rv['a'], rv['b']]
    elif k == 'unop':
        ops = [rv['a']]
    elif k == 'aggregate':
        ops = rv['ops']
    elif k in ('ref', 'rawptr', 'discr'):
        return [rv['place']]
    return [o['place'] for o in ops if o['k'] in ('copy', 'move')]


# ===========================================================================  C15
def run_c15(ctx, chk):
    chk.assume('A-DIM', 'A-PUB', 'A-TOOL')
    sr = ctx.screen_run()
    eng = sr['engine']
    prog = ctx.prog
    from .rules_c20 import load_ref, table_of, which
    ref = load_ref()
    f = ep('reset')
    adt = prog.adts.get('screen::Screen')
    fields = [x['name'] for x in adt['variants'][0]['fields']] if adt else []
    known = {'savepoints', 'columns', 'lines', 'dirty', 'margins', 'buffer', 'mode', 'title', 'icon_name', 'charset', 'g0_charset', 'g1_charset',
             'tabstops', 'cursor', 'saved_columns'}
    chk.instance('R-KILL', 'screen::Screen', 'every field of Screen is known to the rule', set(fields) == known, detail='fields %s' % fields,
                 what='Screen has fields the reset rule does not know: %s' % sorted(set(fields) ^ known), undischarged=True)
    bad = []
    cnt = 0
    for r, st, ret in each_final(sr, f):
        cnt += 1
        evs = st.event_list()
        wr = {tuple(p for p in ev[1] if isinstance(p, str)) for ev in evs if ev[0] == 'w'}
        cleared = {ev[1][1] for ev in evs if ev[0] == 'coll.clear' and ev[1][0] == 'S'}
        label = r.label
        # R-KILL: every field except savepoints / lines / columns is overwritten
        for fld in ('margins', 'mode', 'title', 'icon_name', 'charset', 'g0_charset', 'g1_charset', 'cursor', 'saved_columns'):
            if (fld,) not in wr and not (fld == 'mode' and 'mode' in cleared):
                # (the mode set may be emptied and refilled instead of replaced; what it then holds is R-DEP)
                bad.append('[%s] %s is not re-initialised' % (label, fld))
        for fld in ('buffer', 'dirty', 'tabstops'):
            if fld not in cleared and (fld,) not in wr:
                bad.append('[%s] %s is not cleared' % (label, fld))
        for fld in ('savepoints', 'lines', 'columns'):
            if (fld,) in wr or fld in cleared:
                bad.append('[%s] %s must be left alone' % (label, fld))
        # R-DEP: the final values are those of a new screen
        x, y = get(eng, st, 'cursor', 'x'), get(eng, st, 'cursor', 'y')
        if not (isinstance(x, NumV) and x.sym is None and x.k == 0 and isinstance(y, NumV) and y.sym is None and y.k == 0):
            bad.append('[%s] cursor at (%s, %s)' % (label, g.term(eng, st, x), g.term(eng, st, y)))
        m = get(eng, st, 'margins')
        if not (isinstance(m, EnumV) and m.tags == {0}):
            bad.append('[%s] margins %r' % (label, m))
        sc = get(eng, st, 'saved_columns')
        if not (isinstance(sc, EnumV) and sc.tags == {0}):
            bad.append('[%s] saved_columns %r' % (label, sc))
        md = get(eng, st, 'mode')
        pv = plain(md) if isinstance(md, CollV) else None
        if pv is None or sorted(pv) != sorted([DECAWM, DECTCEM]):
            bad.append('[%s] modes %s (documented: autowrap + cursor visible)' % (label, pv))
        for fld in ('title', 'icon_name'):
            v = get(eng, st, fld)
            if not (isinstance(v, StrV) and v.known == ''):
                bad.append('[%s] %s is %r' % (label, fld, v))
        cs = get(eng, st, 'charset')
        if not (isinstance(cs, EnumV) and cs.tags == {0}):
            bad.append('[%s] active charset %r' % (label, cs))
        if which(ref, table_of(get(eng, st, 'g0_charset'))) != 'LAT1_MAP' or which(ref, table_of(get(eng, st, 'g1_charset'))) != 'VT100_MAP':
            bad.append('[%s] G0/G1 not Latin-1 / DEC graphics' % label)
        cur = get(eng, st, 'cursor')
        hid = cur.fields.get('hidden') if isinstance(cur, StructV) else None
        if not (isinstance(hid, BoolV) and hid.val is False):
            bad.append('[%s] cursor.hidden %r' % (label, hid))
        a = get(eng, st, 'cursor', 'attr')
        want = {'data': ' ', 'fg': 'default', 'bg': 'default', 'bold': False, 'italics': False, 'underscore': False, 'strikethrough': False, 'reverse': False, 'blink': False}
        for k, wv in want.items():
            v = a.fields.get(k) if isinstance(a, StructV) else None
            gv = v.known if isinstance(v, StrV) else (eng.eval_bool(st, v) if isinstance(v, BoolV) else None)
            if gv != wv:
                bad.append('[%s] rendition %s is %r (documented %r)' % (label, k, gv, wv))
        if not all_rows_marked(eng, st, evs, ctx, sr) or ('dirty' not in cleared and ('dirty',) not in wr):
            bad.append('[%s] dirty set is not exactly all rows' % label)
        # tab stops: decided under C18 (same events)
    chk.instance('R-KILL', short(f), 'every field except savepoints/lines/columns is re-initialised', cnt > 0 and not [b for b in bad if 're-init' in b or 'cleared' in b or 'left alone' in b],
                 detail='; '.join(b for b in bad if 're-init' in b or 'cleared' in b or 'left alone' in b)[:400] or '%d exit states' % cnt, span=prog.bodies[f].span,
                 what='; '.join(b for b in bad if 're-init' in b or 'cleared' in b or 'left alone' in b)[:300])
    rest = [b for b in bad if not ('re-init' in b or 'cleared' in b or 'left alone' in b)]
    chk.instance('R-DEP', short(f), 'final values are the power-on constants (functions of lines/columns only)', cnt > 0 and not rest,
                 detail='; '.join(rest[:4]) or 'cursor home, default rendition, no margins, modes {DECAWM, DECTCEM}, empty titles, G0 Latin-1 / G1 graphics, all rows dirty',
                 span=prog.bodies[f].span, what='; '.join(rest[:3]))
    # D3: new = struct literal + reset() and nothing after it
    nb = prog.bodies.get('screen::Screen::new')
    calls = [((t['func'].get('fn') or {}).get('resolved') or (t['func'].get('fn') or {}).get('path', ''), bi) for bi, t in prog.calls(nb)]
    local_calls = [c for c, bi in calls if c in prog.bodies and not c.endswith('::deref') and 'Default' not in c]
    # helpers that only build a value (`Cursor::home(..)`) change nothing on a Screen: they are part of "building the struct"
    local_calls = [c for c in local_calls if c == f or ctx.eff.maywrite.get(c)]
    chk.instance('R-NEW', 'screen::Screen::new', 'constructor = literal + reset()', local_calls == [f], detail='crate-local calls: %s' % [short(c) for c in local_calls],
                 span=nb.span, what='Screen::new does more than build the struct and call reset(): %s' % [short(c) for c in local_calls])
    # ESC c dispatch
    from . import rules_c03 as r3
    out, _e = __import__('mtsa.fsm', fromlist=['x']).run_dispatch(ctx, 'parser_listener::ParserListener::escape_dispatch', 'c')
    chk.instance('R-DISPATCH', 'escape_dispatch', "final 'c' -> reset()", out == {(('reset', ()),)}, detail=str(sorted(out)), what='ESC c dispatches %s' % sorted(out))


# ===========================================================================  C16
def run_c16(ctx, chk):
    chk.assume('A-DIM', 'A-PUB', 'A-TOOL')
    sr = ctx.screen_run()
    eng = sr['engine']
    prog = ctx.prog
    f = 'screen::Screen::resize'
    body = prog.bodies[f]
    # "content discarded by a shrink or by earlier edits never reappears when the screen grows": resize
    # prunes what lies beyond the NEW bounds and relies on nothing living beyond the CURRENT ones - the
    # grid-bounds rule over every grid mutator
    g.r_grid(ctx, chk, closures_of(ctx, F(GRID_FUNCS)))
    bad_same, bad_m, bad_d, bad_p, bad_dl, bad_c = [], [], [], [], [], []
    n_same = n_change = 0
    for r, st, ret in each_final(sr, f):
        evs = st.event_list()
        l0, c0 = st.vn[('entry', 'lines')], st.vn[('entry', 'columns')]
        la, ca = st.vn.get(('entry-arg', 0)), st.vn.get(('entry-arg', 1))
        ln = opt_payload(la) if not (isinstance(la, EnumV) and la.tags == {0}) else l0
        cn = opt_payload(ca) if not (isinstance(ca, EnumV) and ca.tags == {0}) else c0
        same = eng.prove_cmp(st, 'eq', ln, l0) is True and eng.prove_cmp(st, 'eq', cn, c0) is True
        effects = [ev for ev in evs if ev[0] == 'w' or (len(ev) > 1 and isinstance(ev[1], tuple) and ev[1] and ev[1][0] == 'S' and ev[0] not in ('set.contains', 'map.get', 'branch'))]
        if same:
            n_same += 1
            if effects:
                bad_same.append('[%s] same-size resize performs %s' % (r.label, effects[0][:2]))
            continue
        n_change += 1
        m = get(eng, st, 'margins')
        if not (isinstance(m, EnumV) and m.tags == {0}):
            bad_m.append('[%s] margins %r' % (r.label, m))
        if not all_rows_marked(eng, st, evs, ctx, sr):
            bad_d.append(r.label)
        if eng.prove_cmp(st, 'eq', get(eng, st, 'lines'), ln) is not True or eng.prove_cmp(st, 'eq', get(eng, st, 'columns'), cn) is not True:
            bad_m.append('[%s] new geometry not installed' % r.label)
        # the cursor ends on a cell of the new screen (a pending-wrap position does not survive a resize)
        xe, ye = get(eng, st, 'cursor', 'x'), get(eng, st, 'cursor', 'y')
        if not (isinstance(xe, NumV) and eng.prove_cmp(st, 'lt', xe, get(eng, st, 'columns')) is True):
            okx, wx = plt.prove_rel(eng, st, 'lt', xe, lambda s2: get(eng, s2, 'columns')) if isinstance(xe, NumV) else (False, repr(xe))
            if not okx:
                bad_c.append('[%s] cursor column %s is not shown to be < the new width (%s)' % (r.label, g.term(eng, st, xe), wx))
        if not (isinstance(ye, NumV) and eng.prove_cmp(st, 'lt', ye, get(eng, st, 'lines')) is True):
            oky, wy = plt.prove_rel(eng, st, 'lt', ye, lambda s2: get(eng, s2, 'lines')) if isinstance(ye, NumV) else (False, repr(ye))
            if not oky:
                bad_c.append('[%s] cursor row %s is not shown to be < the new height (%s)' % (r.label, g.term(eng, st, ye), wy))
        # pruning: after the last shrink nothing may stay beyond the new bounds
        shrink_l = eng.prove_cmp(st, 'lt', ln, l0) is True
        shrink_c = eng.prove_cmp(st, 'lt', cn, c0) is True
        rets = [ev for ev in evs if ev[0] == 'coll.retain' and ev[1] and ev[1][0] == 'S' and ev[1][1] == 'buffer']
        row_pr = any(len(ev[1]) == 2 and isinstance(ev[2], tuple) and ev[2][0] == 'lt' and eng.prove_le(st, ev[2][1], ln) is True for ev in rets)
        col_pr = any(len(ev[1]) == 3 and isinstance(ev[2], tuple) and ev[2][0] == 'lt' and eng.prove_le(st, ev[2][1], cn) is True for ev in rets)
        if not col_pr:
            # pruning of rows happens in a loop over all rows: the retain on a row is seen on a loop
            # segment - and on EVERY path through the body of that loop (a row skipped because it
            # "already fits" by some other measure keeps its cells beyond the new width)
            def has_ret(s_):
                pre_, lev_ = g.seg_events(dict(s_, kind='backedge'))
                return any(ev[0] == 'coll.retain' and len(ev[1]) == 3 and isinstance(ev[2], tuple) and ev[2][0] == 'lt' for ev in lev_)
            segs_f = [s_ for s_ in sr['segments'] if s_['ep'] == f]
            loops_r = {(s_['func'], s_['head']) for s_ in segs_f if has_ret(s_)}
            col_pr = bool(loops_r) and all(has_ret(s_) for s_ in segs_f if (s_['func'], s_['head']) in loops_r)
            # .. and the loop walks all rows, not a filtered / truncated selection of them
            for s_ in segs_f:
                if (s_['func'], s_['head']) in loops_r and isinstance(s_['head'], int):
                    d_ = g.loop_desc_in(s_['st'].event_list(), s_['func'], s_['head'])
                    if d_ is None or d_[0] != 'coll' or not g.elementwise(d_[4]):
                        col_pr = False
            if loops_r and not col_pr:
                bad_p.append('[%s] some rows are skipped by the loop that prunes cells beyond the new width' % r.label)
        if shrink_l and not row_pr:
            bad_p.append('[%s] rows >= the new height are not pruned' % r.label)
        if shrink_c and not col_pr:
            bad_p.append('[%s] cells >= the new width are not pruned' % r.label)
    chk.instance('R-NOOP', short(f), 'resizing to the current size has no effect', n_same > 0 and not bad_same, detail='; '.join(bad_same[:2]) or '%d same-size paths' % n_same,
                 span=body.span, what='; '.join(bad_same[:2]))
    chk.instance('R-RESIZE', short(f), 'region reset and new geometry installed', n_change > 0 and not bad_m, detail='; '.join(bad_m[:2]) or '%d size-changing paths' % n_change,
                 span=body.span, what='; '.join(bad_m[:2]))
    chk.instance('R-RESIZE', short(f), 'the cursor ends on a cell of the new screen', n_change > 0 and not bad_c, detail='; '.join(bad_c[:2]) or '%d size-changing paths' % n_change,
                 span=body.span, what='; '.join(bad_c[:2]))
    chk.instance('R-DIRTY', short(f), 'every row of the new geometry marked', n_change > 0 and not bad_d, detail='unmarked: %s' % bad_d[:2], span=body.span,
                 what='resize does not mark all rows dirty on %s' % bad_d[:1])
    chk.instance('R-GRID', short(f), 'rows / cells beyond the new bounds are pruned on a shrink', n_change > 0 and not bad_p, detail='; '.join(bad_p[:3]) or 'retain(key < new bound) on every shrinking path',
                 span=body.span, what='content discarded by a shrink stays in hidden storage and can reappear on a later grow: ' + '; '.join(bad_p[:2]))
    # D4: rows are dropped from the top: delete_lines(old-new) runs with the cursor on row 0 and no region
    snaps = [c for c in sr.get('callsnaps', []) if c['caller'] == f and c['callee'] == ep('delete_lines')]
    bad = []
    for c in snaps:
        st = c['st']
        m = get(eng, st, 'margins')
        y = get(eng, st, 'cursor', 'y')
        a = c['args'][1] if len(c['args']) > 1 else None
        cnt_v = opt_payload(a)
        l0 = st.vn[('entry', 'lines')]
        ln = opt_payload(st.vn.get(('entry-arg', 0)))
        if not (isinstance(m, EnumV) and m.tags == {0}):
            bad.append('a scrolling region is still set when rows are dropped (%r): the drop is confined or refused' % (m,))
        if not (isinstance(y, NumV) and eng.prove_cmp(st, 'eq', y, NumV(None, 0, 'u32')) is True):
            bad.append('cursor row is %s when rows are dropped (documented: from the top)' % g.term(eng, st, y))
        if not (isinstance(cnt_v, NumV) and isinstance(ln, NumV) and plt.prove_rel(eng, st, 'eq', cnt_v, lambda s: eng.num_sub(s, l0, ln, 'u32'))[0]):
            bad.append('drops %s rows (documented: old - new)' % (g.term(eng, st, cnt_v) if isinstance(cnt_v, NumV) else cnt_v))
    chk.instance('R-RESIZE', short(f), 'surplus rows are deleted at row 0 with no region set', bool(snaps) and not bad, detail='; '.join(sorted(set(bad))) or '%d call states' % len(snaps),
                 span=body.span, what='; '.join(sorted(set(bad))) or 'no delete_lines call found on the shrinking path')
    # the DECCOLM 132-column round trip: entering remembers the current width, leaving returns to it
    from .rules_screen import run_modes
    for set_ in (True, False):
        for (num, private) in ((3, True), (DECCOLM, False)):
            name = 'set_mode' if set_ else 'reset_mode'
            try:
                e2, r2 = run_modes(ctx, [num], private, set_)
                probs = [p_ for p_ in mode_effects(e2, r2, DECCOLM, set_, ctx) if 'width' in p_ or 'remembered' in p_]
            except Budget as ex:
                probs = [str(ex)]
                r2 = []
            chk.instance('R-RESIZE', 'Screen::' + name, 'DECCOLM %s: %s' % ('?3' if private else str(DECCOLM), 'remembers the width it leaves' if set_ else 'returns to the remembered width'),
                         bool(r2) and not probs, detail='; '.join(probs[:2]) or '%d exit paths' % len(r2), span=prog.bodies[ep(name)].span,
                         what='%s(&[%d], %s): %s' % (name, num, str(private).lower(), '; '.join(probs[:2])))
    # exit invariant for the new bounds is C09 (R-INV); repeat the two cursor clauses here
    for c in ('I2.x', 'I2.y'):
        bad = []
        for r, st, ret in each_final(sr, f):
            ok, facts = inv.check_clause(eng, st, c)
            if not ok:
                bad.append('[%s] %s' % (r.label, facts))
        chk.instance('R-INV', short(f), 'exit:' + c, not bad, detail='; '.join(bad[:2]), span=body.span, what='cursor outside the new bounds: ' + '; '.join(bad[:1]))


# ===========================================================================  C12
REF_MODES = {'LNM': 20, 'IRM': 4, 'DECTCEM': 25 << 5, 'DECSCNM': 5 << 5, 'DECOM': 6 << 5, 'DECAWM': 7 << 5, 'DECCOLM': 3 << 5}


def run_c12(ctx, chk):
    chk.assume('A-DIM', 'A-ARG', 'A-PUB', 'A-TOOL')
    from .rules_c03 import param_fidelity
    param_fidelity(ctx, chk)      # through the parser the numbers arrive as typed (R-CAP)
    prog = ctx.prog
    for name, ref in sorted(REF_MODES.items()):
        c = prog.consts.get('modes::' + name)
        if c is None:
            continue
        chk.instance('R-CONST', 'modes::' + name, 'value', c['value'] == ref, nontrivial=False, detail='%r vs %r' % (c['value'], ref), span=c['span'],
                     what='mode constant %s is %r, documented %d' % (name, c['value'], ref))
    # the power-on mode set is what reset() leaves in `mode` (wherever the table it copies lives)
    sr0 = ctx.screen_run()
    dms = []
    for r, st, ret in each_final(sr0, ep('reset')):
        mv = get(sr0['engine'], st, 'mode')
        dms.append(sorted(x.k for x in mv.known if isinstance(x, NumV) and x.sym is None) if isinstance(mv, CollV) and mv.known is not None
                   and all(isinstance(x, NumV) and x.sym is None for x in mv.known) else None)
    chk.instance('R-TABLE', 'Screen::reset', 'power-on mode set', bool(dms) and all(d == sorted([DECAWM, DECTCEM]) for d in dms), detail=str(dms[:2]),
                 what='power-on modes are %s, documented {DECAWM, DECTCEM}' % (dms[:1],))
    # decision table over (number, private, set/reset)
    cases = []
    nums = (3, 4, 5, 6, 7, 20, 25, 1, 2, 9, 12, 1000, 2004, 9999, 96, 160, 192, 224, 800, 0)
    if ctx.tier == 'thorough':
        nums = tuple(range(0, 130)) + (160, 192, 224, 800, 1000, 2004, 9999)
    for num in nums:
        for private in (True, False):
            cases.append((num, private))
    n = 0
    for set_ in (True, False):
        for (num, private) in cases:
            eff = num << 5 if private else num
            name = 'set_mode' if set_ else 'reset_mode'
            try:
                eng, res = run_modes(ctx, [num], private, set_)
            except Budget as e:
                chk.instance('R-MODES', 'Screen::' + name, 'mode %d private=%s' % (num, private), False, detail=str(e), undischarged=True)
                continue
            probs = mode_effects(eng, res, eff, set_, ctx)
            # the mode set itself, decided on exactly known initial sets (with and without the number)
            for initial in ([DECAWM, DECTCEM, 77], [DECAWM, DECTCEM, 77, eff]):
                init = sorted(set(initial))
                want = sorted(set(init) | {eff}) if set_ else sorted(set(init) - {eff})
                try:
                    e2, r2 = run_modes_from(ctx, [num], private, set_, initial=init)
                except Budget as e:
                    probs.append('mode set from %s: %s' % (init, e))
                    continue
                if not r2:
                    probs.append('no exit path from mode set %s' % init)
                for (st2, _ret) in r2:
                    got = plain(get(e2, st2, 'mode'))
                    if got is None or sorted(got) != want:
                        probs.append('mode set %s becomes %s, documented %s' % (init, sorted(got) if got is not None else 'not exactly known', want))
            probs = sorted(set(probs))
            n += 1
            chk.instance('R-MODES', 'Screen::' + name, '%s%d' % ('?' if private else '', num), bool(res) and not probs, detail='; '.join(probs[:3]) or 'as documented (%d paths)' % len(res),
                         span=prog.bodies[ep(name)].span, what='%s(&[%d], %s): %s' % (name, num, str(private).lower(), '; '.join(probs[:2])))
    chk.floor('mode table entries', n, 60)
    # lists: union / difference of exactly the listed numbers
    for set_ in (True, False):
        name = 'set_mode' if set_ else 'reset_mode'
        eng, res = run_modes_from(ctx, [4, 20, 9], False, set_, initial=[DECAWM, DECTCEM, 20, 77])
        want = sorted({DECAWM, DECTCEM, 20, 77} | {4, 20, 9}) if set_ else sorted({DECAWM, DECTCEM, 20, 77} - {4, 20, 9})
        bad = []
        for (st, ret) in res:
            got = plain(get(eng, st, 'mode'))
            if got is None or sorted(got) != want:
                bad.append('mode set becomes %s, documented %s' % (sorted(got) if got else got, want))
        chk.instance('R-MODES', 'Screen::' + name, 'list [4, 20, 9] on {DECAWM, DECTCEM, 20, 77}', bool(res) and not bad, detail='; '.join(bad[:2]) or str(want),
                     span=prog.bodies[ep(name)].span, what='; '.join(bad[:2]))
    # where the three behavioural modes are read
    for meth, const, cname in (('draw', IRM, 'IRM'), ('draw', DECAWM, 'DECAWM'), ('linefeed', LNM, 'LNM')):
        body = prog.bodies[ep(meth)]
        found = False
        # the method itself, its closures and the crate-local helpers it calls (two levels)
        scope = [ep(meth)]
        for _lvl in range(2):
            for f_ in list(scope):
                b_ = prog.bodies.get(f_)
                if b_ is None:
                    continue
                for c_ in prog.closures_of.get(f_, []):
                    if c_ not in scope:
                        scope.append(c_)
                for bi_, t_ in prog.calls(b_):
                    kind_, callee_ = prog.resolve_callee(t_['func'].get('fn'))
                    if kind_ == 'local' and callee_ not in scope and not callee_.startswith(LP):
                        scope.append(callee_)

        def walk(o):
            nonlocal found
            if isinstance(o, dict):
                if o.get('k') == 'const' and o.get('value') == const and o.get('origin', '') and o['origin'].endswith(cname):
                    found = True
                if o.get('k') == 'const' and o.get('value') == const:
                    found = True
                for v in o.values():
                    walk(v)
            elif isinstance(o, list):
                for v in o:
                    walk(v)
        for f_ in scope:
            if f_ in prog.bodies:
                walk(prog.bodies[f_].blocks)
        chk.instance('R-MUST', short(ep(meth)), 'consults %s' % cname, found, detail='constant %d referenced' % const, span=body.span,
                     what='%s never tests %s' % (meth, cname))
    from .rules_screen import decscnm_dirty
    decscnm_dirty(ctx, chk)
    # through the parser: SM / RM reach the screen with exactly the numbers typed and with the private
    # flag of *this* sequence (a `?` seen in an earlier, abandoned sequence must not leak)
    from . import rules_c03 as r3
    tables = r3.dispatch_tables(ctx, chk, 'C12', only={'h', 'l'})
    r3.run_fsm(ctx, chk, tables, prop='C12', focus='modes')


def run_modes_from(ctx, modes, private, set_, initial):
    prog = ctx.prog
    eng = Engine(prog, ctx.eff, config=dict(max_steps=600000))
    st = State()
    inv.screen_init(eng, st)
    scr = st.store[inv.S_ROOT]
    st.store[inv.S_ROOT] = scr.with_field('mode', CollV('set', 'std::collections::HashSet<u32>', 'modeinit', known=tuple(NumV(None, m, 'u32') for m in initial)))
    root = ('H', 'modes')
    st.store[root] = CollV('slice', '[u32]', 'modes', length=NumV(None, len(modes), 'usize'), known=tuple(NumV(None, m, 'u32') for m in modes))
    f = ep('set_mode' if set_ else 'reset_mode')
    res = eng.exec_body(st, f, [RefV((inv.S_ROOT, ()), True), RefV((root, ())), BoolV(private)])
    return eng, res


def mode_effects(eng, res, eff, set_, ctx=None):
    """compare the effects on every exit path with the documented table for effective number eff"""
    probs = []
    for (st, ret) in res:
        evs = st.event_list()
        wr = {tuple(p for p in ev[1] if isinstance(p, str)) for ev in evs if ev[0] == 'w'}
        grid_ops = [ev for ev in evs if len(ev) > 1 and isinstance(ev[1], tuple) and len(ev[1]) >= 2 and ev[1][0] == 'S' and ev[1][1] == 'buffer' and ev[0] not in ('map.get', 'branch')]
        moved = ('cursor', 'x') in wr or ('cursor', 'y') in wr or ('cursor',) in wr
        geom = ('columns',) in wr or ('lines',) in wr
        x, y = get(eng, st, 'cursor', 'x'), get(eng, st, 'cursor', 'y')
        x0, y0 = st.vn[('entry', 'x')], st.vn[('entry', 'y')]
        c0 = st.vn[('entry', 'columns')]
        cols = get(eng, st, 'columns')
        if eff == DECCOLM:
            if set_:
                if eng.prove_cmp(st, 'eq', cols, NumV(None, 132, 'u32')) is not True:
                    probs.append('width becomes %s, documented 132' % g.term(eng, st, cols))
                sc = get(eng, st, 'saved_columns')
                p = opt_payload(sc)
                if not (isinstance(p, NumV) and eng.prove_cmp(st, 'eq', p, c0) is True):
                    probs.append('previous width not remembered (%r)' % (sc,))
            else:
                # leaving 132-column mode returns to the remembered width (and forgets it)
                sc0 = st.vn.get(('entry', 'saved_columns'))
                tag = st.vn.get(('tagof', sc0.eid)) if isinstance(sc0, EnumV) and sc0.eid is not None else None
                w0 = sc0.payload[1].fields.get('0') if isinstance(sc0, EnumV) and sc0.payload.get(1) else None
                was132 = eng.prove_cmp(st, 'eq', c0, NumV(None, 132, 'u32'))
                if tag == 1 and was132 is True and isinstance(w0, NumV):
                    if eng.prove_cmp(st, 'eq', cols, w0) is not True:
                        probs.append('width becomes %s, documented the width remembered when 132-column mode was entered' % g.term(eng, st, cols))
                    scf = get(eng, st, 'saved_columns')
                    if not (isinstance(scf, EnumV) and scf.tags == {0}):
                        probs.append('the remembered width is not forgotten')
                elif (tag == 0 or was132 is False) and geom:
                    probs.append('the width changes although there is nothing to return to')
            home_ok = eng.prove_cmp(st, 'eq', x, NumV(None, 0, 'u32')) is True
            if not home_ok:
                probs.append('cursor column %s after DECCOLM, documented home' % g.term(eng, st, x))
            # the whole screen is erased: ED 2 is performed (what ED 2 does is C07's business)
            eds = [i for i, ev in enumerate(evs) if ev[0] == 'call' and ev[1] == ep('erase_in_display') and len(ev[2]) >= 1 and ev[2][0] in (('Some', 2), ('Some', 3))]
            if not eds:
                probs.append('screen is not erased')
            else:
                # .. and it is the screen of the new geometry that is erased: no later change of the size
                for fld, at0 in ((('columns',), c0), (('lines',), st.vn.get(('entry', 'lines')))):
                    ws = [(i, ev[2]) for i, ev in enumerate(evs) if ev[0] == 'w' and ev[1] == fld]
                    before = [v for i, v in ws if i < eds[-1]]
                    after = [v for i, v in ws if i > eds[-1]]
                    at_erase = before[-1] if before else at0
                    if after and not (isinstance(after[-1], NumV) and isinstance(at_erase, NumV) and eng.prove_le(st, after[-1], at_erase) is True):
                        probs.append('the screen is erased before the %s change (%s -> %s): what is gained afterwards is not erased with the current rendition' % (
                            'width' if fld == ('columns',) else 'height', g.term(eng, st, at_erase) if isinstance(at_erase, NumV) else at_erase,
                            g.term(eng, st, after[-1]) if isinstance(after[-1], NumV) else after[-1]))
        elif eff == DECOM:
            if not moved or eng.prove_cmp(st, 'eq', x, NumV(None, 0, 'u32')) is not True:
                probs.append('cursor not homed (column %s)' % g.term(eng, st, x))
            if grid_ops or geom:
                probs.append('content or geometry touched')
        elif eff == DECSCNM:
            a = get(eng, st, 'cursor', 'attr')
            rv = a.fields.get('reverse') if isinstance(a, StructV) else None
            if not (isinstance(rv, BoolV) and eng.eval_bool(st, rv) is set_):
                probs.append('current rendition reverse is %r, documented %s' % (rv, set_))
            if not all_rows_marked(eng, st, evs, ctx):
                probs.append('rows not marked dirty')
            if moved or geom:
                probs.append('cursor or geometry touched')
        elif eff == DECTCEM:
            cur = get(eng, st, 'cursor')
            hid = cur.fields.get('hidden') if isinstance(cur, StructV) else None
            if not (isinstance(hid, BoolV) and hid.val is (not set_)):
                probs.append('cursor.hidden is %r, documented %s' % (hid, not set_))
            if moved or geom or grid_ops:
                probs.append('cursor position, geometry or content touched')
        else:
            extra = sorted(w for w in wr if w and w[0] != 'mode')
            if extra or grid_ops:
                probs.append('a mode without side effects changes %s%s' % (extra, ' and the grid' if grid_ops else ''))
    return sorted(set(probs))


# ===========================================================================  C04
def run_c04(ctx, chk):
    chk.assume('A-DIM', 'A-LIB', 'A-PUB', 'A-TOOL')
    sr = ctx.screen_run()
    eng = sr['engine']
    prog = ctx.prog
    g.frame(ctx, chk, 'draw', ['buffer', 'dirty', 'cursor.x', 'cursor.y'])
    funcs = closures_of(ctx, {ep('draw')})
    ng = g.r_grid(ctx, chk, funcs | closures_of(ctx, {ep('insert_characters')}))
    chk.cover('grid key sites', ng.eps, ['draw'])
    na, nb = g.r_absent(ctx, chk, funcs)
    nd = g.r_dirty(ctx, chk, funcs)
    chk.cover('dirty-covered write sites', nd.eps, ['draw'])
    copyall_charopts(ctx, chk)
    # the wrap at the bottom margin scrolls the region: what `index` does there (re-keying, the vacated
    # row blank, also on a one-row screen) is part of what a drawn character does to the grid
    from .rules_screen import rekey
    rekey(ctx, chk, only=('index',))
    # D2/D3: every cell stored by draw itself is at the cursor row; at the cursor column or the next one; built from the cursor rendition
    agg = {}
    draw = ep('draw')
    for e in sr['events']:
        ev = e['ev']
        if e['func'] not in funcs or e['ep'] != draw or ev[0] != 'map.insert' or g.level_of(e) != 'cell':
            continue
        if not g.own_stack(prog, e.get('stack') or (), draw):
            continue      # stored by another operation that draw calls (ICH in insert mode): decided there
        if g.is_materialising_insert(eng, e):
            continue      # no cell changes its meaning (R-ABSENT looks at what is materialised)
        st = e['st']
        row = g.row_of_path(ev[1])
        col = ev[2]
        cy = get(eng, st, 'cursor', 'y')
        cx = get(eng, st, 'cursor', 'x')
        v = ev[3]
        pv = getattr(v, 'prov', None)
        ok_row = isinstance(row, NumV) and eng.prove_cmp(st, 'eq', row, cy) is True
        ok_col = isinstance(col, NumV) and (eng.prove_cmp(st, 'eq', col, cx) is True or eng.prove_cmp(st, 'eq', col, NumV(cx.sym, cx.k + 1, 'u32')) is True)
        ok_val = isinstance(v, StructV) and isinstance(pv, tuple) and pv[0] == 'literal' and pv[1] == 'screen::CharOpts::clone_with_data'
        if not ok_val and isinstance(v, StructV) and isinstance(pv, tuple) and pv[:2] == ('derived', 'cursor.attr') and pv[2] <= {'data'}:
            ok_val = True      # a clone of the cursor rendition in which only the text was replaced
        if not ok_val and isinstance(v, StructV):
            # any other construction is fine as long as every rendition field equals the cursor's
            cur = get(eng, st, 'cursor', 'attr')
            ok_val = isinstance(cur, StructV) and all(
                v.fields.get(k_) is not None and cur.fields.get(k_) is not None and g.same_value(eng, st, v.fields[k_], cur.fields[k_])
                for k_ in ('fg', 'bg') + g.FLAGS)
        k = (short(draw), 'cell store @%s: cursor row, cursor column (+1 for the placeholder), cursor rendition' % site_ord(prog, e))
        a = agg.setdefault(k, dict(ok=True, why='', span=e['span'], n=0))
        a['n'] += 1
        if not (ok_row and ok_col and ok_val) and a['ok']:
            a['ok'] = False
            a['why'] = 'row %s (cursor %s), column %s (cursor %s), value built by %r' % (g.term(eng, st, row) if isinstance(row, NumV) else row, g.term(eng, st, cy),
                                                                                    g.term(eng, st, col) if isinstance(col, NumV) else col, g.term(eng, st, cx), pv)
    for (f, c), a in sorted(agg.items()):
        chk.instance('R-FOOT', f, c, a['ok'], detail=a['why'] or '%d visits' % a['n'], span=a['span'], what='draw stores a cell elsewhere or without the cursor rendition: ' + a['why'])
    chk.floor('draw cell stores', len(agg), 1)
    # D4: cursor never beyond the pending-wrap column (inductive, C09) and the advance is min(x + w, columns)
    segs = [s for s in sr['segments'] if s['ep'] == draw and s['func'] == draw]
    bad = []
    for s in segs:
        st = s['st']
        cx = get(eng, st, 'cursor', 'x')
        cols = get(eng, st, 'columns')
        if eng.prove_le(st, cx, cols) is not True:
            bad.append('cursor column %s may exceed the width at the end of an iteration' % g.term(eng, st, cx))
    chk.instance('R-INV', short(draw), 'cursor.x <= columns after every character', bool(segs) and not bad, detail='; '.join(sorted(set(bad))[:2]) or '%d loop iterations paths' % len(segs),
                 span=prog.bodies[draw].span, what='; '.join(sorted(set(bad))[:2]))
    # D5 R-MUST: insert mode shifts before the store; autowrap wraps before the store
    bad = []
    n_irm = n_wrap = 0
    for s in segs:
        st = s['st']
        pre, evs = g.seg_events(dict(kind='backedge', st=st, func=draw, head=s['head']))
        irm = mode_fact(eng, st, IRM)
        mat = g.materialising_indices(eng, st, evs)
        stores = [i for i, ev in enumerate(evs) if ev[0] == 'map.insert' and ev[-1] in funcs and len(ev[1]) == 3 and i not in mat]
        # the shift is the call of insert_characters (however that method goes about it: C13 decides its effect)
        ich = [i for i, ev in enumerate(evs) if ev[0] == 'call' and ev[1] == ep('insert_characters')]
        if irm is True and stores:
            n_irm += 1
            if not ich or ich[0] > stores[0]:
                bad.append('insert mode: the character is stored before the rest of the row is shifted')
            else:
                # the shift must happen where the character is then stored: the cursor does not move
                # between the call that shifts and the store
                calls = [i for i, ev in enumerate(evs) if ev[0] == 'call' and ev[1] == ep('insert_characters') and i < stores[0]]
                start = calls[-1] if calls else ich[0]
                # writes inside insert_characters itself are not between the shift and the store
                depth_end = start
                for i in range(start + 1, stores[0]):
                    ev = evs[i]
                    if ev[0] == 'w' and ev[1] and ev[1][0] == 'cursor' and len(ev[1]) > 1 and ev[1][1] in ('x', 'y'):
                        bad.append('insert mode: the cursor moves (%s) between shifting the row and storing the character, so the shift happened at another position'
                                   % '.'.join(ev[1][:2]))
                        break
        if irm is False and ich:
            bad.append('replace mode: the row is shifted although IRM is off')
    chk.instance('R-MUST', short(draw), 'IRM on: shift, then store; IRM off: no shift', n_irm > 0 and not bad, detail='; '.join(sorted(set(bad))) or '%d insert-mode iterations' % n_irm,
                 span=prog.bodies[draw].span, what='; '.join(sorted(set(bad))))
    # with the cursor past the last column and autowrap off, a printable character of width w is
    # stored so that it ends in the last column: lead cell at column columns - w
    bad = []
    n_pw = 0
    for s in segs:
        st = s['st']
        xh = st.vn.get(('lh', draw, s['head'], 'x'))
        cols = get(eng, st, 'columns')
        if not isinstance(xh, NumV) or eng.prove_cmp(st, 'eq', xh, cols) is not True:
            continue
        if mode_fact(eng, st, DECAWM) is not False:
            continue
        ws = [v for k, v in st.vn.items() if isinstance(k, tuple) and k and k[0] == 'width' and isinstance(v, NumV)]
        if len(ws) != 1 or eng.prove_le(st, NumV(None, 1, 'usize'), ws[0]) is not True:
            continue
        w = ws[0]
        pre, evs = g.seg_events(dict(kind='backedge', st=st, func=draw, head=s['head']))
        stores = [ev for ev in evs if ev[0] == 'map.insert' and ev[-1] in funcs and len(ev[1]) == 3]
        if not stores:
            continue
        n_pw += 1
        col = stores[0][2]
        ok, why = plt.prove_rel(eng, st, 'eq', col, lambda s2: sat_sub(eng, s2, get(eng, s2, 'columns'), NumV(w.sym, w.k, 'u32')))
        if not ok:
            bad.append('lead cell stored at column %s, documented columns - width, not below 0 (%s)' % (g.term(eng, st, col), why))
    chk.instance('R-PLT', short(draw), 'pending wrap + autowrap off: the character overwrites the last column(s)', n_pw > 0 and not bad,
                 detail='; '.join(sorted(set(bad))[:2]) or '%d iteration paths in that state' % n_pw, span=prog.bodies[draw].span,
                 what='; '.join(sorted(set(bad))[:2]) or 'no iteration path with pending wrap and autowrap off was found')
    # must-store: a character of width 1 or 2 is stored (its own text, in the cell at the cursor); a
    # width-2 character additionally stores an empty placeholder in the next cell when there is one
    bad = []
    n_print = 0
    for s in segs:
        st = s['st']
        pre, evs = g.seg_events(dict(kind='backedge', st=st, func=draw, head=s['head']))
        ws = [(k, v) for k, v in st.vn.items() if isinstance(k, tuple) and k and k[0] == 'width' and isinstance(v, NumV)]
        if len(ws) != 1:
            continue
        wk, w = ws[0]
        eid = st.vn.get(('widthopt',) + wk[1:])
        if eid is None or st.vn.get(('tagof', eid)) != 1 or eng.prove_le(st, NumV(None, 1, w.ty), w) is not True:
            continue
        n_print += 1
        stores = [ev for ev in evs if ev[0] == 'map.insert' and ev[-1] in funcs and len(ev[1]) == 3 and isinstance(ev[3], StructV)]
        own = [ev for ev in stores if isinstance(ev[3].fields.get('data'), StrV) and isinstance(ev[3].fields['data'].prov, tuple)
               and ev[3].fields['data'].prov[:1] == ('char',) and (len(ev[3].fields['data'].prov) < 2 or ev[3].fields['data'].prov[1] == wk[1])]
        if not own:
            bad.append('a printable character (width >= 1) is not stored in any cell')
            continue
        if eng.prove_cmp(st, 'eq', w, NumV(None, 2, w.ty)) is True:
            col = own[0][2]
            cols = get(eng, st, 'columns')
            if isinstance(col, NumV):
                ph = [ev for ev in stores if isinstance(ev[3].fields.get('data'), StrV) and ev[3].fields['data'].known == ''
                      and isinstance(ev[2], NumV) and eng.prove_cmp(st, 'eq', ev[2], NumV(col.sym, col.k + 1, 'u32')) is True]
                # no placeholder only when there is no next cell
                if not ph and eng.prove_le(st, cols, NumV(col.sym, col.k + 1, 'u32')) is not True:
                    bad.append('a double-width character can be stored without the empty placeholder although the next cell exists')
    chk.instance('R-MUSTFOOT', short(draw), 'printable characters are stored (wide ones with their placeholder)', n_print > 0 and not bad,
                 detail='; '.join(sorted(set(bad))) or '%d iteration paths with a printable character' % n_print, span=prog.bodies[draw].span,
                 what='; '.join(sorted(set(bad))) or 'no iteration path with a printable character was found')
    # only a character of display width 0 is joined to the previous cell: on every iteration path that
    # rewrites the text of an existing cell, the width of the drawn character was measured and is 0
    bad = []
    n_comb = 0
    for s in segs + [dict(st=st_, head=None, func=draw) for r_ in sr['results'].get(draw, []) for (st_, _ret) in r_.finals]:
        st = s['st']
        if s['head'] is not None:
            pre, evs = g.seg_events(dict(kind='backedge', st=st, func=draw, head=s['head']))
        else:
            evs = st.event_list()
            lh = [i for i, ev in enumerate(evs) if ev[0] == 'loop-head' and ev[1] == draw]
            evs = evs[lh[-1] + 1:] if lh else evs
        joins = [ev for ev in evs if ev[0] == 'w' and ev[1] and ev[1][0] == 'buffer' and ev[1][-1] == 'data']
        if not joins:
            continue
        n_comb += 1
        ws = [(k, v) for k, v in st.vn.items() if isinstance(k, tuple) and k and k[0] == 'width' and isinstance(v, NumV)]
        if not ws:
            bad.append('a character is joined to the previous cell without its display width having been measured')
        else:
            zero = False
            for k, w in ws:
                eid = st.vn.get(('widthopt',) + k[1:])
                if eid is not None and st.vn.get(('tagof', eid)) == 0:
                    zero = True       # width() returned None: no columns
                elif eng.prove_cmp(st, 'eq', w, NumV(None, 0, w.ty)) is True:
                    zero = True
            if not zero:
                bad.append('a character whose display width is not known to be 0 is joined to the previous cell')
    chk.instance('R-WIDTH', short(draw), 'only zero-width characters are joined to the previous cell', n_comb > 0 and not bad,
                 detail='; '.join(sorted(set(bad))) or '%d joining iteration paths, width 0 on each' % n_comb, span=prog.bodies[draw].span,
                 what='; '.join(sorted(set(bad))) or 'no path that joins a mark to the previous cell was found')
    from .rules_c01 import panic_obligations
    panic_obligations(chk, 'C04', eng, only_funcs=funcs)
