"""Registry: property id -> rule modules, explanation text for the evidence file, MANIFEST texts."""

PENDING = {}

REGISTRY = {
    'C01': dict(
        modules=['rules_c01'],
        explanation=(
            'Static panic-freedom / termination argument for the shipping (cfg(not(test))) configuration. '
            'Decided: D1 R-PANIC - every MIR Assert (overflow, bounds, div-by-zero) and every call with a panicking '
            'precondition (unwrap/expect, Index, range slicing, step_by, explicit panic) reached by the abstract interpreter E4 '
            'from every entry point (44 listener methods on Screen x Option-tag/zero partitions x margins partitions, Screen::new/resize, '
            'Parser and ByteParser functions, the FSM coroutine from its entry and from every resume point) is discharged under '
            'the invariant INV (I1-I3, I6) and A-DIM/A-ARG; D2 R-TERM - every loop is a for over a finite iterator, a while-pop '
            'without push, or a coroutine loop whose every cycle passes a yield_, and the one call-graph cycle is bounded; '
            'D3 R-LOCK - no MutexGuard is live at a yield_/send or at a call that may lock the same mutex; D4 R-SEND - only '
            'non-empty strings are sent to the coroutine (except the priming send in new); D5 R-CAP - CSI parameters pushed are in 0..=9999 '
            'and a digit run that fails to parse saturates. NOT decided: stack exhaustion on the 32 KiB coroutine stack and aborts '
            'inside third-party code (A-STACK, A-LIB); println! on a closed stdout (A-IO).'),
        level_text=('Static panic-freedom and termination argument over the type-checked program: every compiler-emitted Assert and every '
                    'precondition-carrying library call reachable from the public entry points is discharged by an abstract interpreter '
                    '(intervals x difference bounds, path-partitioned) under the Screen invariant; loops, the call-graph cycle, lock discipline, '
                    'coroutine send protocol and the CSI parameter cap are decided structurally. Covers all inputs/histories at once, which sampling '
                    'cannot; does not decide stack depth or third-party aborts.'),
        assumes='A-DIM, A-ARG, A-GEN, A-LIB, A-IO, A-STACK, A-PUB, A-TOOL',
        not_decided='Not decided: stack exhaustion on the coroutine stack, aborts inside third-party crates, println! on closed stdout.',
        technique='abstract interpretation over MIR (zone domain, trace partitioning) + CFG/call-graph structural rules',
        rule=('one instance per (rule, function, construct): R-PANIC obligations keyed kind:description#ordinal, R-TERM per loop and '
              'per call-graph cycle, R-LOCK per lock site, R-SEND per send site, R-CAP per push of a CSI parameter; non-trivial = needed '
              'more than a constant check (all except the A-IO / poison notes)'),
    ),
    'C09': dict(
        modules=['rules_c09'],
        explanation=(
            'Inductive invariant proof by abstract interpretation. Decided: D1 R-INV - the invariant I1 (1<=lines,columns), I2 (0<=cursor.y<lines, '
            '0<=cursor.x<=columns), I3 (margins None or 0<=top<bottom<=lines-1), I6 (saved_columns) is established by Screen::new and re-established '
            'at every exit state of every public mutator (all 44 listener methods, resize, ensure_*), started from an arbitrary state satisfying it, '
            'for every Option/zero/margins partition; loop heads and contract calls re-check it. D2 - display() returns exactly `lines` rows '
            '(result created empty, exactly one push per iteration of the loop over 0..lines, dominating the back edge). D3 - every string stored '
            'under the key fg/bg comes from a colour table, the 256-entry palette, the rrggbb formatter with components <= 255, or is a literal colour. '
            'Dirty-index bound (I4) is decided under C17. NOT decided: nothing of the listed components beyond the trusted base.'),
        level_text=('Inductive invariant: the well-formedness invariant (cursor, margins, saved width, dirty indices) is shown to be established by '
                    'the constructor and preserved by every public mutator from an arbitrary invariant state, by abstract interpretation of all paths; '
                    'display() row count and the provenance of every fg/bg string are decided structurally / by value provenance. This is a proof over all '
                    'histories by induction, not a sample of end states.'),
        not_decided='Not decided: nothing of the listed components beyond the trusted base; cell fg/bg are covered through the cursor rendition they are copied from.',
        technique='abstract interpretation (inductive invariant at every exit, loop head and contract call) + value provenance',
        rule=('R-INV: one instance per (mutator, clause) over all exit states, plus per loop-head / call-site invariant obligation; R-LEN: 3 structural '
              'clauses on display(); R-COLOUR: one instance per insert site of an fg/bg value'),
    ),
    'C03': dict(
        modules=['rules_c03'],
        engine='E0+E2+E4+E5+E6',
        explanation=(
            'Decided on the shipping cfg(not(test)) copy of the recogniser: D1 R-CONST - every C0/C1/final constant of control.rs and the classes '
            'BASIC, ALLOWED_IN_CSI, OSC_TERMINATORS, SPECIAL equal the ECMA-48/VT100 values (read after rustc evaluated them); D2 R-DISPATCH - the decision '
            'tables of escape_dispatch, basic_dispatch and csi_dispatch, extracted by abstract interpretation for every character class x parameter count '
            '(0,1,2,3) x private flag, equal the documented table (method and where each argument comes from; unknown finals call nothing); D3 R-FSM - the '
            'transition relation of the coroutine, extracted from the generalised abstract state at each of its suspension points for every character class '
            'in both UTF-8 and 8-bit mode, is simulated by the reference automaton from the ground state on every care entry (next state, listener calls '
            'expanded through the extracted dispatch tables, ground flag); the plain-text fast path of Parser::feed composed with it delivers each '
            'non-special character to draw exactly once and sends every other character exactly once; D4 R-CAP - empty parameter = 0, saturating at 9999. '
            'Don\'t-care (statement silent): ESC followed by a C0 control, ESC inside CSI, OSC codes R/P/p, ESC x inside an OSC payload, whether CAN/SUB is '
            'also handed to draw. NOT decided: the concatenation of parameter digits into a number is the library parse (A-LIB).'
            ' Added clauses: every digit inside a CSI parameter is appended to the run being collected (leading zeros cannot change the value), with witnesses for runs longer than five digits.'),
        level_text=('Automaton and decision-table extraction by abstract interpretation of the coroutine and dispatch functions over the finite set of '
                    'character classes, compared entry by entry with a reference grammar written from the statement; covers every state x class x mode of '
                    'the copy that ships (which no unit test executes), not sampled strings.'),
        assumes='A-GEN, A-LIB, A-TOOL',
        not_decided='Not decided: digit-string to number conversion (library parse); don\'t-care entries listed in the evidence explanation.',
        technique='finite-domain abstract interpretation (E5 automaton / E6 decision-table extraction) + simulation check against a reference automaton',
        rule=('R-CONST per constant; R-DISPATCH per (function, class, parameter count, private); R-FSM per (reference state, class, mode) care entry and '
              'per (class, flag) of the feed wrapper; R-CAP per parameter push'),
    ),
    'C19': dict(
        modules=['rules_c19'],
        engine='E0+E2+E3+E4+E5',
        explanation=(
            'Decided on the shipping recogniser: D1 R-FSM - the OSC sub-automaton (both introducers, code byte, string state, ESC pairing) is simulated '
            'by the reference automaton for every character class: terminators are exactly BEL, U+009C and ESC \\; every other character stays in the '
            'string state; no listener call other than set_icon_name / set_title is made in any OSC state (so nothing is drawn and the cursor does not move). '
            'D2 payload data path from the generalised string state: every non-ESC character is appended exactly once, ESC is not appended; on each of the '
            'three terminators the outcomes are exactly {nothing, icon, title, icon+title}, selected by the code tests "01" / "02", and the argument is '
            'payload.chars().skip(1).collect() with no other truncation; witnesses (ESC ] 0 ; a b BEL etc., from the generalised ESC state) give the exact '
            'strings incl. backslash, ;, space, non-ASCII and the empty payload. set_title / set_icon_name write only their field and store the argument '
            'verbatim. D3 R-CONST for ST, ST_C0, ST_C1, OSC_TERMINATORS. Don\'t-care: ESC x pairs inside a payload, multi-digit codes.'),
        level_text=('Automaton extraction by abstract interpretation over all character classes plus symbolic data-path clauses for the payload, compared '
                    'with a reference written from the standard rather than from the repository\'s own (previously wrong) constants.'),
        assumes='A-GEN, A-LIB, A-TOOL',
        not_decided='Not decided: behaviour on ESC x pairs inside a payload and multi-digit codes (statement silent).',
        technique='finite-domain abstract interpretation (automaton extraction) + string-provenance data-path rules + may-write frames',
        rule='R-CONST per constant; R-FSM per care transition of the OSC states and per payload/terminator clause; R-FRAME / R-COPY per setter',
    ),
    'C20': dict(
        modules=['rules_c20'],
        engine='E0+E2+E3+E4+E5',
        explanation=(
            'D1 R-CONST - all 4x256 entries of LAT1_MAP, VT100_MAP, IBMPC_MAP, VAX42_MAP, read after rustc evaluated the const initialisers, equal '
            'reference/charsets.json (Latin-1 identity; DEC graphics per the Linux console table pyte documents, transcribed independently; CP437 per the Linux '
            'console table with the high half generated from Python\'s cp437 codec; VAX42 = CP437 with its 8 substitutions, frozen from reviewed values); '
            'MAPS = {B,0,U,V}. D2 - new/reset leave G0 active with G0=Latin-1 and G1=DEC graphics (the stored tables are compared entry by entry); '
            'shift_out/shift_in select G1/G0 and write nothing else; define_charset installs MAPS[code] into G0 for "(" and G1 for ")" and does nothing for any '
            'other code/mode (decision table over 36 code x mode classes). D3 - the per-character mapping closure of draw, applied abstractly to '
            'representative code points (incl. 0x00, 0x5f, 0x7e, 0xff, 0x100, astral) under each active set with distinguishable tables, returns table[c] '
            'for c <= 255 and c itself above. D4 R-FSM - ESC ( X / ESC ) X reach define_charset(X, kind) and SO/SI reach shift_out/in iff the parser is '
            'in 8-bit mode; they are consumed without effect in UTF-8 mode. NOT decided: nothing of substance beyond the trusted base.'
            ' Added clauses: the display width is measured on the translated character; translation is decided on draw() as a whole (any helper); bytes reach draw() as code points of the same value in 8-bit mode.'),
        level_text=('Entry-by-entry comparison of the compiler-evaluated tables with an independently sourced reference, decision-table extraction for '
                    'define_charset, abstract application of the translation closure, and automaton extraction for the designator / shift paths - all 1024 '
                    'entries and every designator class, not three sampled bytes.'),
        assumes='A-GEN, A-LIB, A-PUB, A-TOOL',
        not_decided='The 8 VAX42 substitutions have no independent offline source (frozen reviewed values).',
        technique='evaluated-constant table comparison + decision-table / automaton extraction by abstract interpretation',
        rule='R-CONST per table (256 entries each); R-TABLE MAPS; R-STATE per function; R-DISPATCH per (code, mode); R-TRANSLATE per (code point, active set, tables); R-FSM per care transition',
    ),
    'C02': dict(
        modules=['rules_c02'],
        engine='E0+E1+E4',
        explanation=(
            'Chunking independence is a relation between two runs and is not decided as such. Decided is the structure that makes it true: D1 R-FOLD - '
            'Parser::feed is exactly one loop over data.chars() with no call or state change outside the loop and a body that never looks at the chunk '
            'again, so feed(a);feed(b) executes the same sequence of loop bodies from the same state as feed(a++b) (the recogniser position lives in the '
            'coroutine, the fast-path flag in self; an empty chunk runs zero iterations). D2 - the 8-bit branch of ByteParser::feed is the element-wise '
            'map `u8 as char` over the chunk and reads no carried state. D3 R-STREAM - on every UTF-8 path the chunk is handed exactly once to a streaming '
            'encoding_rs Decoder that is a field of the ByteParser (constructed only in new / select_other_charset), with last=false, and its output is passed '
            'to Parser::feed exactly once; no whole-buffer decode exists. With that, independence at byte offsets reduces to the decoder\'s documented '
            'streaming contract (A-LIB). NOT decided: equality of full state snapshots over all streams x partitions as such.'
            " Added clauses: the output buffer handed to the streaming decoder has the decoder's own with-replacement bound for data.len() bytes (otherwise OutputFull drops the rest of the chunk); the 8-bit text is decided semantically (the mapping applied to an arbitrary byte b yields char(b); collect- and push-loop forms)."),
        level_text=('Structural proof obligations (fold shape, homomorphism, streaming-decoder typestate) whose conjunction implies chunk independence '
                    'relative to the library contracts; decided on every path of the two feed functions rather than on sampled split points.'),
        assumes='A-GEN, A-LIB, A-TOOL',
        not_decided='Not decided: the two-run equality itself; encoding_rs internals.',
        technique='CFG shape rules (fold / homomorphism) + typestate protocol rule over abstractly interpreted paths',
        rule='R-FOLD: 5 clauses on Parser::feed; R-STREAM: protocol clauses on ByteParser (per-path aggregation)',
    ),
    'C11': dict(
        modules=['rules_c02'],
        entry='run_c11',
        engine='E0+E1+E4+E6',
        explanation=(
            'The decoded characters for all byte strings are the behaviour of encoding_rs, not of memterm\'s source, and are NOT decided here. Decided is the '
            'discipline around the library: D1 R-STREAM - the chunk goes exactly once, with last=false, to a streaming Decoder held in the ByteParser; its output '
            'goes exactly once to the recogniser; the decoder is constructed only at construction / mode switch; no whole-buffer decode remains (so an incomplete '
            'tail is held by the decoder and ill-formed input is replaced per the WHATWG rule the library documents). D2 - 8-bit mode maps each byte with '
            '`u8 as char` (identity on code points by language semantics). D3 R-DISPATCH - select_other_charset: "@" switches to 8-bit and discards the carry, '
            '"G"/"8" switch to UTF-8, every other code does nothing. D4 - the byte parser\'s panic obligations are discharged (shared with C01).'
            ' Added clauses: output-buffer capacity (with-replacement bound for the chunk); selecting UTF-8 again must not re-create the decoder on a path where the parser may already be in UTF-8 mode (carried bytes would be dropped).'),
        level_text=('Typestate / protocol rule for the streaming decoder, cast-only check of the 8-bit map and decision-table extraction of the mode switch; '
                    'honest scope: decoder correctness itself is delegated to the library contract.'),
        assumes='A-LIB, A-TOOL',
        not_decided='Not decided: the decoded characters themselves for all byte strings (library behaviour).',
        technique='typestate protocol rule + decision-table extraction by abstract interpretation',
        rule='R-STREAM protocol clauses; R-DISPATCH per mode-switch code class; R-PANIC obligations of the byte parser',
    ),
    'C10': dict(
        modules=['rules_screen'], entry='run_c10',
        explanation=('D1 R-FRAME - the transitive may-write set of display() on Screen is empty (so two histories that differ only in display() calls execute '
                     'identical stores). D2 R-ABSENT - in every function that touches the grid, (a) every entry().or_insert*() materialises the canonical default '
                     '(empty row / default_char()), (b) for every Option-returning lookup on the grid that is branched on, the absent-branch touches every key the '
                     'present-branch stores: absence and a materialised default are indistinguishable to later operations. D3 - display() iterates rows 0..lines and '
                     'columns 0..columns in ascending Range order. NOT decided: the produced strings for every grid (wide-character skipping depends on unicode-width data).'),
        level_text='Purity by may-write analysis plus representation-independence of the sparse grid by comparing the present/absent continuations of every lookup; a relation between pairs of histories reduced to per-site structural obligations.',
        not_decided='Not decided: the rendered strings themselves (unicode-width values).',
        technique='interprocedural may-write analysis + branch-footprint comparison over abstractly interpreted paths',
        rule='R-FRAME(display); R-ABSENT per materialisation site and per branched lookup; R-RENDER loop ranges',
    ),
    'C05': dict(
        modules=['rules_screen'], entry='run_c05',
        explanation=('D1 R-FRAME - the 11 cursor operations may write only cursor.x / cursor.y. D3 R-ZERO1 - for every count/coordinate parameter the abstract path set '
                     'with Some(0) equals the one with None (both mean 1). D5 R-PLT - on every exit state of every partition the final (x, y) equals the documented closed '
                     'form (CUU max(y-n, top), CUD min(y+n, bottom), CUF min(x+n, columns-1), CUB (min(x, columns-1)) -. n, CHA/VPA/CUP clamps, origin mode relative to and '
                     'confined in the region, CUP outside the region ignored), proved by enumerating the orderings of the min/max/saturating atoms. Dispatch of the finals is C03. '
                     'NOT decided: paths on which the origin-mode flag is undecided are compared under both values only where the code tests it.'),
        level_text='Closed-form equivalence of the final cursor terms over all states and parameters (piecewise-linear, decided by ordering enumeration), frames by may-write analysis.',
        not_decided='', technique='abstract interpretation + piecewise-linear term equivalence (E7) + may-write frames',
        rule='R-FRAME per operation; R-ZERO1 per (operation, parameter, partition); R-PLT per operation over all exit states',
    ),
    'C13': dict(
        modules=['rules_screen'], entry='run_c13',
        explanation=('D1 R-FRAME {buffer, dirty}; R-FOOT every cell operation is on the cursor row at a column >= the cursor column; R-GRID every stored column key is < columns '
                     '(nothing is parked beyond the right edge, so nothing can come back - the inductive form of "discarded characters never reappear"); R-ZERO1 0 == absent; '
                     'R-ABSENT present/absent branches agree; R-BLANK stored blanks are default_char() or moved cells (attributes travel with the moved value); R-PANIC. '
                     'NOT decided: the exact shift map as a permutation (covered by footprint + bounds + value provenance, not by a closed form).'),
        level_text='Footprint, key-bound and provenance obligations on every symbolic grid operation of ICH/DCH, for all states and counts.',
        not_decided='', technique='abstract interpretation: symbolic footprint + key-bound obligations',
        rule='per operation site: R-FOOT, R-GRID, R-BLANK; per lookup: R-ABSENT; per partition: R-ZERO1',
    ),
    'C07': dict(
        modules=['rules_screen'], entry='run_c07',
        explanation=('R-FRAME {buffer, dirty}; R-NOREAD erase operations read neither margins nor mode (region / origin mode cannot restrict them); absent selector == 0 and zero count == absent '
                     '(path-set equality); R-FOOT every stored cell lies in the documented range for the selector of its path (EL0 [x,..), EL1 [..,x], EL2 row; ED adds rows below / above / all; '
                     'ECH [x, x+n)); R-GRID column keys < columns (EL1 at the pending-wrap column); R-BLANK the stored value is the cursor rendition; unsupported selectors change no cell; R-PANIC. '
                     ''),
        level_text='May- and must-footprint of the erase operations against the documented range per selector (every stored cell lies in it, and a no-early-exit loop storing a cell per iteration covers it), plus frames, key bounds and value comparison with the cursor rendition.',
        not_decided='', technique='abstract interpretation: symbolic footprint + may-read/may-write analysis',
        rule='per site R-FOOT/R-GRID/R-BLANK; per partition R-ZERO1; R-FRAME/R-NOREAD per function',
    ),
    'C06': dict(
        modules=['rules_screen'], entry='run_c06',
        explanation=('R-FRAME per operation; R-REKEY index/reverse_index scroll iff the cursor is on the bottom/top margin, leave cursor.y alone when scrolling, rebuild every row of the new map from '
                     'the documented source row (inside the region: neighbour row, outside: itself, vacated margin row: blank) and otherwise move the cursor by one clamped to the margin; '
                     'IL/DL touch only rows in [cursor row, bottom] with the cursor inside the region and return the carriage; R-GRID no row key >= lines; R-ABSENT absent source rows are handled like blank ones; '
                     'R-DIRTY; R-ZERO1; DECSTBM: CSI r removes the region, an accepted region homes the cursor (acceptance rule I3 is C09). NOT decided: cell-level equality with a reference for every state.'),
        level_text='Row re-keying map, region confinement and sparse-row handling decided on the symbolic row operations for all regions, cursor rows and counts.',
        not_decided='', technique='abstract interpretation: symbolic row re-keying / footprint obligations',
        rule='R-REKEY per row store; R-FOOT per IL/DL row operation; R-ABSENT per lookup; R-GRID/R-DIRTY per site',
    ),
    'C17': dict(
        modules=['rules_screen'], entry='run_c17',
        explanation=('R-DIRTY - on every explored path piece (to a function exit or a loop back edge) of every function that touches the grid, each row that is written (cell or row stored/removed, '
                     'write through an element reference, whole-buffer replacement) is covered by a dirty mark on that path (single row or range containing it); inside a loop a written row may stay '
                     'pending only while it is the current cursor row, and the exit paths then mark the cursor row. Screen-wide operations (reset, alignment display, scroll, resize, DECSCNM through either '
                     'spelling) mark 0..lines. R-DIRTYBOUND - every index put into the set is < lines and a shrink prunes it. Over-approximates "changed" by "written" (sound for the property).'),
        level_text='Ghost-state covering argument over all abstract paths: written rows vs dirty marks compared symbolically in the zone domain.',
        not_decided='Minimality of the dirty set is not required by the property.', technique='abstract interpretation with a ghost written/marked relation',
        rule='R-DIRTY per write site and per screen-wide operation; R-DIRTYBOUND per mark site',
    ),
    'C08': dict(
        modules=['rules_screen2'], entry='run_c08',
        explanation=('D1 R-TABLE - TEXT, FG_ANSI, BG_ANSI, FG_AIXTERM, BG_AIXTERM (obtained by interpreting the lazy_static initialisers), FG_256/BG_256, and all 256 palette entries (RGB triple '
                     'of every entry vs the xterm palette computed independently, plus the rrggbb formatter template) equal the documented tables. D4 - the palette lookup index ranges over exactly '
                     '0..=255 and the vector has 256 entries. D2/D3/D6 - the rendition after select_graphic_rendition equals the documented left-to-right fold for every single code '
                     '(0..=110 + samples in quick, 0..=9999 in thorough) from an arbitrary previous rendition, for all 38/48;5;n and 38/48;2;r;g;b forms incl. truncated tails, out-of-range components and '
                     'unknown sub-modes (sub-parameter consumption), and for mixed lists: decided by abstract interpretation with the parameter list fixed and the previous rendition symbolic. '
                     'D5 - SGR writes only cursor.attr (cells on screen never change); clone_with_data copies all rendition fields. NOT decided: arbitrary longer lists beyond the fold structure shown by the enumerated ones.'),
        level_text='Finite-domain decision of the SGR fold (every code, every extended-colour form) by abstract interpretation with symbolic previous rendition, plus table / palette comparison on evaluated values.',
        not_decided='Longer arbitrary lists are covered by the fold structure, not enumerated.', technique='table comparison on interpreted initialisers + finite-domain abstract interpretation of the fold',
        rule='R-TABLE per table; R-GUARD palette index; R-FOLD over the enumerated parameter lists; R-FRAME; R-COPYALL',
    ),
    'C18': dict(
        modules=['rules_screen2'], entry='run_c18',
        explanation=('D1 - reset clears the stops and extends them with (8..columns).step_by(8) (iterator operands read from the abstract iterator). D2 - HTS inserts exactly the cursor column; TBC 0/absent '
                     'removes the stop at the cursor, 3 clears all, other selectors do nothing; both write only tabstops. D3 - HT writes only cursor.x and, for 80 (stop set, cursor column) classes with a symbolic '
                     'width (unsorted sets, a stop at 0, the pending-wrap column, stops beyond a narrowed width), ends at min(least stop strictly right, columns-1) or the last column; the scan is order independent (sorted).'),
        level_text='Decision tables for HTS/TBC on all paths; HT decided on representative stop sets with a symbolic screen width by abstract interpretation + term equivalence.',
        not_decided='', technique='abstract interpretation + decision-table extraction + term equivalence', rule='R-TABS clauses; R-FRAME; R-ORDER',
    ),
    'C14': dict(
        modules=['rules_screen2'], entry='run_c14',
        explanation=('D1 R-COPYALL - save_cursor pushes one Savepoint whose 6 fields come from the live cursor, G0, G1, shift state and the DECOM / DECAWM mode bits. D2 - restore_cursor reads every Savepoint field back. '
                     'D3 R-WHO - only save_cursor pushes and only restore_cursor pops the stack; resize pairs them. D4/D5 - on every path restore_cursor restores cursor and charset state and touches neither grid, margins, '
                     'tab stops nor geometry (path-sensitive write sets from E4, which sees that the re-enabled modes are DECOM/DECAWM only); with an empty stack it homes the cursor and clears origin mode; the restored position '
                     'satisfies the invariant (C09). NOT decided: LIFO round-trip equalities over intervening histories as such (value level).'),
        level_text='Field-by-field copy/consume obligations, who-may-call on the stack, and path-sensitive frames.', not_decided='Round-trip value equalities over arbitrary intervening histories.',
        technique='abstract interpretation (provenance of pushed fields, path-sensitive write sets) + who-may-call rule', rule='R-COPYALL, R-WHO, R-RESTORE, R-PAIR, R-FRAME',
    ),
    'C15': dict(
        modules=['rules_screen2'], entry='run_c15',
        explanation=('D1 R-KILL - on every path reset() overwrites/clears every Screen field except savepoints, lines, columns (the rule fails closed if Screen gains a field). D2 R-DEP - the exit values are the power-on '
                     'constants: cursor home and visible, default rendition (read after the mode set was reset), no margins, modes {DECAWM, DECTCEM}, empty title/icon name, G0 Latin-1 / G1 DEC graphics, no saved width, all rows dirty; '
                     'tab stops per C18. D3 - Screen::new is the struct literal followed by reset() and nothing else, so state(h . RIS) equals state(new(columns, lines)) on every field but the saved-cursor stack, for every history. '
                     'D4 - ESC c dispatches reset(). NOT decided: parser-level state (UTF-8 flag, decoder carry) is not reset by RIS.'),
        level_text='Must-write plus value-determinacy proof over all paths of reset(), tied to the constructor structure.', not_decided='Parser-level state is outside RIS.',
        technique='abstract interpretation (must-write + constant exit values) + structural constructor rule', rule='R-KILL, R-DEP, R-NEW, R-DISPATCH',
    ),
    'C16': dict(
        modules=['rules_screen2'], entry='run_c16',
        explanation=('D1 - every path on which the requested size provably equals the current one performs no store and no collection operation. D2 - on size-changing paths the region is None and the new geometry installed at exit, '
                     'all rows of the new geometry are marked, the cursor satisfies the invariant against the new bounds. D3 - on shrinking paths rows >= new height and cells >= new width are pruned (retain with key < new bound). '
                     'D4 - surplus rows are dropped by delete_lines(old-new) called with the cursor on row 0 and no scrolling region in the state at the call. NOT decided: exact placement of surviving content for every state (the row map of delete_lines is C06).'),
        level_text='Path-restricted effect freedom, exit invariant, pruning obligations and call-site state predicates on all abstract paths of resize.', not_decided='Cell-level placement of surviving content.',
        technique='abstract interpretation with call-site state snapshots', rule='R-NOOP, R-RESIZE, R-DIRTY, R-GRID, R-INV',
    ),
    'C12': dict(
        modules=['rules_screen2'], entry='run_c12',
        explanation=('D1 R-CONST - the 7 mode constants and the power-on mode set. D2-D5 - decision table over 20 mode numbers x {private, ANSI} x {SM, RM}, each run abstractly from an arbitrary invariant state: the (shifted) number is added / the set rebuilt without it; '
                     'DECCOLM remembers the width, switches to 132 (RM restores), erases and homes; DECOM homes; DECSCNM sets/clears reverse on the current rendition and marks all rows (either spelling); DECTCEM shows/hides the cursor; every other number changes nothing but the mode set. '
                     'Lists: union / difference of exactly the listed numbers on a known set. D6 - IRM / DECAWM are consulted by draw, LNM by linefeed. NOT decided: repeated set/set of DECCOLM and other value-level interplay with DECSC/DECRC/resize.'),
        level_text='Decision-table extraction for SM/RM by abstract interpretation with the mode list fixed and the screen state symbolic.', not_decided='Value-level interplay of repeated DECCOLM with save/restore and resize.',
        technique='finite-domain abstract interpretation (decision table)', rule='R-CONST, R-TABLE, R-MODES per (number, private, SM/RM), R-MUST, R-DIRTY',
    ),
    'C04': dict(
        modules=['rules_screen2'], entry='run_c04',
        explanation=('Decided (the discipline around the value-level behaviour): D1 R-FRAME draw writes only buffer, dirty, cursor.x, cursor.y (through linefeed/index/insert_characters). D2/D3 R-FOOT - every cell draw itself stores is on the cursor row, at the cursor column or the next one (placeholder), '
                     'and is built by clone_with_data from the cursor rendition (R-COPYALL: all 8 rendition fields); R-GRID column keys < columns, row keys < lines. D4 - cursor.x <= columns after every character. D5 R-MUST - in insert mode the row is shifted before the store and never in replace mode. '
                     'D7 R-ABSENT / R-DIRTY for the combining-mark paths. R-PANIC for draw. NOT decided: the resulting grid for every state x text (which characters are wide / zero-width / combining and NFC composition depend on unicode-width and unicode-normalization data).'),
        level_text='Structural obligations (frame, footprint, provenance, order) on every abstract path of draw; the Unicode-data-dependent cell contents are explicitly not decided.',
        not_decided='Cell contents for every state x text (Unicode width / normalisation data).', technique='abstract interpretation: footprint, provenance and order obligations',
        rule='R-FRAME, R-FOOT per store site, R-GRID, R-ABSENT, R-DIRTY, R-COPYALL, R-MUST, R-INV, R-PANIC',
    ),
}


# clauses added after the seeded rounds (DESIGN.md 12.6 / 12.7)
ADDED = {
         'C04': ' Added clauses: R-MUST the cursor does not move between the insert-mode shift and the store; R-WIDTH only characters whose measured width is 0 / none are joined to the previous cell; R-MUSTFOOT printable characters are stored, wide ones with their empty placeholder whenever the next cell exists; the stored rendition is compared field-wise with the cursor rendition. The scroll rule of index (re-keying inside the region, the vacated row blank, also on a one-row screen) is part of the check: it is what a wrap at the bottom margin does to the grid.',
         'C06': ' Added clause: R-MUSTFOOT IL/DL rewrite every row from the cursor row to the bottom margin (a no-early-exit loop touching the row of its element covers that range). The parser\'s parameter fidelity (R-CAP: empty = 0, the pushed value is min(parsed number, 9999) - the number itself, not a narrowed copy) is part of the check, since the operation\'s numeric parameter arrives through it. With it go the dispatch rows of this property\'s own finals (method and argument sources for 0..3 parameters, private or not) and the witnesses that nothing of an abandoned control sequence is carried into the next one.',
         'C07': ' Added clauses: R-MUSTFOOT every documented cell is erased (no-early-exit loop storing a cell per iteration covers the documented columns; ED: row loop with an inner all-columns loop plus EL for selectors 0/1); a removal from the grid is allowed only where the cursor rendition equals default_char() in that state. The parser\'s parameter fidelity (R-CAP: empty = 0, the pushed value is min(parsed number, 9999) - the number itself, not a narrowed copy) is part of the check, since the operation\'s numeric parameter arrives through it. With it go the dispatch rows of this property\'s own finals (method and argument sources for 0..3 parameters, private or not) and the witnesses that nothing of an abandoned control sequence is carried into the next one.',
         'C08': ' Added clauses: after a reset inside a parameter list `reverse` is the DECSCNM bit of that path; what format! produces is decided from the decoded format template and the component bounds; the parser\'s SGR data path (`CSI .. m` hands the listener exactly the parameters of this sequence, in order, also after a cancelled / skipped earlier sequence) is part of the check. The parser\'s parameter fidelity (R-CAP: empty = 0, the pushed value is min(parsed number, 9999) - the number itself, not a narrowed copy) is part of the check, since the operation\'s numeric parameter arrives through it.',
         'C10': ' Added clauses: R-AGREE display() measures cell width as draw() does (char width of the first character of the cell text); rows/columns loops are recognised by the value of the iterated range in either loop or map/collect form, in display or its private helpers.',
         'C12': ' Added clauses: the mode set after SM/RM is decided on exactly known initial sets; DECCOLM remembers the width it leaves and returns to it; the SM/RM data path of the parser (numbers and private flag of this sequence only) is part of the check; DECCOLM erases the screen of the new geometry (the erase follows the last growth of the width). The parser\'s parameter fidelity (R-CAP: empty = 0, the pushed value is min(parsed number, 9999) - the number itself, not a narrowed copy) is part of the check, since the operation\'s numeric parameter arrives through it.',
         'C13': ' Added clauses: R-MUSTFOOT every cell from the cursor column to the right edge is rewritten; blanks stored by helpers called from ICH/DCH are checked too. The parser\'s parameter fidelity (R-CAP: empty = 0, the pushed value is min(parsed number, 9999) - the number itself, not a narrowed copy) is part of the check, since the operation\'s numeric parameter arrives through it. With it go the dispatch rows of this property\'s own finals (method and argument sources for 0..3 parameters, private or not) and the witnesses that nothing of an abandoned control sequence is carried into the next one. The grid-bounds rule is applied to every grid mutator (ICH / DCH rely on no cell living beyond the right edge of any row).',
         'C16': ' Added clauses: the cursor ends on a cell of the new screen (x < columns); the DECCOLM round trip (remember / return / forget). The cells beyond the new width are pruned in every row: the retain is on every path through the body of a loop that walks all rows (no filtering adaptor). The grid-bounds rule over every grid mutator is part of the check (resize prunes beyond the new bounds and relies on nothing living beyond the current ones).',
         'C17': ' Added clauses: a row the cursor leaves inside a loop is marked before the next iteration; the mark after a loop must cover the pending row; rows written in a range loop may be marked by a range (or an insert loop over the range) after it.',
         'C18': ' Added clauses: default stops may be installed by extend or by an insert loop over (8..columns).step_by(8); HTS/TBC fall back to a decision on exactly known stop sets when the operation is guarded differently; a counting `while` loop or a collected range is accepted for the reset stops on the value of the range. The parser\'s parameter fidelity (R-CAP: empty = 0, the pushed value is min(parsed number, 9999) - the number itself, not a narrowed copy) is part of the check, since the operation\'s numeric parameter arrives through it. With it go the dispatch rows of this property\'s own finals (method and argument sources for 0..3 parameters, private or not) and the witnesses that nothing of an abandoned control sequence is carried into the next one.',
         'C01': ' Added clause: R-TERM for `while` loops with a comparison guard is a ranking argument read off the abstract paths through the body (the guard compares a local with a value the loop leaves alone and every path to the back edge moves the local towards it).',
         'C19': ' Added clause: the streaming clause of C02/C11 (payloads and terminators cut inside a multi-byte character reach the recogniser unchanged) is part of the check. Which code selects which setter is decided by running the extracted automaton on every code character 0-9 and letters with each terminator.',
         'C20': ' Added clauses: the 8-bit clause of C11; in UTF-8 mode no reached state of the recogniser lets SO / SI through to shift_in / shift_out (also inside a CSI or OSC).',
         'C05': ' Added clause: The parser\'s parameter fidelity (R-CAP: empty = 0, the pushed value is min(parsed number, 9999) - the number itself, not a narrowed copy) is part of the check, since the operation\'s numeric parameter arrives through it. With it go the dispatch rows of this property\'s own finals (method and argument sources for 0..3 parameters, private or not) and the witnesses that nothing of an abandoned control sequence is carried into the next one.',
         'C09': ' Added clauses: colour values taken from a table are decided on the members of the evaluated table (documented names / 6-digit hex; palette entries rendered from the decoded format template), not on the table name; a whole-set replacement of the dirty set counts as a clear and what it installs must be rows of the screen.',
         'C03': ' The byte front end is part of the check (8-bit mode: byte b reaches the recogniser as code point b, so that the C1 introducers and terminators are recognised; UTF-8 mode: one streaming decode per chunk).',
         'C11': ' Added clause: the streaming decoder is built by a constructor that does not sniff a byte-order mark (a stream starting FF FE must not turn it into a UTF-16 decoder).',
         'C02': ' The decoder constructor must not sniff a byte-order mark.',
}
for _k, _t in ADDED.items():
    REGISTRY[_k]['explanation'] = REGISTRY[_k]['explanation'] + _t
