"""Registry: property id -> rule modules, explanation text for the evidence file, MANIFEST texts."""

PENDING = {}

REGISTRY = {
    'C01': dict(
        modules=['rules_c01'],
        explanation=(
            'Static panic-freedom / termination argument for the shipping (cfg(not(test))) configuration. '
            'Decided: D1 R-PANIC - every MIR Assert (overflow, bounds, div-by-zero) and every call with a panicking '
            'precondition (unwrap/expect, Index, range slicing, step_by, explicit panic) reached by the abstract interpreter E4 '
            'from every entry point (44 listener methods on Screen x Option-tag/zero partitions x margins partitions, Screen::new/resize, '
            'Parser and ByteParser functions, the FSM coroutine from its entry and from every resume point) is discharged under '
            'the invariant INV (I1-I3, I6) and A-DIM/A-ARG; D2 R-TERM - every loop is a for over a finite iterator, a while-pop '
            'without push, or a coroutine loop whose every cycle passes a yield_, and the one call-graph cycle is bounded; '
            'D3 R-LOCK - no MutexGuard is live at a yield_/send or at a call that may lock the same mutex; D4 R-SEND - only '
            'non-empty strings are sent to the coroutine (except the priming send in new); D5 R-CAP - CSI parameters pushed are in 0..=9999 '
            'and a digit run that fails to parse saturates. NOT decided: stack exhaustion on the 32 KiB coroutine stack and aborts '
            'inside third-party code (A-STACK, A-LIB); println! on a closed stdout (A-IO).'),
        level_text=('Static panic-freedom and termination argument over the type-checked program: every compiler-emitted Assert and every '
                    'precondition-carrying library call reachable from the public entry points is discharged by an abstract interpreter '
                    '(intervals x difference bounds, path-partitioned) under the Screen invariant; loops, the call-graph cycle, lock discipline, '
                    'coroutine send protocol and the CSI parameter cap are decided structurally. Covers all inputs/histories at once, which sampling '
                    'cannot; does not decide stack depth or third-party aborts.'),
        assumes='A-DIM, A-ARG, A-GEN, A-LIB, A-IO, A-STACK, A-PUB, A-TOOL',
        not_decided='Not decided: stack exhaustion on the coroutine stack, aborts inside third-party crates, println! on closed stdout.',
        technique='abstract interpretation over MIR (zone domain, trace partitioning) + CFG/call-graph structural rules',
        rule=('one instance per (rule, function, construct): R-PANIC obligations keyed kind:description#ordinal, R-TERM per loop and '
              'per call-graph cycle, R-LOCK per lock site, R-SEND per send site, R-CAP per push of a CSI parameter; non-trivial = needed '
              'more than a constant check (all except the A-IO / poison notes)'),
    ),
    'C09': dict(
        modules=['rules_c09'],
        explanation=(
            'Inductive invariant proof by abstract interpretation. Decided: D1 R-INV - the invariant I1 (1<=lines,columns), I2 (0<=cursor.y<lines, '
            '0<=cursor.x<=columns), I3 (margins None or 0<=top<bottom<=lines-1), I6 (saved_columns) is established by Screen::new and re-established '
            'at every exit state of every public mutator (all 44 listener methods, resize, ensure_*), started from an arbitrary state satisfying it, '
            'for every Option/zero/margins partition; loop heads and contract calls re-check it. D2 - display() returns exactly `lines` rows '
            '(result created empty, exactly one push per iteration of the loop over 0..lines, dominating the back edge). D3 - every string stored '
            'under the key fg/bg comes from a colour table, the 256-entry palette, the rrggbb formatter with components <= 255, or is a literal colour. '
            'Dirty-index bound (I4) is decided under C17. NOT decided: nothing of the listed components beyond the trusted base.'),
        level_text=('Inductive invariant: the well-formedness invariant (cursor, margins, saved width, dirty indices) is shown to be established by '
                    'the constructor and preserved by every public mutator from an arbitrary invariant state, by abstract interpretation of all paths; '
                    'display() row count and the provenance of every fg/bg string are decided structurally / by value provenance. This is a proof over all '
                    'histories by induction, not a sample of end states.'),
        not_decided='Not decided: nothing of the listed components beyond the trusted base; cell fg/bg are covered through the cursor rendition they are copied from.',
        technique='abstract interpretation (inductive invariant at every exit, loop head and contract call) + value provenance',
        rule=('R-INV: one instance per (mutator, clause) over all exit states, plus per loop-head / call-site invariant obligation; R-LEN: 3 structural '
              'clauses on display(); R-COLOUR: one instance per insert site of an fg/bg value'),
    ),
    'C03': dict(
        modules=['rules_c03'],
        engine='E0+E2+E4+E5+E6',
        explanation=(
            'Decided on the shipping cfg(not(test)) copy of the recogniser: D1 R-CONST - every C0/C1/final constant of control.rs and the classes '
            'BASIC, ALLOWED_IN_CSI, OSC_TERMINATORS, SPECIAL equal the ECMA-48/VT100 values (read after rustc evaluated them); D2 R-DISPATCH - the decision '
            'tables of escape_dispatch, basic_dispatch and csi_dispatch, extracted by abstract interpretation for every character class x parameter count '
            '(0,1,2,3) x private flag, equal the documented table (method and where each argument comes from; unknown finals call nothing); D3 R-FSM - the '
            'transition relation of the coroutine, extracted from the generalised abstract state at each of its suspension points for every character class '
            'in both UTF-8 and 8-bit mode, is simulated by the reference automaton from the ground state on every care entry (next state, listener calls '
            'expanded through the extracted dispatch tables, ground flag); the plain-text fast path of Parser::feed composed with it delivers each '
            'non-special character to draw exactly once and sends every other character exactly once; D4 R-CAP - empty parameter = 0, saturating at 9999. '
            'Don\'t-care (statement silent): ESC followed by a C0 control, ESC inside CSI, OSC codes R/P/p, ESC x inside an OSC payload, whether CAN/SUB is '
            'also handed to draw. NOT decided: the concatenation of parameter digits into a number is the library parse (A-LIB).'),
        level_text=('Automaton and decision-table extraction by abstract interpretation of the coroutine and dispatch functions over the finite set of '
                    'character classes, compared entry by entry with a reference grammar written from the statement; covers every state x class x mode of '
                    'the copy that ships (which no unit test executes), not sampled strings.'),
        assumes='A-GEN, A-LIB, A-TOOL',
        not_decided='Not decided: digit-string to number conversion (library parse); don\'t-care entries listed in the evidence explanation.',
        technique='finite-domain abstract interpretation (E5 automaton / E6 decision-table extraction) + simulation check against a reference automaton',
        rule=('R-CONST per constant; R-DISPATCH per (function, class, parameter count, private); R-FSM per (reference state, class, mode) care entry and '
              'per (class, flag) of the feed wrapper; R-CAP per parameter push'),
    ),
}
