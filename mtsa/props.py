"""Registry: property id -> rule modules, explanation text for the evidence file."""

REGISTRY = {
    'C01': dict(
        modules=['rules_c01'],
        explanation=(
            'Static panic-freedom / termination argument for the shipping (cfg(not(test))) configuration. '
            'Decided: D1 R-PANIC - every MIR Assert (overflow, bounds, div-by-zero) and every call with a panicking '
            'precondition (unwrap/expect, Index, range slicing, step_by, explicit panic) reached by the abstract interpreter E4 '
            'from every entry point (44 listener methods on Screen x Option-tag/zero partitions x margins partitions, Screen::new/resize, '
            'Parser and ByteParser functions, the FSM coroutine from its entry and from every resume point) is discharged under '
            'the invariant INV (I1-I3, I6) and A-DIM/A-ARG; D2 R-TERM - every loop is a for over a finite iterator, a while-pop '
            'without push, or a coroutine loop whose every cycle passes a yield_, and the one call-graph cycle is bounded; '
            'D3 R-LOCK - no MutexGuard is live at a yield_/send or at a call that may lock the same mutex; D4 R-SEND - only '
            'non-empty strings are sent to the coroutine (except the priming send in new); D5 R-CAP - CSI parameters pushed are in 0..=9999 '
            'and a digit run that fails to parse saturates. NOT decided: stack exhaustion on the 32 KiB coroutine stack and aborts '
            'inside third-party code (A-STACK, A-LIB); println! on a closed stdout (A-IO).'),
        rule=('one instance per (rule, function, construct): R-PANIC obligations keyed kind:description#ordinal, R-TERM per loop and '
              'per call-graph cycle, R-LOCK per lock site, R-SEND per send site, R-CAP per push of a CSI parameter; non-trivial = needed '
              'more than a constant check (all except the A-IO / poison notes)'),
    ),
}
