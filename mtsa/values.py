"""Abstract values of engine E4 (DESIGN.md section 3).

Values are immutable; composite values are rebuilt on update so that states
can be forked by shallow copy.
"""
import itertools

_sym_counter = itertools.count(1)
SYMNAME = {}


def fresh_sym(name=''):
    s = next(_sym_counter)
    if name:
        SYMNAME[s] = name
    return s


def symname(s):
    return SYMNAME.get(s, 's%d' % s)


INT_RANGES = {
    'u8': (0, 2**8 - 1), 'u16': (0, 2**16 - 1), 'u32': (0, 2**32 - 1), 'u64': (0, 2**64 - 1),
    'u128': (0, 2**128 - 1), 'usize': (0, 2**64 - 1),
    'i8': (-2**7, 2**7 - 1), 'i16': (-2**15, 2**15 - 1), 'i32': (-2**31, 2**31 - 1),
    'i64': (-2**63, 2**63 - 1), 'i128': (-2**127, 2**127 - 1), 'isize': (-2**63, 2**63 - 1),
    'char': (0, 0x10ffff), 'bool': (0, 1),
}


class V:
    __slots__ = ()


class NumV(V):
    """integer  sym + k  (sym None: the constant k)"""
    __slots__ = ('sym', 'k', 'ty')

    def __init__(self, sym, k, ty):
        self.sym, self.k, self.ty = sym, k, ty

    def __repr__(self):
        if self.sym is None:
            return '%d' % self.k
        if self.k == 0:
            return symname(self.sym)
        return '%s%+d' % (symname(self.sym), self.k)

    def key(self):
        return ('n', self.sym, self.k)

    def is_const(self):
        return self.sym is None


class BoolV(V):
    """val: True / False / None (unknown).  atom describes how it was computed
    so that a branch on it can refine the state:
       ('cmp', op, a, b)   a, b NumV, op in lt le eq ne gt ge
       ('not', BoolV) ('and', x, y) ('or', x, y)
       ('range', NumV, lo, hi)    value is True iff NumV outside [lo,hi] (overflow flag)
       ('fact', key)              opaque boolean fact (value-numbered)
       ('tag', path, variant)     discriminant test
    """
    __slots__ = ('val', 'atom')

    def __init__(self, val, atom=None):
        self.val, self.atom = val, atom

    def __repr__(self):
        return 'bool(%s%s)' % (self.val, '' if self.atom is None else ',' + repr(self.atom)[:60])

    def key(self):
        if self.val is not None:
            return ('b', self.val)
        return ('b', None, _akey(self.atom))


def _akey(a):
    if a is None:
        return None
    out = []
    for x in a:
        if isinstance(x, V):
            out.append(x.key())
        elif isinstance(x, tuple):
            out.append(_akey(x))
        else:
            out.append(x)
    return tuple(out)


class StrV(V):
    """string / &str / String / char text.  known: python str or None.
    prov: provenance tag for rules (e.g. ('table', 'FG_ANSI'), ('hex',), ('lit',))"""
    __slots__ = ('known', 'prov', 'oid')

    def __init__(self, known=None, prov=None, oid=None):
        self.known, self.prov, self.oid = known, prov, oid

    def __repr__(self):
        if self.known is not None:
            return 'str(%r)' % self.known
        return 'str(?%s)' % ('' if self.prov is None else repr(self.prov))

    def key(self):
        if self.known is not None:
            return ('s', self.known)
        return ('s?', self.oid, self.prov)


class CharV(V):
    __slots__ = ('known', 'oid', 'prov')

    def __init__(self, known=None, oid=None, prov=None):
        self.known, self.oid, self.prov = known, oid, prov

    def __repr__(self):
        return 'char(%r)' % (self.known if self.known is not None else '?%s' % self.oid)

    def key(self):
        return ('c', self.known, self.oid)


class StructV(V):
    """struct / tuple / closure environment.  fields: dict name -> V (may be partial)"""
    __slots__ = ('ty', 'fields', 'prov')

    def __init__(self, ty, fields, prov=None):
        self.ty, self.fields, self.prov = ty, fields, prov

    def __repr__(self):
        return '%s{%s}' % (self.ty.split('::')[-1], ', '.join('%s:%r' % kv for kv in self.fields.items()))

    def key(self):
        return ('st', self.ty, tuple((k, v.key()) for k, v in sorted(self.fields.items())))

    def with_field(self, name, v):
        f = dict(self.fields)
        f[name] = v
        return StructV(self.ty, f, self.prov)


class EnumV(V):
    """enum value: tags = frozenset of possible variant indices, payload: dict idx -> StructV"""
    __slots__ = ('ty', 'tags', 'payload', 'names', 'eid')

    def __init__(self, ty, tags, payload, names=None, eid=None):
        self.ty, self.tags, self.payload, self.names = ty, frozenset(tags), payload, names
        if eid is None and len(self.tags) > 1:
            eid = next(_sym_counter)
        self.eid = eid

    def narrowed(self, tags):
        return EnumV(self.ty, tags, self.payload, self.names, self.eid)

    def __repr__(self):
        return 'enum(%s tags=%s %s)' % (self.ty.split('<')[0].split('::')[-1], sorted(self.tags),
                                       {k: v for k, v in self.payload.items() if k in self.tags})

    def key(self):
        return ('e', self.ty, tuple(sorted(self.tags)),
                tuple((k, v.key()) for k, v in sorted(self.payload.items()) if k in self.tags))


def some(ty, v):
    return EnumV(ty, {1}, {1: StructV('Some', {'0': v})})


def none(ty):
    return EnumV(ty, {0}, {})


def opt_either(ty, v):
    return EnumV(ty, {0, 1}, {1: StructV('Some', {'0': v})})


class RefV(V):
    """reference / pointer to a store path: path = (root, elems) ; elems tuple of
       ('f', name) | ('v', idx) | ('e', keyV or None)"""
    __slots__ = ('path', 'mut')

    def __init__(self, path, mut=False):
        self.path, self.mut = path, mut

    def __repr__(self):
        return '&%s%s' % ('mut ' if self.mut else '', path_str(self.path))

    def key(self):
        return ('r', pkey(self.path))


def pkey(path):
    root, elems = path
    return (root, tuple((e[0], e[1].key() if isinstance(e[1], V) else e[1]) for e in elems))


def path_str(path):
    root, elems = path
    s = root[-1] if root[0] == 'H' else '_%s' % (root[-1],)
    for e in elems:
        if e[0] == 'f':
            s += '.%s' % e[1]
        elif e[0] == 'v':
            s += '#%s' % e[1]
        else:
            s += '[%r]' % (e[1],)
    return str(s)


class CollV(V):
    """abstract collection held by value in the store.
    kind: 'map' 'set' 'vec' 'slice' 'array'
    length: NumV or None ; known: tuple of V or None (exact contents, in order)
    ver: version, bumped on mutation (facts about contents are keyed by it)
    elem: summary value of elements (or None = opaque of elem_ty)"""
    __slots__ = ('kind', 'ty', 'cid', 'ver', 'length', 'known', 'elem', 'prov')

    def __init__(self, kind, ty, cid, ver=0, length=None, known=None, elem=None, prov=None):
        self.kind, self.ty, self.cid, self.ver = kind, ty, cid, ver
        self.length, self.known, self.elem, self.prov = length, known, elem, prov

    def __repr__(self):
        return '%s#%s.v%d(len=%r%s)' % (self.kind, self.cid, self.ver, self.length,
                                        '' if self.known is None else ' known=%r' % (self.known,))

    def key(self):
        return ('coll', self.cid, self.ver)

    def evolve(self, **kw):
        d = dict(kind=self.kind, ty=self.ty, cid=self.cid, ver=self.ver, length=self.length,
                 known=self.known, elem=self.elem, prov=self.prov)
        d.update(kw)
        return CollV(**d)


class IterV(V):
    """iterator description (immutable; progress is forgotten = over-approximation)
    kind: 'range' (lo, hi exclusive, step), 'coll' (source path/coll, mode), 'known' (items)
    adaptors recorded as a chain in `ops`"""
    __slots__ = ('kind', 'ty', 'args', 'ops', 'iid')

    def __init__(self, kind, ty, args, ops=(), iid=None):
        self.kind, self.ty, self.args, self.ops, self.iid = kind, ty, args, ops, iid

    def __repr__(self):
        return 'iter(%s %r %s)' % (self.kind, self.args, [o[0] for o in self.ops])

    def key(self):
        return ('it', self.kind, self.iid, _akey(self.args), _akey(tuple(self.ops)))

    def with_op(self, op, ty):
        return IterV(self.kind, ty, self.args, self.ops + (op,), self.iid)


class ClosureV(V):
    __slots__ = ('func', 'caps', 'fp')

    def __init__(self, func, caps, fp=None):
        self.func, self.caps = func, caps  # caps: StructV
        self.fp = fp or func               # behavioural fingerprint (body modulo spans)

    def __repr__(self):
        return 'closure(%s)' % self.func.split('::')[-1]

    def key(self):
        return ('cl', self.fp, self.caps.key())


class FnV(V):
    __slots__ = ('fn',)

    def __init__(self, fn):
        self.fn = fn

    def __repr__(self):
        return 'fn(%s)' % self.fn['path']

    def key(self):
        return ('fn', self.fn['full'])


class OpaqueV(V):
    """unknown value of a type; oid distinguishes separately created unknowns"""
    __slots__ = ('ty', 'oid', 'prov')

    def __init__(self, ty, oid=None, prov=None):
        self.ty, self.oid, self.prov = ty, oid, prov

    def __repr__(self):
        return '?%s%s' % (self.ty.split('<')[0].split('::')[-1], '' if self.prov is None else repr(self.prov))

    def key(self):
        return ('o', self.ty, self.oid)


UNIT = StructV('()', {})
