"""C01: no input can crash, hang or wedge the emulator (R-PANIC, R-TERM, R-LOCK, R-SEND, R-CAP)."""
import re
from . import structural
from .ctx import BYTE_FNS, CLOSURE, PARSER_FNS
from .model import short
from .values import CollV, NumV, StrV


def ob_construct_keys(obligs):
    """line-free construct key per obligation: kind:desc#ordinal (ordinal in source order among equals)"""
    groups = {}
    for ob in obligs:
        groups.setdefault((ob.func, ob.kind, ob.desc), []).append(ob)
    keys = {}
    for (func, kind, desc), lst in groups.items():
        lst.sort(key=lambda o: (o.span.get('line', 0), o.span.get('col', 0), o.bb))
        for i, ob in enumerate(lst):
            keys[ob.key] = '%s:%s#%d' % (kind, desc, i)
    return keys


def panic_obligations(chk, prop, eng, only_funcs=None, rule='R-PANIC'):
    keys = ob_construct_keys(eng.oblig.values())
    n = 0
    for ob in sorted(eng.oblig.values(), key=lambda o: (o.func, o.bb, o.kind, o.desc)):
        if ob.kind in ('loopinv', 'callinv', 'callarg', 'capinv'):
            continue
        if only_funcs is not None and ob.func not in only_funcs:
            continue
        n += 1
        detail = ''
        if not ob.discharged:
            f = next((x for x in ob.fails if x), None)
            if f:
                detail = '%s | path: %s | entry: %s' % (f['facts'], ' > '.join(short(x).split('::')[-1] for x in f['stack']), f['entry'])
            detail += ' | visited %d times, failed %d' % (ob.visits, len(ob.fails))
        what = {
            'assert': 'possible panic: %s check can fail' % ob.desc,
            'unwrap': 'possible panic: %s' % ob.desc,
            'panic': 'explicit panic is reachable',
            'bounds': 'possible panic: index out of bounds (%s)' % ob.desc,
            'precondition': 'possible panic: %s' % ob.desc,
            'unknown-callee': 'library callee without a summary: %s (cannot be shown not to panic)' % ob.desc,
            'ptrcheck': 'raw-pointer debug check outside the vec! idiom',
        }.get(ob.kind, ob.desc)
        chk.instance(rule, short(ob.func), keys[ob.key], ob.discharged, nontrivial=ob.kind not in ('io', 'poison'),
                     detail=detail, span=ob.span, what=what, undischarged=ob.kind in ('unknown-callee',))
    return n


def run(ctx, chk):
    prog = ctx.prog
    chk.assume('A-DIM', 'A-ARG', 'A-GEN', 'A-LIB', 'A-IO', 'A-STACK', 'A-PUB', 'A-TOOL')
    sr = ctx.screen_run()
    pr = ctx.parser_run()
    eng_s, eng_p = sr['engine'], pr['engine']

    # ---- D1 R-PANIC --------------------------------------------------------
    n1 = panic_obligations(chk, 'C01', eng_s)
    n2 = panic_obligations(chk, 'C01', eng_p)
    for ep, rs in sr['results'].items():
        for r in rs:
            chk.instance('R-PANIC', short(ep), 'entry-analysed[%s]' % r.label, r.error is None, nontrivial=False,
                         detail=r.error or '', what='analysis of this entry point did not complete: %s' % r.error, undischarged=True)
    for f, e in pr['errors'].items():
        chk.instance('R-PANIC', short(f), 'entry-analysed', False, detail=e, what='analysis did not complete: %s' % e, undischarged=True)
    # vacuity guards only: the completeness of the obligation set is decided by `function-analysed`
    # and by the syntactic site inventory below; tidy code legitimately has fewer panic sites
    chk.floor('panic obligations (screen side)', n1, 30)
    chk.floor('panic obligations (parser side)', n2, 6)
    # coverage of the reachable code by the analysis
    roots = sr['entry_points'] + [f for f in PARSER_FNS + BYTE_FNS if f in prog.bodies] + ([CLOSURE] if CLOSURE in prog.bodies else [])
    reach = structural.reachable_functions(prog, roots)
    visited = set(eng_s.visited_blocks) | set(eng_p.visited_blocks)
    for e in (eng_s, eng_p):
        for k in getattr(e, 'static_cache', {}):
            pass
    unentered = sorted(f for f in reach if f not in visited and not _exempt(prog, f))
    for f in unentered:
        chk.instance('R-PANIC', short(f), 'function-analysed', False, detail='reachable from the entry points but never entered by the analysis',
                     what='reachable function was not analysed', undischarged=True)
    chk.floor('entry points', len(roots), 55)
    # syntactic site inventory vs obligations (completeness cross-reference)
    sites = 0
    unvisited = []
    vis_ob = {(ob.func, ob.bb) for e in (eng_s, eng_p) for ob in e.oblig.values()}
    for f in sorted(reach):
        b = prog.bodies[f]
        rb = b.reachable_blocks()
        for bi in rb:
            t = b.blocks[bi]['term']
            if b.blocks[bi]['cleanup']:
                continue
            if t['k'] == 'assert':
                sites += 1
                if (f, bi) not in vis_ob:
                    unvisited.append('%s:bb%d(%s,L%d)' % (short(f), bi, t['msg'], t['span']['line']))
    chk.cov['assert_sites_in_reachable_code'] = sites
    chk.cov['assert_sites_never_reached_by_any_abstract_path'] = unvisited[:80]
    chk.cov['reachable_functions'] = len(reach)
    chk.cov['blocks_visited'] = sum(len(v) for e in (eng_s, eng_p) for v in e.visited_blocks.values())
    chk.cov['abstract_paths'] = sum(len(r.finals) for rs in sr['results'].values() for r in rs)
    chk.cov['engine_steps'] = eng_s.total_steps + eng_p.total_steps
    chk.cov['partitions'] = sum(len(rs) for rs in sr['results'].values())

    # ---- D2 R-TERM ---------------------------------------------------------
    nloops = 0
    for f in sorted(reach):
        for li in structural.loop_kinds(prog, f):
            nloops += 1
            if li['kind'] == 'while-pop-push':
                # ranking argument on the abstract iteration paths: every iteration removes more
                # elements than it puts back
                segs = [s_ for s_ in sr.get('segments', []) if s_['func'] == f and s_['head'] == li['head']]
                worst = None
                for s_ in segs:
                    evs = s_['st'].event_list()
                    last = max(i for i, ev in enumerate(evs) if ev[0] == 'loop-head' and ev[1] == f and ev[2] == li['head'])
                    tail = evs[last + 1:]
                    head_pops = [ev for ev in tail if ev[0] == 'vec.pop']
                    if not head_pops:
                        continue
                    vec = head_pops[0][1]
                    pops = sum(1 for ev in tail if ev[0] == 'vec.pop' and ev[1] == vec and ev[2] != 'none')
                    pushes = sum(1 for ev in tail if ev[0] in ('vec.push',) and ev[1] == vec)
                    ext = sum(1 for ev in tail if ev[0] in ('vec.extend',) and ev[1] == vec)
                    net = pops - pushes if not ext else -1
                    worst = net if worst is None else min(worst, net)
                li['ok'] = bool(segs) and worst is not None and worst >= 1
                li['why'] += '; least net removal per iteration over %d abstract iteration paths: %s' % (len(segs), worst)
            if li['kind'] == 'for' and not li['ok'] and 'not known to be finite' in li['why']:
                # a crate-local iterator type: finite if the engine showed its `next` to be a range's
                m_ = re.search(r'iterator type &mut (\S+) not known', li['why'])
                rl = m_ and any(getattr(e_, 'rangelike', {}).get(m_.group(1)) for e_ in (eng_s, eng_p))
                if rl:
                    li['ok'] = True
                    li['why'] = '`for` over %s, whose next() has exactly the outcomes of Range::next on two of its fields' % m_.group(1)
            if li['kind'] == 'while-cmp':
                # ranking argument read off the abstract paths through the body (engine.probe_loop): the
                # guard compares a local with a value the loop does not change, and on every path to
                # the back edge the local has moved towards that value by at least one
                recs = [r_ for e_ in (eng_s, eng_p) for r_ in e_.loop_rank.get((f, li['head']), [])]
                bad = [r_ for r_ in recs if not r_['ok']]
                li['ok'] = bool(recs) and not bad
                li['why'] += ': ' + (bad[0]['why'] if bad else (recs[0]['why'] if recs else 'the loop was not reached by the abstract interpreter')) + \
                    ' (%d abstract visits)' % len(recs)
            chk.instance('R-TERM', short(f), 'loop#%d:%s' % (nloops_in(f, li, prog), li['kind']), li['ok'], detail=li['why'], span=li['span'],
                         what='loop not shown to terminate: %s' % li['why'], undischarged=(li['kind'] in ('other', 'while-cmp')))
    chk.floor('loops analysed', nloops, 10)
    sccs, graph = structural.call_graph_sccs(prog, reach)
    completed = {ep for ep, rs in sr['results'].items() if all(r.error is None for r in rs)}
    for comp in sccs:
        names = sorted(short(c) for c in comp)
        ok = all((c in completed) or any(c in eng_s.visited_blocks for _ in [0]) for c in comp) and \
            all(r.error is None for c in comp for r in sr['results'].get(c, []))
        chk.instance('R-TERM', ','.join(names), 'recursion-cut', ok,
                     detail='call-graph cycle; every abstract path through it was explored with inlining and ended within depth %d' % eng_s.cfg['max_depth'],
                     what='recursive cycle not shown to be bounded', undischarged=True)
    chk.cov['call_graph_cycles'] = [sorted(short(c) for c in comp) for comp in sccs]

    # ---- D3 R-LOCK ---------------------------------------------------------
    nlocks = 0
    for f in sorted(reach):
        for i, ls in enumerate(structural.lock_sites(prog, f)):
            nlocks += 1
            if ls['guard'] is None:
                chk.instance('R-LOCK', short(f), 'lock#%d:%s' % (i, ls['which']), False, span=ls['span'],
                             what='lock() result not immediately unwrapped into a guard (idiom not recognised)', undischarged=True)
                continue
            bad = []
            for (b, name, t) in ls['live_calls']:
                if name and name.endswith('::yield_'):
                    bad.append('guard held across yield_ (bb%d, line %d)' % (b, t['span']['line']))
                    continue
                fn = t['func'].get('fn') if t['func']['k'] == 'const' else None
                kind, callee = prog.resolve_callee(fn)
                if kind == 'local' and structural.may_lock(prog, callee, ls['which']):
                    bad.append('%s may lock the same mutex while the guard is held (line %d)' % (short(callee), t['span']['line']))
                if name and name.endswith('::send') and structural.may_lock(prog, CLOSURE, ls['which']):
                    bad.append('coroutine resumed while the guard is held (line %d)' % t['span']['line'])
                if name and name.endswith('Mutex::<T>::lock'):
                    aty = t['args'][0]['place']['ty'] if t['args'][0]['k'] in ('copy', 'move') else ''
                    w = 'parser_state' if 'ParserState' in aty else 'listener'
                    if w == ls['which']:
                        bad.append('same mutex locked again while the guard is held (line %d)' % t['span']['line'])
            chk.instance('R-LOCK', short(f), 'lock#%d:%s' % (i, ls['which']), not bad, detail='; '.join(bad) or
                         '%d calls while the guard is live, none re-locks or yields' % len(ls['live_calls']), span=ls['span'],
                         what='lock discipline: ' + '; '.join(bad))
    chk.floor('lock sites', nlocks, 6)

    # ---- D4 R-SEND ---------------------------------------------------------
    sends = pr.get('sends', [])
    for i, s in enumerate(sends):
        ok = s['nonempty'] or (s['func'].endswith('::new') and s['known'] == '')
        chk.instance('R-SEND', short(s['func']), 'send#%d' % s['ord'], ok, detail='argument %s' % s['arg'], span=s['span'],
                     what='a possibly empty string is sent to the coroutine (the FSM unwraps its first character)')
    chk.floor('send sites', len({(s['func'], s['ord']) for s in sends}), 2)

    # ---- D5 R-CAP ----------------------------------------------------------
    pushes = pr.get('pushes', [])
    agg = {}
    for p in pushes:
        k = (p['func'], p['ord'])
        a = agg.setdefault(k, dict(ok=True, detail='', span=p['span']))
        if not p['in_range']:
            a['ok'] = False
            a['detail'] = p['detail']
        elif a['ok']:
            a['detail'] = p['detail']
    for (f, o), a in sorted(agg.items()):
        chk.instance('R-CAP', short(f), 'push#%d:cap' % o, a['ok'], detail=a['detail'], span=a['span'],
                     what='CSI parameter collection: a pushed value can leave 0..=9999, or a digit run that fails to parse does not saturate')
    chk.floor('CSI parameter pushes', len(agg), 1)
    # the A-ARG obligations at listener calls made by the parser (params in domain)
    for ob in sorted(eng_p.oblig.values(), key=lambda o: (o.func, o.bb, o.desc)):
        if ob.kind in ('callarg', 'capinv'):
            f = next((x for x in ob.fails if x), None)
            chk.instance('R-CAP', short(ob.func), panic_keys(eng_p)[ob.key], ob.discharged, detail=(f or {}).get('facts', ''), span=ob.span,
                         what='argument handed to the listener is not shown to be in the documented domain (%s)' % ob.desc)
    chk.trust(*trusted_base(eng_s, eng_p))
    return chk


_pk = {}


def panic_keys(eng):
    if id(eng) not in _pk:
        _pk[id(eng)] = ob_construct_keys(eng.oblig.values())
    return _pk[id(eng)]


def nloops_in(f, li, prog):
    body = prog.bodies[f]
    heads = sorted(body.loops()[0].keys(), key=lambda h: (body.blocks[h]['term']['span']['line'], h))
    return heads.index(li['head'])


def _exempt(prog, f):
    b = prog.bodies[f]
    # lazy_static plumbing around the initialiser (interpreted through the Lazy::get summary)
    if '::deref::__stability' in f or f.endswith('::__static_ref_initialize') or ' as lazy_static::LazyStatic>::initialize' in f:
        return True
    if f.endswith('as std::ops::Deref>::deref') and '::' in f and f.startswith('<') and 'lazy' not in f:
        return False
    return False


def trusted_base(*engs):
    out = set()
    for e in engs:
        for name, n in e.summ.used.items():
            out.add('summary:' + name)
    out.add('rustc front end, type checker, MIR construction, const evaluation (nightly 1.97)')
    out.add('mtsa zone domain and abstract interpreter (this repository)')
    return sorted(out)
